(* Props/C05.v -- C05: inheritance is computed as Python computes it.
   Only statements closed by `exact`; proofs live in Proofs/MroProofs.v.
   Model: Model/Mro.v (pydoctor/mro.py, model.compute_mro/_init_mro/mro/find/docsources/get_docstring,
          templatewriter.util.nested_bases/unmasked_attrs).
   Spec : Spec/C3.v (CPython's pmerge / mro_implementation after Objects/typeobject.c, attribute lookup
          and docstring inheritance along an MRO); validated against CPython itself by the harness.

   as_spec maps the model's outcome to the spec's:  MOk l -> COk l,  MValueError -> CTypeError,
   MOutOfFuel -> COutOfFuel  (Proofs/MroProofs.v). *)
From Coq Require Import ZArith NArith List Bool.
From PydoctorVerif Require Import Base.Sexp Spec.C3 Model.Mro Proofs.MroProofs.
From PydoctorVerif Require Import Model.MroIR Gen.MroCode Proofs.MroIRProofs.
Import ListNotations.

(* ---- C3 merge ------------------------------------------------------------------------------------ *)
(* mro._merge (deques, popped heads) computes exactly what CPython's pmerge (arrays, remain[] indices)
   computes, failures included, on every list of sequences of truthy objects -- no bound on their
   number or length. *)
Theorem C05_merge_refines :
  forall ls : list (list cls),
    (forall l, In l ls -> forall c, In c l -> truthy c = true) ->
    as_spec (merge ls) = pmerge [] ls.
Proof. exact merge_refines. Qed.

(* Why the hypothesis: `if head and ...` in _merge tests the truthiness of the candidate, so a falsy
   object (an empty base-name string, the integer 0) is never selected: [[0]] cannot be merged although
   CPython answers [0].  Class objects and the expanded names of real base expressions are always
   truthy, so this is not reachable from source code. *)
Theorem C05_merge_falsy_refuted :
  exists ls : list (list cls), as_spec (merge ls) <> pmerge [] ls.
Proof. exists [[0%N]]. vm_compute. discriminate. Qed.

(* The while loop of _merge ends within 1 + (sum of the lengths) iterations, whatever the input. *)
Theorem C05_fuel_merge : forall ls, merge ls <> MOutOfFuel.
Proof. exact merge_fuel. Qed.

(* A successful merge lists exactly the members of the sequences, each once, every sequence in its order. *)
Theorem C05_merge_sound :
  forall ls r, merge ls = MOk r ->
    NoDup r /\ (forall x, In x r <-> exists l, In l ls /\ In x l) /\ (forall l, In l ls -> subseq l r).
Proof. exact merge_sound. Qed.

(* ---- the linearisation --------------------------------------------------------------------------- *)
(* mro.mro(c, getbases) is CPython's mro_implementation for every class of every acyclic hierarchy
   (any number of classes, any bases, duplicates included), with the same fuel on both sides. *)
Theorem C05_mro_equal :
  forall (h : hier) (rank : N -> nat),
    acyclic h rank ->
    (forall c b, In b (getbases h c) -> truthy b = true) ->
    forall f c, as_spec (mro f h c) = cpython_mro f h c.
Proof. exact mro_equal. Qed.

(* The recursion depth of mro.mro is bounded by the number of classes: fuel (1 + number of classes) is enough. *)
Theorem C05_fuel :
  forall (h : hier) (rank : N -> nat) c, acyclic h rank -> mro (mro_fuel h) h c <> MOutOfFuel.
Proof. exact mro_fuel_ok. Qed.

(* What Class._init_mro stores: Python's MRO when Python accepts the class; when Python raises TypeError
   the class is reported (warning of section 'mro'); nothing else can happen. *)
Theorem C05_init_mro_equal :
  forall (h : hier) (rank : N -> nat) c,
    acyclic h rank ->
    (forall c b, In b (getbases h c) -> truthy b = true) ->
    match init_mro h c with
    | (KOk, l) => cpython_mro (mro_fuel h) h c = COk l
    | (KLinearization, _) => cpython_mro (mro_fuel h) h c = CTypeError
    | _ => False
    end.
Proof. exact init_mro_equal. Qed.

(* A class is linearised only if each of its bases is: a rejected base makes the class itself reported. *)
Theorem C05_rejected_base_reported :
  forall (h : hier) (rank : N -> nat) c b,
    acyclic h rank -> In b (getbases h c) -> fst (init_mro h c) = KOk ->
    exists m, init_mro h b = (KOk, m).
Proof. exact rejected_base_reported. Qed.

(* Independent sanity: a linearisation r of c starts with c, names no class twice, consists of exactly the
   ancestors of c, keeps the order in which c lists its bases and extends the linearisation of every base. *)
Theorem C05_mro_c3 :
  forall (h : hier) (rank : N -> nat),
    acyclic h rank ->
    forall n c r, mro n h c = MOk r ->
      exists f, n = S f /\
      exists r', r = c :: r' /\ NoDup r /\ (forall x, In x r <-> ancestor h c x) /\
        subseq (getbases h c) r' /\
        forall b, In b (getbases h c) -> exists rb, mro f h b = MOk rb /\ subseq rb r'.
Proof. exact mro_c3_gen. Qed.

(* ---- cycles -------------------------------------------------------------------------------------- *)
(* For ANY hierarchy the cycle detection of compute_mro terminates within its fuel ... *)
Theorem C05_fuel_cycle_detection :
  forall (h : hier) c, init_final (mro_fuel h) h [] c <> DOutOfFuel.
Proof. exact init_final_fuel_top. Qed.

(* ... a class that is on an inheritance cycle, or inherits from one, gets the ValueError branch ... *)
Theorem C05_cycle_reported :
  forall (h : hier) c,
    reaches_cycle h c -> fst (compute_mro h c) = KCycle /\ fst (init_mro h c) = KCycle.
Proof. exact cycle_reported. Qed.

(* ... and on an acyclic hierarchy the detection never fires. *)
Theorem C05_no_false_cycle :
  forall (h : hier) (rank : N -> nat) c, acyclic h rank -> init_final (mro_fuel h) h [] c = DOk.
Proof. exact init_final_acyclic_top. Qed.

(* ---- members ------------------------------------------------------------------------------------- *)
(* Class.find(name) is attribute lookup along Class.mro(): the first class whose namespace has the name. *)
Theorem C05_find_lookup :
  forall (h : hier) (ns : namespace) c n,
    (forall d o, class_find h ns c n = Some (d, o) ->
                 lookup (defines_of ns) (class_mro h c) n d /\ contents_get ns d n = Some o) /\
    (class_find h ns c n = None -> lookup_fails (defines_of ns) (class_mro h c) n) /\
    (forall d, lookup (defines_of ns) (class_mro h c) n d ->
               exists o, class_find h ns c n = Some (d, o) /\ contents_get ns d n = Some o).
Proof. exact find_lookup. Qed.

(* get_docstring of a member `self` of class c: the source is the first class along Class.mro() (c first)
   whose namespace has the name with a docstring that is not None, and the docstring shown is that one
   (an empty one counts as undocumented: shown_doc 0 = None); (None, None) only when there is no such class. *)
Theorem C05_docsources :
  forall (h : hier) (ns : namespace) c self,
    is_class h c = true -> contents_get ns c (m_name self) = Some self ->
    (forall d s, get_docstring h ns c self = (d, Some s) ->
       exists k, getdoc (defines_of ns) (doc_of ns) (class_mro h c) (m_name self) s k /\ d = shown_doc k) /\
    (forall d, get_docstring h ns c self = (d, None) ->
       d = None /\ getdoc_none (defines_of ns) (doc_of ns) (class_mro h c) (m_name self)).
Proof. exact get_docstring_spec. Qed.

(* A member listed as inherited via the chain b0 ... c (templatewriter.util.nested_bases/unmasked_attrs)
   is visible and is the one attribute lookup on c returns: no class before b0 in the MRO defines the
   name -- whether that definition is visible or hidden (--privacy) makes no difference. *)
Theorem C05_unmasked :
  forall (ns : namespace) (m : list cls) bl o,
    In bl (nested_bases_of m) -> In o (unmasked_attrs ns bl) ->
    exists b0 rest, bl = b0 :: rest /\ In o (ns b0) /\ m_hidden o = false /\
                    lookup (defines_of ns) m (m_name o) b0.
Proof. exact unmasked_lookup. Qed.

(* Conversely, the member attribute lookup returns is listed (under its class) whenever it is visible. *)
Theorem C05_unmasked_complete :
  forall (ns : namespace) (m : list cls) b0 o,
    lookup (defines_of ns) m (m_name o) b0 -> In o (ns b0) -> m_hidden o = false ->
    exists rest, In (b0 :: rest) (nested_bases_of m) /\ In o (unmasked_attrs ns (b0 :: rest)).
Proof. exact lookup_unmasked. Qed.

(* The "overrides" note of a member names what attribute lookup finds once the class itself is skipped. *)
Theorem C05_overrides :
  forall (h : hier) (ns : namespace) c n d o,
    overrides h ns c n = Some (d, o) ->
    lookup (defines_of ns) (d_tail (class_mro h c)) n d /\ contents_get ns d n = Some o.
Proof. exact overrides_lookup. Qed.

(* ---- the tie to the source: the code translated from the CURRENT pydoctor/mro.py ------------------------------ *)
(* Gen/MroCode.v is regenerated from /repo on every run by harness/gen/gen_c05_code.py (fail-closed); Model/MroIR.v
   interprets it.  The interpretation of every translated body IS the hand-written model, for all inputs: an edit of
   mro.py that changes what it computes breaks one of these obligations. *)
Theorem C05_code_head_is_model :
  forall d, head_ir mro_code (of_seq d) = EV (of_head (d_head d)).
Proof. exact head_ir_eq. Qed.

Theorem C05_code_tail_is_model :
  forall d, tail_ir mro_code (of_seq d) = EV (of_seq (d_tail d)).
Proof. exact tail_ir_eq. Qed.

Theorem C05_code_init_is_model :
  forall ls, newdl_ir mro_code (of_seqs ls) = EV (VDL (of_seqs ls)).
Proof. exact newdl_ir_eq. Qed.

Theorem C05_code_contains_is_model :
  forall ls c, contains_ir mro_code (VDL (of_seqs ls)) (VObj c) = EV (VBool (in_tails c ls)).
Proof. exact contains_ir_eq. Qed.

Theorem C05_code_heads_is_model :
  forall ls, heads_ir mro_code (VDL (of_seqs ls)) = EV (VList (map of_head (heads ls))).
Proof. exact heads_ir_eq. Qed.

Theorem C05_code_tails_is_model :
  forall v, tails_ir mro_code (VDL v) = EV (VDL v).
Proof. exact tails_ir_eq. Qed.

Theorem C05_code_exhausted_is_model :
  forall ls, exhausted_ir mro_code (VDL (of_seqs ls)) = EV (VBool (exhausted ls)).
Proof. exact exhausted_ir_eq. Qed.

Theorem C05_code_remove_is_model :
  forall ls c, remove_ir mro_code (VDL (of_seqs ls)) (VObj c) = EV (VDL (of_seqs (dl_remove c ls))).
Proof. exact remove_ir_eq. Qed.

(* _merge: same result list, same ValueError, same (never reached: C05_fuel_merge) out-of-fuel value *)
Theorem C05_code_merge_is_model :
  forall ls, merge_ir mro_code (map of_seq ls) = eres_of_mres (merge ls).
Proof. exact merge_ir_eq. Qed.

(* mro(cls, getbases), for every hierarchy, class and fuel; Some = the interpretation never gets stuck *)
Theorem C05_code_mro_is_model :
  forall (h : hier) f c, mro_ir mro_code (getbases h) f c = Some (mro f h c).
Proof. exact mro_ir_eq. Qed.

(* hence the translated source itself computes CPython's MRO on every acyclic hierarchy *)
Theorem C05_code_mro_is_python :
  forall (h : hier) (rank : N -> nat),
    acyclic h rank -> (forall c b, In b (getbases h c) -> truthy b = true) ->
    forall f c, option_map as_spec (mro_ir mro_code (getbases h) f c) = Some (cpython_mro f h c).
Proof. exact code_mro_is_python. Qed.

(* ---- non-vacuity --------------------------------------------------------------------------------- *)
Local Open Scope N_scope.
(* diamond 1 <- 2, 1 <- 3, 4(2,3); 5(1,2) is rejected by Python (1 before its subclass 2); 6(5) inherits the rejection *)
Definition ex_h : hier := [(1, []); (2, [1]); (3, [1]); (4, [2; 3]); (5, [1; 2]); (6, [5])]%N.
Definition ex_rank (c : N) : nat := N.to_nat c.

Example C05_hypotheses_satisfiable :
  acyclic ex_h ex_rank /\ (forall c b, In b (getbases ex_h c) -> truthy b = true) /\
  init_mro ex_h 4 = (KOk, [4; 2; 3; 1]%N) /\ cpython_mro (mro_fuel ex_h) ex_h 4 = COk [4; 2; 3; 1]%N /\
  fst (init_mro ex_h 5) = KLinearization /\ cpython_mro (mro_fuel ex_h) ex_h 5 = CTypeError /\
  fst (init_mro ex_h 6) = KLinearization /\ snd (init_mro ex_h 6) = [6; 5; 1; 2; 1]%N.
Proof.
  assert (Hb : forall c b, In b (getbases ex_h c) ->
                           In (c, b) [(2, 1); (3, 1); (4, 2); (4, 3); (5, 1); (5, 2); (6, 5)]%N).
  { intros c b. unfold getbases, ex_h. cbn [assoc].
    repeat (match goal with |- context [N.eqb ?a c] => destruct (N.eqb_spec a c) as [<-|_] end;
            [cbn; intuition (subst; auto 10) |]).
    cbn. contradiction. }
  split; [|split].
  - intros c b H. rewrite tp_bases_getbases in H. apply Hb in H. cbn in H.
    repeat (destruct H as [H|H]; [injection H as <- <-; vm_compute; auto with arith |]). contradiction.
  - intros c b H. apply Hb in H. cbn in H.
    repeat (destruct H as [H|H]; [injection H as <- <-; reflexivity |]). contradiction.
  - vm_compute. repeat split.
Qed.

(* 1(3), 2, 3(1,2): classes 1 and 3 are on a cycle; 4(3) inherits from it *)
Definition ex_cyc : hier := [(1, [3]); (2, []); (3, [1; 2]); (4, [3])]%N.
Example C05_cycle_satisfiable :
  reaches_cycle ex_cyc 1 /\ reaches_cycle ex_cyc 4 /\ fst (init_mro ex_cyc 2) = KOk.
Proof.
  assert (H13 : reach ex_cyc 1 3) by (apply reach_base; [cbn; auto | reflexivity]).
  assert (H31 : reach ex_cyc 3 1) by (apply reach_base; [cbn; auto | reflexivity]).
  assert (H11 : reach ex_cyc 1 1) by (eapply reach_step; [cbn; left; reflexivity | reflexivity | exact H31]).
  split; [|split].
  - left. exact H11.
  - right. exists 1%N. split; [|exact H11].
    eapply reach_step; [cbn; left; reflexivity | reflexivity | exact H31].
  - reflexivity.
Qed.

(* members: 1 defines f (doc 7) and g (doc 8); 2 defines f without a docstring; 3 defines g with the empty docstring *)
Definition ex_ns : namespace := fun c =>
  match c with
  | 1%N => [{| m_name := 100; m_doc := Some 7%N; m_hidden := false |}; {| m_name := 101; m_doc := Some 8%N; m_hidden := false |}]
  | 2%N => [{| m_name := 100; m_doc := None; m_hidden := false |}]
  | 3%N => [{| m_name := 101; m_doc := Some 0%N; m_hidden := true |}]
  | _ => []
  end.
Example C05_members_satisfiable :
  is_class ex_h 2 = true /\
  contents_get ex_ns 2 100 = Some {| m_name := 100; m_doc := None; m_hidden := false |} /\
  get_docstring ex_h ex_ns 2 {| m_name := 100; m_doc := None; m_hidden := false |} = (Some 7%N, Some 1%N) /\
  get_docstring ex_h ex_ns 3 {| m_name := 101; m_doc := Some 0%N; m_hidden := true |} = (None, Some 3%N) /\
  option_map fst (class_find ex_h ex_ns 4 101) = Some 3%N /\
  option_map fst (class_find ex_h ex_ns 4 100) = Some 2%N.
Proof. vm_compute. repeat split. Qed.
