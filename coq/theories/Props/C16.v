(* Props/C16.v -- C16: warnings point at the right place and every reported problem is counted.
   Only statements closed by `exact`; proofs live in Proofs/LinesProofs.v.
   Models : Model/Lines.v (astutils.extract_docstring_linenum / extract_docstring, Documentable.setDocstring /
            report, ParseError.linenum, reportErrors, Field.report, extract_fields, the linker's report),
            Model/Msg.v (System.msg, the exit-status tail of driver.main).
   Specs  : Spec/CleanDoc.v (inspect.cleandoc and the str methods it uses, validated against CPython on
            every run), Spec/Reporting.v (which msg() calls are problems, the exit rule, shifting).
   Not proved here (observed end-to-end by the correspondence check and the oracle only): the line a
   docutils and napoleon attribute to a block inside the cleaned docstring (node.line, get_lineno's inputs): they
   enter as oracles with the contracts stated at C16_rst_field_line / C16_get_lineno / C16_report_inside_docstring.
   The epytext tokenizer IS modelled (Model/EpyLines.v, regex tests on single lines as an oracle). *)
From Coq Require Import ZArith NArith List Bool.
From PydoctorVerif Require Import Base.Sexp Spec.CleanDoc Spec.Reporting Model.Msg Model.Lines Proofs.LinesProofs.
From PydoctorVerif Require Model.EpyLines Spec.EpyBlocks Proofs.EpyProofs.
From PydoctorVerif Require Import Model.LinesIR Gen.LinesCode Proofs.LinesIRProofs.
Import ListNotations.
Local Open Scope Z_scope.

(* ---- docstring start line ----------------------------------------------------------------------------
   For a docstring with text whose leading whitespace-only lines are all no longer than the margin
   cleandoc computes: line i of cleandoc(s) is what cleandoc makes (expandtabs, margin removed / lstrip) of
   the line of the literal's value that sits on physical line  docstring_lineno + i , where
   docstring_lineno = extract_docstring_linenum(node)  (CPython >= 3.8: node.lineno is the opening line). *)
Theorem C16_cleandoc_alignment :
  forall (s : text) (n0 : Z) (i : nat),
    has_content s = true -> leading_ws_fit s = true ->
    (i < length (cleandoc_lines s))%nat ->
    exists j : nat,
      linenum_of_docstring false n0 s + Z.of_nat i = phys_line n0 j /\
      nth_error (cleandoc_lines s) i = clean_line_of_value_line s j.
Proof. exact cleandoc_alignment. Qed.

(* Without the guard the statement is false of the faithful model: "\n      \n  text".  The whitespace-only
   second line is longer than the margin (2), survives cleandoc as "    " and becomes line 0 of the cleaned
   docstring, while the character loop counted it as dropped: every line reported in such a docstring is
   one too large.  (known_findings/C16.json: C16-ws-line-longer-than-margin) *)
Theorem C16_cleandoc_alignment_refuted :
  ~ (forall (s : text) (n0 : Z) (i : nat),
       has_content s = true -> (i < length (cleandoc_lines s))%nat ->
       exists j : nat,
         linenum_of_docstring false n0 s + Z.of_nat i = phys_line n0 j /\
         nth_error (cleandoc_lines s) i = clean_line_of_value_line s j).
Proof. exact alignment_refuted. Qed.

Theorem C16_cleandoc_alignment_refuted_by_one :
  leading_ws_fit w_doc = false /\
  linenum_of_docstring false 0 w_doc = 2 /\
  nth_error (cleandoc_lines w_doc) 0 = clean_line_of_value_line w_doc 1 /\
  nth_error (cleandoc_lines w_doc) 1 = clean_line_of_value_line w_doc 2.
Proof. exact alignment_refuted_by_one. Qed.

(* In general (any docstring with text): the docstring line is never too small, and it overshoots by exactly
   top_dropped - top_kept = (leading whitespace-only lines of the literal) - (lines cleandoc removes at the top);
   under the guard the two are equal. *)
Theorem C16_cleandoc_overshoot :
  forall (s : text) (n0 : Z) (i : nat),
    has_content s = true -> (i < length (cleandoc_lines s))%nat ->
    exists j : nat,
      (top_kept s <= top_dropped s)%nat /\
      linenum_of_docstring false n0 s + Z.of_nat i = phys_line n0 j + Z.of_nat (top_dropped s - top_kept s) /\
      nth_error (cleandoc_lines s) i = clean_line_of_value_line s j.
Proof. exact cleandoc_overshoot. Qed.

Theorem C16_fit_no_overshoot :
  forall s, has_content s = true -> leading_ws_fit s = true -> top_kept s = top_dropped s.
Proof. exact fit_no_overshoot. Qed.

(* non-vacuity of the guard: "\n  \n    \n    text\n      more\n" (two leading whitespace-only lines, the
   second exactly as long as the margin) satisfies it, and its cleaned line 1 is value line 4 *)
Example C16_alignment_hypotheses_satisfiable :
  let s := [10; 32;32; 10; 32;32;32;32; 10; 32;32;32;32;116;101;120;116; 10;
            32;32;32;32;32;32;109;111;114;101; 10]%N in
  has_content s = true /\ leading_ws_fit s = true /\ length (cleandoc_lines s) = 2%nat /\
  linenum_of_docstring false 7 s = 10 /\
  nth_error (cleandoc_lines s) 1 = Some [32;32;109;111;114;101]%N /\
  clean_line_of_value_line s 4 = Some [32;32;109;111;114;101]%N.
Proof. vm_compute. repeat split. Qed.

(* The docstring line itself never lies before the literal and moves with it. *)
Theorem C16_docstring_line_shift :
  forall (e : bool) (n k : Z) (s : text),
    linenum_of_docstring e (n + k) s = linenum_of_docstring e n s + k /\ n <= linenum_of_docstring false n s.
Proof. intros e n k s. split; [exact (linenum_shift e n k s)|exact (linenum_ge n s)]. Qed.

(* ---- shift invariance ------------------------------------------------------------------------------
   Moving the definition down by k lines (the docstring literal from n0 to n0+k, the object's own line
   from ln to ln+k, an unset line stays unset) adds exactly k to the reported line, for every section and
   offset; the only reports that do not move are those that have no line base at all ('???', or the bare
   offset for a module). *)
Theorem C16_shift_invariance :
  forall (section : text) (doc : option (Z * text)) (ln off : Z) (is_module : bool) (k : Z),
    0 <= k -> 0 <= ln -> (forall n0 s, doc = Some (n0, s) -> 1 <= n0) ->
    report_line section (ds_line doc k) (shift_base k ln) off is_module =
      if base_of section (ds_line doc 0) ln =? 0 then report_line section (ds_line doc 0) ln off is_module
      else shift_val k (report_line section (ds_line doc 0) ln off is_module).
Proof. exact shift_invariance. Qed.

Theorem C16_unknown_only_without_base :
  forall section ds ln off m, report_line section ds ln off m = Unknown -> base_of section ds ln = 0.
Proof. exact report_line_unknown. Qed.

Example C16_shift_example :
  let doc := Some (12, [10; 32;32; 10; 32;32;116]%N) in
  report_line sec_xref (ds_line doc 0) 11 3 false = Num 17 /\
  report_line sec_xref (ds_line doc 5) (shift_base 5 11) 3 false = Num 22 /\
  report_line sec_xref (ds_line None 5) (shift_base 5 0) 3 false = Unknown.
Proof. vm_compute. repeat split. Qed.

(* ---- which base, which offset ---------------------------------------------------------------------
   parse errors: docstring_lineno + (zero-based line stored in the ParseError), the +1 of linenum() and
   the -1 of reportErrors cancel (unknown line: the docstring line itself); fields: docstring_lineno +
   field.lineno (Field.report and the attribute line of extract_fields); cross-references:
   docstring_lineno + lineno; any other section: the object's own line + offset. *)
Theorem C16_offset_bases :
  forall (ds ln off : Z) (m : bool),
    ds <> 0 ->
    (forall d z, 0 <= z ->
       report_line sec_docstring ds ln (perr_offset {| pe_descr := d; pe_stored := Some z |}) m = Num (ds + z)) /\
    (forall d, report_line sec_docstring ds ln (perr_offset {| pe_descr := d; pe_stored := None |}) m = Num ds) /\
    report_line sec_docstring ds ln off m = Num (ds + off) /\
    field_attr_lineno ds off = ds + off /\
    report_line sec_xref ds ln off m = Num (ds + off) /\
    (forall section, uses_docstring_base section = false -> ln <> 0 ->
       report_line section ds ln off m = Num (ln + off)).
Proof. exact offset_bases. Qed.

(* Who stores what in a ParseError.  epytext passes Token.startline (0-based): the report names
   docstring_lineno + startline.  The reST reader (since the `fix:` commit 105813f) converts docutils' 1-based
   line L, so a reST / google / numpy markup error whose block docutils places on line L of the cleaned
   docstring is reported on physical line docstring_lineno + L - 1: the conversions cancel there too. *)
Theorem C16_offset_bases_epytext :
  forall ds ln m d startline, ds <> 0 -> 0 <= startline ->
    report_line sec_docstring ds ln (perr_offset (epytext_perr d startline)) m = Num (ds + startline).
Proof. exact epytext_parse_error_line. Qed.

Theorem C16_offset_bases_rst :
  forall ds ln m d L, ds <> 0 -> 1 <= L ->
    report_line sec_docstring ds ln (perr_offset (rst_reader_perr d (Some L))) m = Num (ds + (L - 1)).
Proof. exact rst_parse_error_line. Qed.

Theorem C16_offset_bases_rst_unknown_line :
  forall ds ln m d, ds <> 0 ->
    report_line sec_docstring ds ln (perr_offset (rst_reader_perr d None)) m = Num ds.
Proof. exact rst_parse_error_unknown_line. Qed.

(* The reader of the pinned commit (before 105813f) stored the 1-based line unchanged: every reST markup error
   was reported one line too low; a one-line docstring "Bad **unclosed text." opening on line 2 was reported on
   line 3, outside the docstring.  (known_findings/C16.json, "fixed") *)
Theorem C16_offset_bases_rst_old_refuted :
  ~ (forall ds ln m d L, ds <> 0 -> 1 <= L ->
       report_line sec_docstring ds ln (perr_offset (rst_reader_perr_old d (Some L))) m = Num (ds + (L - 1))).
Proof. exact rst_parse_error_line_old_refuted. Qed.

Theorem C16_rst_parse_error_old_one_too_large :
  forall ds ln m d L, ds <> 0 -> 1 <= L ->
    report_line sec_docstring ds ln (perr_offset (rst_reader_perr_old d (Some L))) m = Num (ds + (L - 1) + 1).
Proof. exact rst_parse_error_old_one_too_large. Qed.

(* Still open: the "Unable to split consolidated field" error of _SplitFieldsTranslator.visit_field stores
   node.line (1-based) unchanged -- a doctest of pydoctor pins the resulting number -- so exactly that message
   is reported on the line after the field.  (known_findings/C16.json: C16-rst-consolidated-field-line-one-based) *)
Theorem C16_offset_bases_rst_consolidated_refuted :
  ~ (forall ds ln m d L, ds <> 0 -> 1 <= L ->
       report_line sec_docstring ds ln (perr_offset (rst_consolidated_perr d L)) m = Num (ds + (L - 1))).
Proof. exact rst_consolidated_line_refuted. Qed.

Theorem C16_rst_consolidated_one_too_large :
  forall ds ln m d L, ds <> 0 -> 1 <= L ->
    report_line sec_docstring ds ln (perr_offset (rst_consolidated_perr d L)) m = Num (ds + (L - 1) + 1).
Proof. exact rst_consolidated_one_too_large. Qed.

(* ... and that is the line in the message that reaches stdout at any verbosity -1..100 *)
Theorem C16_reports_print_that_line :
  forall v st o m l, -1 <= v <= 100 -> o_docstring_lineno o <> 0 ->
    printed (field_report v st o m l) =
      printed st ++ [report_text (o_description o) (Num (o_docstring_lineno o + l)) m] /\
    printed (xref_report v st o m l) =
      printed st ++ [report_text (o_description o) (Num (o_docstring_lineno o + l)) m] /\
    (forall pe d z, 0 <= z -> existsb (text_eqb (o_fullname o)) (pe_lookup sec_docstring pe) = false ->
       printed (fst (report_errors v st pe o [{| pe_descr := d; pe_stored := Some z |}] sec_docstring)) =
         printed st ++ [report_text (o_description o) (Num (o_docstring_lineno o + z))
                                    (bad_prefix sec_docstring ++ d)]).
Proof. exact reports_print. Qed.

(* the file named by a report is the object's own source path, whatever module it currently belongs to *)
Theorem C16_description_is_own_file :
  forall (p module_fullname : text), description (Some p) module_fullname = p.
Proof. reflexivity. Qed.

(* A markup error in an INHERITED docstring is reported against the object that defines the docstring (its
   file, its docstring line + the error's line), and only once however many overrides inherit it. *)
Theorem C16_inherited_docstring_reported_at_source :
  forall v st pe o1 o2 source d z,
    -1 <= v <= 100 -> o_docstring_lineno source <> 0 -> 0 <= z ->
    existsb (text_eqb (o_fullname source)) (pe_lookup sec_docstring pe) = false ->
    let r1 := parse_docstring_report v st pe o1 source [{| pe_descr := d; pe_stored := Some z |}] sec_docstring in
    let r2 := parse_docstring_report v (fst r1) (snd r1) o2 source [{| pe_descr := d; pe_stored := Some z |}] sec_docstring in
    printed (fst r1) = printed st ++ [report_text (o_description source) (Num (o_docstring_lineno source + z))
                                                 (bad_prefix sec_docstring ++ d)] /\
    r2 = r1.
Proof. exact inherited_reported_at_source. Qed.

Example C16_offset_example :
  report_text [109]%N (report_line sec_docstring 7 3 (perr_offset {| pe_descr := []; pe_stored := Some 2 |}) false) [120]%N
  = [109; 58; 57; 58; 32; 120]%N.     (* "m:9: x" *)
Proof. vm_compute. reflexivity. Qed.

(* ---- counting ---------------------------------------------------------------------------------------
   From a system that has printed nothing once-only yet, the violations counter grows by exactly the number
   of msg() calls with a negative threshold that are not suppressed by `once` -- whatever the verbosity. *)
Theorem C16_every_problem_counted :
  forall (v : Z) (cs : list call) (st : sys_state),
    once_msgs st = [] ->
    violations (msgs v st cs) = (violations st + N.of_nat (length (problems cs)))%N.
Proof. exact every_problem_counted. Qed.

Theorem C16_counting_ignores_verbosity :
  forall v1 v2 cs st, once_msgs st = [] -> violations (msgs v1 st cs) = violations (msgs v2 st cs).
Proof. exact counting_ignores_verbosity. Qed.

(* what is printed are exactly the visible non-suppressed messages, so every problem line on stdout was counted *)
Theorem C16_printed_problems_counted :
  forall v cs st, once_msgs st = [] ->
    printed (msgs v st cs) = printed st ++ map c_msg (filter (visible v) (effective [] cs)) /\
    (N.of_nat (length (filter is_problem (filter (visible v) (effective [] cs))))
       <= violations (msgs v st cs) - violations st)%N.
Proof. intros v cs st H. split; [exact (printed_are_effective v cs st H)|exact (printed_problems_counted v cs st H)]. Qed.

(* Documentable.report never passes once=True: each report with thresh < 0 counts, printed or not *)
Theorem C16_report_counts :
  forall v st o descr section off thresh,
    violations (report v st o descr section off thresh) = (violations st + (if (thresh <? 0)%Z then 1 else 0))%N.
Proof. exact report_counts. Qed.

Example C16_once_example :
  let c := {| c_section := [101]%N; c_msg := [109]%N; c_thresh := -1; c_topthresh := 100; c_once := true |} in
  let d := {| c_section := [101]%N; c_msg := [109]%N; c_thresh := -1; c_topthresh := 100; c_once := false |} in
  violations (msgs (-2) init_state [c; c; d; c]) = 2%N /\ length (problems [c; c; d; c]) = 2%nat /\
  printed (msgs (-2) init_state [c; c; d; c]) = [] /\ length (printed (msgs 0 init_state [c; c; d; c])) = 2%nat.
Proof. vm_compute. repeat split. Qed.

(* ---- exit status -------------------------------------------------------------------------------------
   `counted_inv st pe`: if some parse error is recorded, at least one problem has been counted.  It holds
   initially and reportErrors / Field.report / the linker's report keep it (C16_counted_inv_kept).
   Under it the status main() returns is the rule of the property text, in terms of the problems counted
   BEFORE main() prints its own docstring-summary lines (which are counted too). *)
Theorem C16_exit_status :
  forall v wae h st pe, counted_inv st pe ->
    fst (main_tail v wae h st pe) = exit_status_spec wae (violations st) (some_parse_error pe).
Proof. exact exit_iff. Qed.

Theorem C16_exit_iff :
  forall v wae h st pe, counted_inv st pe ->
    (wae = true -> (fst (main_tail v wae h st pe) = 3 <-> (1 <= violations st)%N)) /\
    (wae = false -> (fst (main_tail v wae h st pe) = 2 <-> some_parse_error pe = true) /\
                    (fst (main_tail v wae h st pe) = 0 <-> some_parse_error pe = false)).
Proof. exact exit_iff_cases. Qed.

Theorem C16_counted_inv_kept :
  forall v o ps, counted_inv (fst (run_problems v o ps)) (snd (run_problems v o ps)).
Proof. exact run_problems_inv. Qed.

(* one planted problem: counted once; with -W status 3, without 2 iff it is a parse error, else 0 *)
Theorem C16_one_problem_status :
  forall v wae h o p,
    violations (fst (run_problems v o [p])) = 1%N /\
    fst (one_run v wae h o [p]) = if wae then 3 else match p with PParse _ _ => 2 | _ => 0 end.
Proof. exact one_problem_status. Qed.

Example C16_exit_example :
  counted_inv init_state [] /\
  fst (main_tail 0 true [] init_state []) = 0 /\
  fst (main_tail 0 false [] {| once_msgs := []; violations := 1; printed := [] |} [(sec_docstring, [[97]%N])]) = 2 /\
  fst (main_tail 0 true [] {| once_msgs := []; violations := 1; printed := [] |} []) = 3.
Proof. split; [intros H; discriminate|]. vm_compute. repeat split. Qed.

(* ---- field lines, cross-reference lines, and the envelope --------------------------------------------------
   reST / google / numpy fields: the splitter stores (docutils' 1-based line of the field marker, list item or
   term) - 1, so -- CONTRACT on docutils: node.line is that 1-based line -- a field problem is reported on
   docstring_lineno + (L - 1), the physical line of the marker; the attribute documented by the field gets the
   same line.  epytext fields: the bullet token's startline. *)
Theorem C16_rst_field_line :
  forall ds ln m L, ds <> 0 ->
    report_line sec_docstring ds ln (rst_field_lineno L) m = Num (ds + (L - 1)) /\
    field_attr_lineno ds (rst_field_lineno L) = ds + (L - 1).
Proof. exact rst_field_line. Qed.

Theorem C16_epytext_field_line :
  forall ds ln m z, ds <> 0 -> report_line sec_docstring ds ln (epytext_field_lineno z) m = Num (ds + Z.of_nat z).
Proof. exact epytext_field_line. Qed.

(* cross-references, get_lineno: docutils nodes (the reference has no line, its block is on 1-based line pl, the
   reference nl newlines into it) and epytext nodes (to_node puts the 0-based startline on the reference) *)
Theorem C16_get_lineno_rst :
  forall ds ln m pl nl, ds <> 0 ->
    report_line sec_xref ds ln (get_lineno 0 (Some (pl, nl))) m = Num (ds + (pl - 1) + nl).
Proof. exact get_lineno_rst. Qed.

Theorem C16_get_lineno_epytext :
  forall ds ln m z, ds <> 0 -> 0 <= z -> report_line sec_xref ds ln (get_lineno z None) m = Num (ds + z).
Proof. exact get_lineno_epytext. Qed.

(* get_lineno's first branch (`if node.line: line = node.line`) returns the node's own line unchanged: it is right only
   for 0-based lines.  If a docutils-parsed reference ever carried its own (1-based) line the report would be one too
   low.  Guard used above: node.line is None for references parsed by docutils -- observed on every end-to-end run
   (harness: xref_own_line), not proved. *)
Theorem C16_get_lineno_own_line_refuted :
  ~ (forall ds ln m L anc, ds <> 0 -> 1 <= L ->
       report_line sec_xref ds ln (get_lineno L anc) m = Num (ds + (L - 1))).
Proof. exact get_lineno_own_line_refuted. Qed.

(* The envelope ("some line of that docstring", all the property asks of google / numpy): whatever parser produced the
   line, if it lies inside the cleaned docstring (0 <= off < number of its lines -- the CONTRACT on napoleon/docutils),
   every report path prints a line inside the string literal; without the whitespace guard it can exceed the last line by
   at most the overshoot. *)
Theorem C16_report_inside_docstring :
  forall (s : text) (n0 ln off : Z) (m : bool) (d : text),
    1 <= n0 -> has_content s = true -> leading_ws_fit s = true ->
    0 <= off < Z.of_nat (length (cleandoc_lines s)) ->
    let ds := linenum_of_docstring false n0 s in
    let inside v := exists z, v = Num z /\ n0 <= z <= n0 + Z.of_nat (length (split_nl s)) - 1 in
    inside (report_line sec_docstring ds ln (perr_offset {| pe_descr := d; pe_stored := Some off |}) m) /\
    inside (report_line sec_docstring ds ln off m) /\
    inside (report_line sec_xref ds ln off m).
Proof. exact every_path_inside_docstring. Qed.

Theorem C16_report_inside_docstring_general :
  forall (s : text) (n0 off : Z),
    has_content s = true -> 0 <= off < Z.of_nat (length (cleandoc_lines s)) ->
    n0 <= linenum_of_docstring false n0 s + off <=
      n0 + Z.of_nat (length (split_nl s)) - 1 + Z.of_nat (top_dropped s - top_kept s).
Proof. exact report_inside_docstring_general. Qed.

(* A problem inside a field body that documents an attribute (@ivar x: see L{nosuch}) is reported relative to the class
   docstring -- as long as the attribute has no docstring of its own.  If it has one, ensure_parsed_docstring takes the
   attribute as the source of the (field) text: the field's line inside the CLASS docstring is added to the line of the
   attribute's OWN docstring, a line that is in neither docstring (class docstring content from line 19, field on its
   line 4, own docstring on line 28: reported 32 instead of 23).  (known_findings/C16.json: C16-field-and-own-docstring) *)
Theorem C16_split_field_xref_line_partial :
  forall cds ln m z, cds <> 0 -> report_line sec_xref (split_field_source_lineno 0 cds) ln z m = Num (cds + z).
Proof. exact split_field_xref_line. Qed.

Theorem C16_split_field_xref_line_refuted :
  ~ (forall own cds ln m z, cds <> 0 -> 0 <= own ->
       report_line sec_xref (split_field_source_lineno own cds) ln z m = Num (cds + z)).
Proof. exact split_field_xref_line_refuted. Qed.

(* ---- once / topthresh as a refinement --------------------------------------------------------------------
   A call suppressed by `once` repeats an earlier once-only call with the same (section, message) that was itself
   handled (not suppressed). *)
Theorem C16_once_suppressed_repeats_handled :
  forall pre c, suppressed pre c = true ->
    exists pre1 c0 pre2, pre = pre1 ++ c0 :: pre2 /\ c_once c0 = true /\
      key_eqb (call_key c) (call_key c0) = true /\ suppressed pre1 c0 = false.
Proof. exact suppressed_has_first. Qed.

(* "a problem suppressed by once was already counted once" -- false in general: the earlier once-only message with the
   same (section, message) may have had a non-negative threshold ... *)
Theorem C16_once_suppressed_uncounted_refuted :
  ~ (forall v pre c, suppressed pre c = true -> is_problem c = true -> (1 <= violations (msgs v init_state pre))%N).
Proof. exact once_suppressed_uncounted_refuted. Qed.

(* ... and true under the guard that once-only messages with the same (section, message) agree on being problems (in
   pydoctor every once=True call site has its own section string and a fixed threshold: checked from the source on every
   run, harness op `oncesites`) *)
Theorem C16_once_suppressed_already_counted :
  forall v pre c,
    (forall d, In d pre -> c_once d = true -> key_eqb (call_key c) (call_key d) = true -> is_problem d = is_problem c) ->
    suppressed pre c = true -> is_problem c = true ->
    (1 <= violations (msgs v init_state pre))%N.
Proof. exact once_suppressed_already_counted. Qed.

(* the refinement: per (section, message) pair, the problems counted are the plain (not once-only) problem calls plus one
   if there is a once-only problem call -- the abstract multiset System.violations implements *)
Theorem C16_once_refinement :
  forall k cs, once_consistent cs -> count_key k (problems cs) = abstract_count k cs.
Proof. exact once_refinement. Qed.

Theorem C16_counting_ignores_topthresh :
  forall f v cs st, once_msgs st = [] ->
    violations (msgs v st (map (with_topthresh f) cs)) = violations (msgs v st cs).
Proof. exact counting_ignores_topthresh. Qed.

Example C16_once_refinement_example :
  let c t o := {| c_section := [101]%N; c_msg := [109]%N; c_thresh := t; c_topthresh := 100; c_once := o |} in
  let cs := [c (-1) true; c (-1) false; c (-1) true; c (-1) false; c 0 false] in
  abstract_count ([101]%N, [109]%N) cs = 3%nat /\ violations (msgs 0 init_state cs) = 3%N.
Proof. vm_compute. split; reflexivity. Qed.

(* ---- epytext: Token.startline ---------------------------------------------------------------------------
   For every list of lines (each seen through the single-line tests the tokenizer applies: Model/EpyLines.v) the
   tokenizer terminates within its fuel and the blocks it produces are in order, separated only by blank lines,
   non-empty, and -- except literal blocks, which begin where their `::` paragraph ended -- begin on a non-blank
   line (Spec/EpyBlocks.v).  Every Token gets the `startline` of its block. *)
Theorem C16_epytext_block_line :
  forall lines : list EpyLines.eline,
    exists bs es, EpyLines.tokenize lines = Some (bs, es) /\ EpyBlocks.blocks_ok lines 0 bs.
Proof. exact EpyProofs.tokenize_ok. Qed.

Theorem C16_epytext_token_startline :
  forall bs t z, In (t, z) (EpyLines.tokens_of bs) ->
    exists b, In b bs /\ z = EpyLines.b_start b /\ In t (EpyLines.b_tags b).
Proof. exact EpyProofs.tokens_of_start. Qed.

(* every non-blank line belongs to a block, and to one only: "the block containing the problem" is well defined *)
Theorem C16_epytext_blocks_cover :
  forall lines bs, EpyBlocks.blocks_ok lines 0 bs ->
    forall j l, nth_error lines j = Some l -> EpyLines.blank l = false ->
      exists b, In b bs /\ (EpyLines.b_start b <= j < EpyLines.b_stop b)%nat.
Proof. intros lines bs H j l Hn Hb. exact (EpyProofs.blocks_cover lines bs 0 H j l (Nat.le_0_l j) Hn Hb). Qed.

Theorem C16_epytext_blocks_disjoint :
  forall lines bs, EpyBlocks.blocks_ok lines 0 bs ->
    forall i1 i2 b1 b2 j, nth_error bs i1 = Some b1 -> nth_error bs i2 = Some b2 ->
      (EpyLines.b_start b1 <= j < EpyLines.b_stop b1)%nat -> (EpyLines.b_start b2 <= j < EpyLines.b_stop b2)%nat -> i1 = i2.
Proof. intros lines bs H. exact (EpyProofs.blocks_disjoint lines bs 0 H). Qed.

(* The tokenizer's own warnings ("Possible mal-formatted field item.", "Improper doctest block indentation.", "Possible
   heading typo") carry the line they are about, not a token's startline: that line is a non-blank line, so it lies inside
   exactly one block -- a line of the paragraph / doctest block containing the problem (its first line only for the heading
   typo). *)
Theorem C16_epytext_error_lines_in_blocks :
  forall lines bs es k z, EpyLines.tokenize lines = Some (bs, es) -> In (k, z) es ->
    exists b, In b bs /\ (EpyLines.b_start b <= z < EpyLines.b_stop b)%nat.
Proof. exact EpyProofs.tokenize_errors_in_blocks. Qed.

(* ... hence, with C16_cleandoc_alignment and C16_offset_bases_epytext: an error or field warning that epytext
   attaches to a token of a paragraph / list item / field / heading / doctest block of an aligned docstring is
   reported on the physical line of the first line of that block. *)
Theorem C16_epytext_report_first_line :
  forall (s : text) (n0 ln : Z) (m : bool) (d : text) (lines : list EpyLines.eline) bs es b,
    1 <= n0 -> has_content s = true -> leading_ws_fit s = true ->
    length lines = length (cleandoc_lines s) ->
    EpyLines.tokenize lines = Some (bs, es) -> In b bs -> EpyBlocks.is_lblock b = false ->
    exists j : nat,
      report_line sec_docstring (linenum_of_docstring false n0 s) ln
                  (perr_offset (epytext_perr d (Z.of_nat (EpyLines.b_start b)))) m = Num (phys_line n0 j) /\
      nth_error (cleandoc_lines s) (EpyLines.b_start b) = clean_line_of_value_line s j /\
      (exists l, nth_error lines (EpyLines.b_start b) = Some l /\ EpyLines.blank l = false).
Proof. exact EpyProofs.epytext_report_first_line. Qed.

(* non-vacuity: "Para\n\n  - item\n    more\n@param a: b" seen through the oracle: a paragraph on line 0, a list item
   (bullet + paragraph) on line 2, a field on line 4 *)
Example C16_epytext_example :
  let mk len ind bul := {| EpyLines.l_len := len; EpyLines.l_indent := ind; EpyLines.l_bullet := bul;
                           EpyLines.l_doctest := false; EpyLines.l_dcolon := false; EpyLines.l_at := false;
                           EpyLines.l_striplen := len - ind; EpyLines.l_underline := false;
                           EpyLines.l_rest := bul; EpyLines.l_rest_dcolon := false |} in
  option_map (fun r => EpyLines.tokens_of (fst r))
             (EpyLines.tokenize [mk 4 0 false; mk 0 0 false; mk 8 2 true; mk 8 4 false; mk 11 0 true]%nat)
  = Some [(EpyLines.PARA, 0); (EpyLines.BULLET, 2); (EpyLines.PARA, 2); (EpyLines.BULLET, 4); (EpyLines.PARA, 4)]%nat.
Proof. vm_compute. reflexivity. Qed.

(* ---- the tie to the source: translated code = model --------------------------------------------------------------
   Gen/LinesCode.v is written on every run by harness/gen/gen_c16_code.py from the CURRENT source of
   Documentable.report, docutils.get_lineno and epydoc2stan.reportErrors (statement by statement, fail-closed).  For ALL
   inputs, interpreting that code (Model/LinesIR.v) is the hand-written model the theorems above are about: an edit of
   those functions that changes their meaning breaks one of these obligations; a rewrite that keeps it (renamed locals,
   conditional expression instead of if/else, `+=` vs `+`, a loop instead of the recursive helper, find/!= -1 instead of
   in/index) still translates and still proves. *)
Theorem C16_code_report_is_model :
  forall (o : obj) (descr section : text) (off thresh : Z),
    effects_of (report_ir code_report o descr section off thresh) = Some [FxMsg (report_call o descr section off thresh)].
Proof. exact code_report_is_model. Qed.

(* ... so the line the real code prints is the line C16_shift_invariance / C16_offset_bases are about *)
Theorem C16_code_report_line :
  forall (o : obj) (descr section : text) (off thresh : Z),
    exists c, effects_of (report_ir code_report o descr section off thresh) = Some [FxMsg c] /\
      c_section c = section /\ c_thresh c = thresh /\ c_once c = false /\
      c_msg c = report_text (o_description o)
                  (report_line section (o_docstring_lineno o) (o_linenumber o) off (o_is_module o)) descr.
Proof.
  intros o descr section off thresh. exists (report_call o descr section off thresh).
  split; [exact (code_report_is_model o descr section off thresh)|]. repeat split.
Qed.

Theorem C16_code_get_lineno_is_model :
  forall (node : dnode) (ancs : list dnode),
    returned (get_lineno_ir code_get_lineno node ancs) = Some (VInt (get_lineno_chain node ancs)).
Proof. exact code_get_lineno_is_model. Qed.

Theorem C16_code_report_errors_is_model :
  forall (o : obj) (errs : list perr) (section : text) (pe : parse_errors),
    effects_of (report_errors_ir code_report_errors o errs section pe) = Some (report_errors_fx o errs section pe).
Proof. exact code_report_errors_is_model. Qed.

Theorem C16_code_report_errors_effects_are_model :
  forall v st pe o errs section,
    fold_left (apply_fx v) (report_errors_fx o errs section pe) (st, pe) = report_errors v st pe o errs section.
Proof. exact report_errors_fx_model. Qed.
