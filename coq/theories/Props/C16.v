(* Props/C16.v -- C16: warnings point at the right place and every reported problem is counted.
   Only statements closed by `exact`; proofs live in Proofs/LinesProofs.v.
   Models : Model/Lines.v (astutils.extract_docstring_linenum / extract_docstring, Documentable.setDocstring /
            report, ParseError.linenum, reportErrors, Field.report, extract_fields, the linker's report),
            Model/Msg.v (System.msg, the exit-status tail of driver.main).
   Specs  : Spec/CleanDoc.v (inspect.cleandoc and the str methods it uses, validated against CPython on
            every run), Spec/Reporting.v (which msg() calls are problems, the exit rule, shifting).
   Not proved here (observed end-to-end by the correspondence check and the oracle only): the line a
   parser attributes to a paragraph / list item / field inside the cleaned docstring (epytext
   Token.startline, docutils node.line, napoleon) -- DESIGN's C16_epytext_block_line is NOT part of
   this file. *)
From Coq Require Import ZArith NArith List Bool.
From PydoctorVerif Require Import Base.Sexp Spec.CleanDoc Spec.Reporting Model.Msg Model.Lines Proofs.LinesProofs.
Import ListNotations.
Local Open Scope Z_scope.

(* ---- docstring start line ----------------------------------------------------------------------------
   For a docstring with text whose leading whitespace-only lines are all no longer than the margin
   cleandoc computes: line i of cleandoc(s) is what cleandoc makes (expandtabs, margin removed / lstrip) of
   the line of the literal's value that sits on physical line  docstring_lineno + i , where
   docstring_lineno = extract_docstring_linenum(node)  (CPython >= 3.8: node.lineno is the opening line). *)
Theorem C16_cleandoc_alignment :
  forall (s : text) (n0 : Z) (i : nat),
    has_content s = true -> leading_ws_fit s = true ->
    (i < length (cleandoc_lines s))%nat ->
    exists j : nat,
      linenum_of_docstring false n0 s + Z.of_nat i = phys_line n0 j /\
      nth_error (cleandoc_lines s) i = clean_line_of_value_line s j.
Proof. exact cleandoc_alignment. Qed.

(* Without the guard the statement is false of the faithful model: "\n      \n  text".  The whitespace-only
   second line is longer than the margin (2), survives cleandoc as "    " and becomes line 0 of the cleaned
   docstring, while the character loop counted it as dropped: every line reported in such a docstring is
   one too large.  (known_findings/C16.json: C16-ws-line-longer-than-margin) *)
Theorem C16_cleandoc_alignment_refuted :
  ~ (forall (s : text) (n0 : Z) (i : nat),
       has_content s = true -> (i < length (cleandoc_lines s))%nat ->
       exists j : nat,
         linenum_of_docstring false n0 s + Z.of_nat i = phys_line n0 j /\
         nth_error (cleandoc_lines s) i = clean_line_of_value_line s j).
Proof. exact alignment_refuted. Qed.

Theorem C16_cleandoc_alignment_refuted_by_one :
  leading_ws_fit w_doc = false /\
  linenum_of_docstring false 0 w_doc = 2 /\
  nth_error (cleandoc_lines w_doc) 0 = clean_line_of_value_line w_doc 1 /\
  nth_error (cleandoc_lines w_doc) 1 = clean_line_of_value_line w_doc 2.
Proof. exact alignment_refuted_by_one. Qed.

(* In general (any docstring with text): the docstring line is never too small, and it overshoots by exactly
   top_dropped - top_kept = (leading whitespace-only lines of the literal) - (lines cleandoc removes at the top);
   under the guard the two are equal. *)
Theorem C16_cleandoc_overshoot :
  forall (s : text) (n0 : Z) (i : nat),
    has_content s = true -> (i < length (cleandoc_lines s))%nat ->
    exists j : nat,
      (top_kept s <= top_dropped s)%nat /\
      linenum_of_docstring false n0 s + Z.of_nat i = phys_line n0 j + Z.of_nat (top_dropped s - top_kept s) /\
      nth_error (cleandoc_lines s) i = clean_line_of_value_line s j.
Proof. exact cleandoc_overshoot. Qed.

Theorem C16_fit_no_overshoot :
  forall s, has_content s = true -> leading_ws_fit s = true -> top_kept s = top_dropped s.
Proof. exact fit_no_overshoot. Qed.

(* non-vacuity of the guard: "\n  \n    \n    text\n      more\n" (two leading whitespace-only lines, the
   second exactly as long as the margin) satisfies it, and its cleaned line 1 is value line 4 *)
Example C16_alignment_hypotheses_satisfiable :
  let s := [10; 32;32; 10; 32;32;32;32; 10; 32;32;32;32;116;101;120;116; 10;
            32;32;32;32;32;32;109;111;114;101; 10]%N in
  has_content s = true /\ leading_ws_fit s = true /\ length (cleandoc_lines s) = 2%nat /\
  linenum_of_docstring false 7 s = 10 /\
  nth_error (cleandoc_lines s) 1 = Some [32;32;109;111;114;101]%N /\
  clean_line_of_value_line s 4 = Some [32;32;109;111;114;101]%N.
Proof. vm_compute. repeat split. Qed.

(* The docstring line itself never lies before the literal and moves with it. *)
Theorem C16_docstring_line_shift :
  forall (e : bool) (n k : Z) (s : text),
    linenum_of_docstring e (n + k) s = linenum_of_docstring e n s + k /\ n <= linenum_of_docstring false n s.
Proof. intros e n k s. split; [exact (linenum_shift e n k s)|exact (linenum_ge n s)]. Qed.

(* ---- shift invariance ------------------------------------------------------------------------------
   Moving the definition down by k lines (the docstring literal from n0 to n0+k, the object's own line
   from ln to ln+k, an unset line stays unset) adds exactly k to the reported line, for every section and
   offset; the only reports that do not move are those that have no line base at all ('???', or the bare
   offset for a module). *)
Theorem C16_shift_invariance :
  forall (section : text) (doc : option (Z * text)) (ln off : Z) (is_module : bool) (k : Z),
    0 <= k -> 0 <= ln -> (forall n0 s, doc = Some (n0, s) -> 1 <= n0) ->
    report_line section (ds_line doc k) (shift_base k ln) off is_module =
      if base_of section (ds_line doc 0) ln =? 0 then report_line section (ds_line doc 0) ln off is_module
      else shift_val k (report_line section (ds_line doc 0) ln off is_module).
Proof. exact shift_invariance. Qed.

Theorem C16_unknown_only_without_base :
  forall section ds ln off m, report_line section ds ln off m = Unknown -> base_of section ds ln = 0.
Proof. exact report_line_unknown. Qed.

Example C16_shift_example :
  let doc := Some (12, [10; 32;32; 10; 32;32;116]%N) in
  report_line sec_xref (ds_line doc 0) 11 3 false = Num 17 /\
  report_line sec_xref (ds_line doc 5) (shift_base 5 11) 3 false = Num 22 /\
  report_line sec_xref (ds_line None 5) (shift_base 5 0) 3 false = Unknown.
Proof. vm_compute. repeat split. Qed.

(* ---- which base, which offset ---------------------------------------------------------------------
   parse errors: docstring_lineno + (zero-based line stored in the ParseError), the +1 of linenum() and
   the -1 of reportErrors cancel (unknown line: the docstring line itself); fields: docstring_lineno +
   field.lineno (Field.report and the attribute line of extract_fields); cross-references:
   docstring_lineno + lineno; any other section: the object's own line + offset. *)
Theorem C16_offset_bases :
  forall (ds ln off : Z) (m : bool),
    ds <> 0 ->
    (forall d z, 0 <= z ->
       report_line sec_docstring ds ln (perr_offset {| pe_descr := d; pe_stored := Some z |}) m = Num (ds + z)) /\
    (forall d, report_line sec_docstring ds ln (perr_offset {| pe_descr := d; pe_stored := None |}) m = Num ds) /\
    report_line sec_docstring ds ln off m = Num (ds + off) /\
    field_attr_lineno ds off = ds + off /\
    report_line sec_xref ds ln off m = Num (ds + off) /\
    (forall section, uses_docstring_base section = false -> ln <> 0 ->
       report_line section ds ln off m = Num (ln + off)).
Proof. exact offset_bases. Qed.

(* Who stores what in a ParseError.  epytext passes Token.startline (0-based): the report names
   docstring_lineno + startline.  The reST reader (since the `fix:` commit 105813f) converts docutils' 1-based
   line L, so a reST / google / numpy markup error whose block docutils places on line L of the cleaned
   docstring is reported on physical line docstring_lineno + L - 1: the conversions cancel there too. *)
Theorem C16_offset_bases_epytext :
  forall ds ln m d startline, ds <> 0 -> 0 <= startline ->
    report_line sec_docstring ds ln (perr_offset (epytext_perr d startline)) m = Num (ds + startline).
Proof. exact epytext_parse_error_line. Qed.

Theorem C16_offset_bases_rst :
  forall ds ln m d L, ds <> 0 -> 1 <= L ->
    report_line sec_docstring ds ln (perr_offset (rst_reader_perr d (Some L))) m = Num (ds + (L - 1)).
Proof. exact rst_parse_error_line. Qed.

Theorem C16_offset_bases_rst_unknown_line :
  forall ds ln m d, ds <> 0 ->
    report_line sec_docstring ds ln (perr_offset (rst_reader_perr d None)) m = Num ds.
Proof. exact rst_parse_error_unknown_line. Qed.

(* The reader of the pinned commit (before 105813f) stored the 1-based line unchanged: every reST markup error
   was reported one line too low; a one-line docstring "Bad **unclosed text." opening on line 2 was reported on
   line 3, outside the docstring.  (known_findings/C16.json, "fixed") *)
Theorem C16_offset_bases_rst_old_refuted :
  ~ (forall ds ln m d L, ds <> 0 -> 1 <= L ->
       report_line sec_docstring ds ln (perr_offset (rst_reader_perr_old d (Some L))) m = Num (ds + (L - 1))).
Proof. exact rst_parse_error_line_old_refuted. Qed.

Theorem C16_rst_parse_error_old_one_too_large :
  forall ds ln m d L, ds <> 0 -> 1 <= L ->
    report_line sec_docstring ds ln (perr_offset (rst_reader_perr_old d (Some L))) m = Num (ds + (L - 1) + 1).
Proof. exact rst_parse_error_old_one_too_large. Qed.

(* Still open: the "Unable to split consolidated field" error of _SplitFieldsTranslator.visit_field stores
   node.line (1-based) unchanged -- a doctest of pydoctor pins the resulting number -- so exactly that message
   is reported on the line after the field.  (known_findings/C16.json: C16-rst-consolidated-field-line-one-based) *)
Theorem C16_offset_bases_rst_consolidated_refuted :
  ~ (forall ds ln m d L, ds <> 0 -> 1 <= L ->
       report_line sec_docstring ds ln (perr_offset (rst_consolidated_perr d L)) m = Num (ds + (L - 1))).
Proof. exact rst_consolidated_line_refuted. Qed.

Theorem C16_rst_consolidated_one_too_large :
  forall ds ln m d L, ds <> 0 -> 1 <= L ->
    report_line sec_docstring ds ln (perr_offset (rst_consolidated_perr d L)) m = Num (ds + (L - 1) + 1).
Proof. exact rst_consolidated_one_too_large. Qed.

(* ... and that is the line in the message that reaches stdout at any verbosity -1..100 *)
Theorem C16_reports_print_that_line :
  forall v st o m l, -1 <= v <= 100 -> o_docstring_lineno o <> 0 ->
    printed (field_report v st o m l) =
      printed st ++ [report_text (o_description o) (Num (o_docstring_lineno o + l)) m] /\
    printed (xref_report v st o m l) =
      printed st ++ [report_text (o_description o) (Num (o_docstring_lineno o + l)) m] /\
    (forall pe d z, 0 <= z -> existsb (text_eqb (o_fullname o)) (pe_lookup sec_docstring pe) = false ->
       printed (fst (report_errors v st pe o [{| pe_descr := d; pe_stored := Some z |}] sec_docstring)) =
         printed st ++ [report_text (o_description o) (Num (o_docstring_lineno o + z))
                                    (bad_prefix sec_docstring ++ d)]).
Proof. exact reports_print. Qed.

(* the file named by a report is the object's own source path, whatever module it currently belongs to *)
Theorem C16_description_is_own_file :
  forall (p module_fullname : text), description (Some p) module_fullname = p.
Proof. reflexivity. Qed.

(* A markup error in an INHERITED docstring is reported against the object that defines the docstring (its
   file, its docstring line + the error's line), and only once however many overrides inherit it. *)
Theorem C16_inherited_docstring_reported_at_source :
  forall v st pe o1 o2 source d z,
    -1 <= v <= 100 -> o_docstring_lineno source <> 0 -> 0 <= z ->
    existsb (text_eqb (o_fullname source)) (pe_lookup sec_docstring pe) = false ->
    let r1 := parse_docstring_report v st pe o1 source [{| pe_descr := d; pe_stored := Some z |}] sec_docstring in
    let r2 := parse_docstring_report v (fst r1) (snd r1) o2 source [{| pe_descr := d; pe_stored := Some z |}] sec_docstring in
    printed (fst r1) = printed st ++ [report_text (o_description source) (Num (o_docstring_lineno source + z))
                                                 (bad_prefix sec_docstring ++ d)] /\
    r2 = r1.
Proof. exact inherited_reported_at_source. Qed.

Example C16_offset_example :
  report_text [109]%N (report_line sec_docstring 7 3 (perr_offset {| pe_descr := []; pe_stored := Some 2 |}) false) [120]%N
  = [109; 58; 57; 58; 32; 120]%N.     (* "m:9: x" *)
Proof. vm_compute. reflexivity. Qed.

(* ---- counting ---------------------------------------------------------------------------------------
   From a system that has printed nothing once-only yet, the violations counter grows by exactly the number
   of msg() calls with a negative threshold that are not suppressed by `once` -- whatever the verbosity. *)
Theorem C16_every_problem_counted :
  forall (v : Z) (cs : list call) (st : sys_state),
    once_msgs st = [] ->
    violations (msgs v st cs) = (violations st + N.of_nat (length (problems cs)))%N.
Proof. exact every_problem_counted. Qed.

Theorem C16_counting_ignores_verbosity :
  forall v1 v2 cs st, once_msgs st = [] -> violations (msgs v1 st cs) = violations (msgs v2 st cs).
Proof. exact counting_ignores_verbosity. Qed.

(* what is printed are exactly the visible non-suppressed messages, so every problem line on stdout was counted *)
Theorem C16_printed_problems_counted :
  forall v cs st, once_msgs st = [] ->
    printed (msgs v st cs) = printed st ++ map c_msg (filter (visible v) (effective [] cs)) /\
    (N.of_nat (length (filter is_problem (filter (visible v) (effective [] cs))))
       <= violations (msgs v st cs) - violations st)%N.
Proof. intros v cs st H. split; [exact (printed_are_effective v cs st H)|exact (printed_problems_counted v cs st H)]. Qed.

(* Documentable.report never passes once=True: each report with thresh < 0 counts, printed or not *)
Theorem C16_report_counts :
  forall v st o descr section off thresh,
    violations (report v st o descr section off thresh) = (violations st + (if (thresh <? 0)%Z then 1 else 0))%N.
Proof. exact report_counts. Qed.

Example C16_once_example :
  let c := {| c_section := [101]%N; c_msg := [109]%N; c_thresh := -1; c_topthresh := 100; c_once := true |} in
  let d := {| c_section := [101]%N; c_msg := [109]%N; c_thresh := -1; c_topthresh := 100; c_once := false |} in
  violations (msgs (-2) init_state [c; c; d; c]) = 2%N /\ length (problems [c; c; d; c]) = 2%nat /\
  printed (msgs (-2) init_state [c; c; d; c]) = [] /\ length (printed (msgs 0 init_state [c; c; d; c])) = 2%nat.
Proof. vm_compute. repeat split. Qed.

(* ---- exit status -------------------------------------------------------------------------------------
   `counted_inv st pe`: if some parse error is recorded, at least one problem has been counted.  It holds
   initially and reportErrors / Field.report / the linker's report keep it (C16_counted_inv_kept).
   Under it the status main() returns is the rule of the property text, in terms of the problems counted
   BEFORE main() prints its own docstring-summary lines (which are counted too). *)
Theorem C16_exit_status :
  forall v wae h st pe, counted_inv st pe ->
    fst (main_tail v wae h st pe) = exit_status_spec wae (violations st) (some_parse_error pe).
Proof. exact exit_iff. Qed.

Theorem C16_exit_iff :
  forall v wae h st pe, counted_inv st pe ->
    (wae = true -> (fst (main_tail v wae h st pe) = 3 <-> (1 <= violations st)%N)) /\
    (wae = false -> (fst (main_tail v wae h st pe) = 2 <-> some_parse_error pe = true) /\
                    (fst (main_tail v wae h st pe) = 0 <-> some_parse_error pe = false)).
Proof. exact exit_iff_cases. Qed.

Theorem C16_counted_inv_kept :
  forall v o ps, counted_inv (fst (run_problems v o ps)) (snd (run_problems v o ps)).
Proof. exact run_problems_inv. Qed.

(* one planted problem: counted once; with -W status 3, without 2 iff it is a parse error, else 0 *)
Theorem C16_one_problem_status :
  forall v wae h o p,
    violations (fst (run_problems v o [p])) = 1%N /\
    fst (one_run v wae h o [p]) = if wae then 3 else match p with PParse _ _ => 2 | _ => 0 end.
Proof. exact one_problem_status. Qed.

Example C16_exit_example :
  counted_inv init_state [] /\
  fst (main_tail 0 true [] init_state []) = 0 /\
  fst (main_tail 0 false [] {| once_msgs := []; violations := 1; printed := [] |} [(sec_docstring, [[97]%N])]) = 2 /\
  fst (main_tail 0 true [] {| once_msgs := []; violations := 1; printed := [] |} []) = 3.
Proof. split; [intros H; discriminate|]. vm_compute. repeat split. Qed.
