(* Props/C03.v -- C03: what is documented in each namespace is what Python defines there.
   Only statements closed by `exact` (proofs in Proofs/BuilderProofs.v, Proofs/InferProofs.v), `_refuted` witnesses
   and non-vacuity Examples by computation.
   Model: Model/Builder.v (astbuilder.ModuleVistor on MiniPy), Model/Infer.v (_annotation_for_value).
   Spec : Spec/PyBind.v (CPython's bindings on the subset; py_exec = None outside the agreed subset),
          Spec/C03Rel.v (ns_at, kind_ok, doc_ok, shadow_guard).   `clean` = inspect.cleandoc (oracle). *)
From Coq Require Import ZArith NArith List Bool.
From PydoctorVerif Require Import Base.Sexp Model.MiniPy Model.Infer Model.Builder Spec.PyBind Spec.C03Rel
     Gen.TablesC03 Proofs.InferProofs Proofs.BuilderProofs.
Import ListNotations.

Definition idc (t : text) : text := t.

(* ---- names: nothing missing, nothing invented, nothing twice -- in the module and in every class namespace ----
   For every program of the subset (py_exec accepts it) that passes shadow_guard, and every namespace (c', e') of it:
   the documented keys are pairwise distinct; every definition Python binds there is documented; every documented
   name is a definition Python binds there, or -- in a class -- an instance variable (`self.x = ...` in a method; CPython
   binds those at instantiation only: pydoctor extras by design).
   _partial: (1) shadow_guard excludes a class variable that shadows an inherited method (C03_names_inherited_shadow_refuted);
   (2) bindings in else/except/finally suites and untaken ifs, aliases, annotations without value, rebinding a function by a
   plain assignment are outside the agreed subset (py_exec = None). *)
Theorem C03_names_agree_partial :
  forall (clean : text -> text) prog e sc c' e',
    py_exec prog = Some e -> shadow_guard prog = true ->
    ns_at (m_contents (doc_walk clean prog)) e sc c' e' ->
    NoDup (keys c') /\
    (forall n, pdef n e' = true -> In n (keys c')) /\
    (forall n, In n (keys c') ->
               pdef n e' = true \/ (sc = ScClass /\ exists o, lookup n c' = Some o /\ is_ivar_obj o = true)).
Proof. exact names_agree. Qed.

(* at module level the two key sets are equal *)
Theorem C03_names_agree_module_partial :
  forall (clean : text -> text) prog e,
    py_exec prog = Some e -> shadow_guard prog = true ->
    NoDup (keys (m_contents (doc_walk clean prog))) /\
    forall n, In n (keys (m_contents (doc_walk clean prog))) <-> pdef n e = true.
Proof. intros clean prog e H1 H2. exact (agree_keys_module clean false _ _ (module_simulation clean prog e H1 H2)). Qed.

(* every class Python binds is documented as a class under that name (so ns_at reaches every class namespace) *)
Theorem C03_classes_reached_partial :
  forall (clean : text -> text) prog e sc c' e' n x' d' e2,
    py_exec prog = Some e -> shadow_guard prog = true ->
    ns_at (m_contents (doc_walk clean prog)) e sc c' e' -> plookup n e' = Some (VClass x' d' e2) ->
    exists x d c2 oo ih, lookup n c' = Some (OClass x d c2 oo ih).
Proof. exact classes_reached. Qed.

(* ---- kinds and docstrings -------------------------------------------------------------------------------------
   kind_ok: FUNCTION at module level / METHOD, CLASS_METHOD, STATIC_METHOD in a class exactly as the (single builtin)
   decorator or the old-style `x = staticmethod(x)` wrapping (also of an already wrapped method: the outer wrapper
   decides) says; is_async = coroutine; PROPERTY for a property object (also when a method assigns `self.p = ..`);
   a class for a class, and for classes bound at module level EXCEPTION exactly when the class is a subclass of
   BaseException (through builtin bases -- ExceptionGroup, BaseExceptionGroup, EncodingWarning included -- and
   module-level bases); a variable kind for anything else.
   doc_ok: the docstring of a function, property or class is cleandoc of the first-statement string.
   _partial: for classes nested in classes the CLASS / EXCEPTION distinction is not part of kind_ok (tied by the
   correspondence check and the oracle only); shadow_guard and the agreed subset as for the names.
   The three defects that made these statements false before (C03_*_old_refuted below) are repaired in /repo
   (fbfbc45, 76cecbe, 7fd5e3f): no guard about properties or exception names is left. *)
Theorem C03_kinds_agree_partial :
  forall (clean : text -> text) prog e sc c' e' n o v,
    py_exec prog = Some e -> shadow_guard prog = true ->
    ns_at (m_contents (doc_walk clean prog)) e sc c' e' ->
    lookup n c' = Some o -> plookup n e' = Some v -> is_aux v = false ->
    kind_ok sc o v.
Proof. intros. eapply kinds_agree; eauto. Qed.

Theorem C03_docstring_partial :
  forall (clean : text -> text) prog e sc c' e' n o v,
    py_exec prog = Some e -> shadow_guard prog = true ->
    ns_at (m_contents (doc_walk clean prog)) e sc c' e' ->
    lookup n c' = Some o -> plookup n e' = Some v -> is_aux v = false ->
    doc_ok clean o v.
Proof. intros. eapply kinds_agree; eauto. Qed.

Theorem C03_module_docstring :
  forall (clean : text -> text) prog, m_doc (doc_walk clean prog) = option_map clean (docstring_of prog).
Proof. reflexivity. Qed.

(* attribute docstrings (CPython has none: these are statements about the builder only).  A string statement right after
   `n = <expr>` at module level becomes the docstring of n (with several targets `a = b = ..` the LAST target gets it: the
   window is builder.currentAttr); a string after a def (property or not), after a class, or after an augmented
   assignment is nobody's docstring. *)
Theorem C03_docstring_attribute :
  forall (clean : text -> text) flow inh outer n r d s,
    NoDup (keys (contents s)) -> mem n Gen.TablesC03.module_meta_vars = false -> not_name r ->
    (forall o, lookup n (contents s) = Some o -> is_attr o = true) ->
    let s1 := walk_stmt clean (Assign [TName n] r) ScModule flow inh outer s in
    cur s1 = Some n /\
    exists k a v, lookup n (contents (walk_stmt clean (ExprStr d) ScModule flow inh outer s1)) = Some (OAttr k (Some (clean d)) a v).
Proof. exact attr_doc_after_assign. Qed.

Theorem C03_docstring_not_after_def :
  forall (clean : text -> text) sc flow inh outer nm ds a body d s,
    let s1 := walk_stmt clean (Def nm ds a body) sc flow inh outer s in
    walk_stmt clean (ExprStr d) sc flow inh outer s1 = s1.
Proof. exact string_after_def_ignored. Qed.

Theorem C03_docstring_not_after_class :
  forall (clean : text -> text) sc flow inh outer nm bs body d s,
    let s1 := walk_stmt clean (Class nm bs body) sc flow inh outer s in
    walk_stmt clean (ExprStr d) sc flow inh outer s1 = s1.
Proof. exact string_after_class_ignored. Qed.

Theorem C03_docstring_not_after_augassign :
  forall (clean : text -> text) flow inh outer n r d s k0 d0 a0 v0,
    mem n Gen.TablesC03.module_meta_vars = false -> lookup n (contents s) = Some (OAttr k0 d0 a0 v0) ->
    let s1 := walk_stmt clean (AugAssign (TName n) r) ScModule flow inh outer s in
    walk_stmt clean (ExprStr d) ScModule flow inh outer s1 = s1.
Proof. exact string_after_augassign_ignored. Qed.

(* with two targets the string goes to the last one *)
Example C03_docstring_last_target :
  let m := doc_walk idc [Assign [TName [97]%N; TName [98]%N] (RLit (LInt 1)); ExprStr [100]%N] in
  lookup [97]%N (m_contents m) = Some (OAttr KVariable None (Some (AName t_int)) (Some (AvLit (LInt 1)))) /\
  lookup [98]%N (m_contents m) = Some (OAttr KVariable (Some [100]%N) (Some (AName t_int)) (Some (AvLit (LInt 1)))).
Proof. split; reflexivity. Qed.

(* ---- literal types ---------------------------------------------------------------------------------------------- *)
(* whatever _annotation_for_value answers describes the value: container name = type(v).__name__, every element
   (key, value) has exactly the element type named -- induction on literal values, no bound *)
Theorem C03_infer_type_sound :
  forall v t, annotation_for_value v = Some t -> denotes t v.
Proof. exact annotation_for_value_sound. Qed.

(* program level: in the strict subset (py_exec_strict = py_exec minus programs that unpack a tuple into a name holding a
   literal value -- the exact trigger of the known finding, C03_infer_stale_after_unpacking_refuted), the literal pydoctor
   remembers for a variable of any namespace (Attribute.value, from which infer_type computes the annotation when the
   variable has no explicit one) is the literal whose value CPython has bound to that name: last binding wins on both sides.
   Together with C03_infer_type_sound: the inferred annotation denotes type(value).  Instance variables are excepted
   (their value is set in methods). *)
Theorem C03_infer_type_program_partial :
  forall (clean : text -> text) prog e sc c' e' n k d an l pv,
    py_exec_strict prog = Some e -> shadow_guard prog = true ->
    ns_at (m_contents (doc_walk clean prog)) e sc c' e' ->
    lookup n c' = Some (OAttr k d an (Some (AvLit l))) -> k <> KInstanceVar ->
    plookup n e' = Some (VData pv) ->
    pv = Some l /\ forall t, annotation_for_value l = Some t -> denotes t l.
Proof.
  intros clean prog e sc c' e' n k d an l pv H1 H2 H3 H4 H5 H6. split.
  - exact (stored_literal_is_bound clean prog e sc c' e' n k d an l pv H1 H2 H3 H4 H5 H6).
  - intros t Ht. exact (annotation_for_value_sound l t Ht).
Qed.

(* the strict subset is a subset: same bindings *)
Theorem C03_strict_subset : forall prog e, py_exec_strict prog = Some e -> py_exec prog = Some e.
Proof. exact py_exec_strict_lax. Qed.

(* a subscript is produced for non-empty containers only: empty containers give the bare name *)
Theorem C03_infer_type_empty_bare :
  forall v t, annotation_for_value v = Some t -> (forall n, t <> AName n) -> py_elems v <> [].
Proof. exact subscript_nonempty. Qed.

(* bool is not merged into int: [True, 1] is a plain `list`, [True, False] a `list[bool]` *)
Example C03_infer_type_bool_not_int :
  annotation_for_value (LList [LBool true; LInt 1]) = Some (AName t_list) /\
  annotation_for_value (LList [LBool true; LBool false]) = Some (ASub1 t_list t_bool) /\
  annotation_for_value (LDict [] []) = Some (AName t_dict) /\
  annotation_for_value (LTuple [LInt 1; LInt 2]) = Some (ATupleOf t_int).
Proof. repeat split; reflexivity. Qed.

(* ---- witnesses ---------------------------------------------------------------------------------------------------- *)
Definition nA : name := [65]%N.   Definition nB : name := [66]%N.   Definition nC : name := [67]%N.
Definition nG : name := [71]%N.   Definition nf : name := [102]%N.  Definition ng : name := [103]%N.
Definition np : name := [112]%N.  Definition nx : name := [120]%N.  Definition ny : name := [121]%N.
Definition n_init : name := [95;95;105;110;105;116;95;95]%N.
Definition n_ValueError : name := [86;97;108;117;101;69;114;114;111;114]%N.
Definition n_ExceptionGroup : name := [69;120;99;101;112;116;105;111;110;71;114;111;117;112]%N.

(* class A: def f(self): pass     class B(A): f = None *)
Definition w_shadow : list stmt :=
  [Class nA [] [Def nf [] false []]; Class nB [nA] [Assign [TName nf] (RLit LNone)]].

Theorem C03_names_inherited_shadow_refuted :
  exists e cB eB, py_exec w_shadow = Some e /\ ns_at (m_contents (doc_walk idc w_shadow)) e ScClass cB eB /\
                  pdef nf eB = true /\ ~ In nf (keys cB).
Proof.
  eexists. eexists. eexists. split; [lazy; reflexivity|]. split.
  - eapply ns_class with (n := nB); [apply ns_root|lazy; reflexivity|lazy; reflexivity].
  - split; [reflexivity|]. lazy. tauto.
Qed.

(* ---- the three defects repaired in /repo, as they were (old definitions kept) and as they are now --------------- *)
(* before fbfbc45 _handlePropertyDef left builder.currentAttr on the property: the next string statement replaced its docstring *)
Theorem C03_docstring_property_old_refuted :
  let s_old := set_cur (Some np) (add_obj np (OAttr KProperty (Some nx) None None) empty_st) in
  lookup np (contents (attach_doc idc ny s_old)) = Some (OAttr KProperty (Some ny) None None).
Proof. reflexivity. Qed.

(* class C:  @property def p(self): "x"     "y"   -- now: the property keeps the getter's docstring *)
Definition w_stray : list stmt :=
  [Class nC [] [Def np [DName [t_property]] false [ExprStr nx]; ExprStr ny]].

Example C03_docstring_property_fixed :
  exists e cC eC, py_exec w_stray = Some e /\ shadow_guard w_stray = true /\
                  ns_at (m_contents (doc_walk idc w_stray)) e ScClass cC eC /\
                  plookup np eC = Some (VFun false WProp (Some nx)) /\
                  lookup np cC = Some (OAttr KProperty (Some nx) None None).
Proof.
  eexists. eexists. eexists. split; [lazy; reflexivity|]. split; [reflexivity|]. split.
  - eapply ns_class with (n := nC); [apply ns_root|lazy; reflexivity|lazy; reflexivity].
  - split; reflexivity.
Qed.

(* before 76cecbe _handleInstanceVar turned an existing property into an instance variable *)
Theorem C03_kinds_property_self_old_refuted :
  let s := add_obj np (OAttr KProperty None None None) empty_st in
  exists d a v, lookup np (contents (handle_instance_var_old true [] np None (Some (RLit (LInt 1))) s))
                = Some (OAttr KInstanceVar d a v).
Proof. repeat eexists. Qed.

(* class C:  @property def p(self): pass     def __init__(self): self.p = 1   -- now inside the subset, p stays a property *)
Definition w_propself : list stmt :=
  [Class nC [] [Def np [DName [t_property]] false [];
                Def n_init [] false [Assign [TSelf np] (RLit (LInt 1))]]].

Example C03_kinds_property_self_fixed :
  exists e cC eC, py_exec w_propself = Some e /\ shadow_guard w_propself = true /\
                  ns_at (m_contents (doc_walk idc w_propself)) e ScClass cC eC /\
                  plookup np eC = Some (VFun false WProp None) /\
                  lookup np cC = Some (OAttr KProperty None None None).
Proof.
  eexists. eexists. eexists. split; [lazy; reflexivity|]. split; [reflexivity|]. split.
  - eapply ns_class with (n := nC); [apply ns_root|lazy; reflexivity|lazy; reflexivity].
  - split; reflexivity.
Qed.

(* before 7fd5e3f the table lacked the builtin exception classes added in Python 3.10 / 3.11 *)
Definition new_exceptions : list name :=
  [n_ExceptionGroup; [66;97;115;101;69;120;99;101;112;116;105;111;110;71;114;111;117;112]%N;
   [69;110;99;111;100;105;110;103;87;97;114;110;105;110;103]%N].
Definition std_lib_exceptions_old : list name := filter (fun n => negb (mem n new_exceptions)) std_lib_exceptions.

Theorem C03_exception_table_old_refuted :
  forallb (fun n => match py_builtin_class n with Some true => negb (mem n std_lib_exceptions_old) | _ => false end)
          new_exceptions = true.
Proof. vm_compute. reflexivity. Qed.

(* class G(ExceptionGroup): pass   -- now an EXCEPTION, as issubclass(G, BaseException) says *)
Definition w_excgroup : list stmt := [Class nG [n_ExceptionGroup] []].

Example C03_exception_table_fixed :
  exists e d c oo ih d' ns, py_exec w_excgroup = Some e /\
     plookup nG e = Some (VClass true d' ns) /\ lookup nG (m_contents (doc_walk idc w_excgroup)) = Some (OClass true d c oo ih).
Proof. repeat eexists; lazy; reflexivity. Qed.

(* x = 'a'     x, y = 1, 2  : the type inferred from the first literal is kept *)
Definition w_unpack : list stmt :=
  [Assign [TName nx] (RLit (LStr nA)); Assign [TTuple [nx; ny]] (RLit (LTuple [LInt 1; LInt 2]))].

Theorem C03_infer_stale_after_unpacking_refuted :
  py_exec_strict w_unpack = None /\
  exists e, py_exec w_unpack = Some e /\ plookup nx e = Some (VData None) /\
            exists k d v, lookup nx (m_contents (doc_walk idc w_unpack)) = Some (OAttr k d (Some (AName t_str)) v).
Proof. split; [reflexivity|]. eexists. split; [lazy; reflexivity|]. split; [reflexivity|]. repeat eexists. Qed.

(* outside the agreed subset: a def in an else: / finally: suite is not walked (NodeVisitor.get_children yields .body only) *)
Definition w_orelse : list stmt := [Try [Other] [] [Def nf [] false []] [Def ng [] false []]].

Theorem C03_orelse_not_walked_observation :
  py_exec w_orelse = None /\ m_contents (doc_walk idc w_orelse) = [].
Proof. split; reflexivity. Qed.

(* the translated suite attribute is `body` *)
Theorem C03_children_attr_is_body : walks_body = true.
Proof. reflexivity. Qed.

(* ---- non-vacuity: a program with duplicates, nesting, decorators and old-style wrapping is inside the guards -------- *)
Definition w_ok : list stmt :=
  [ExprStr nx;
   Assign [TName nx] (RLit (LInt 1)); Def nx [] true [ExprStr ny];
   Class nA [n_ExceptionGroup] [Def nf [DName [t_staticmethod]] false []; Assign [TName nf] (RCall t_classmethod [nf]);
                                Def ng [] false [Assign [TSelf ny] (RLit (LList []))];
                                Assign [TName ng] (RCall t_classmethod [ng]);
                                Class nB [] [Def np [DName [t_property]] false [ExprStr nx]; ExprStr ny;
                                             Def n_init [] false [Assign [TSelf np] (RLit (LInt 1))]]];
   If TTrue [Try [Def nf [] false []] [] [Other] []] [];
   If TMain [Def ng [] false []] []].

Example C03_hypotheses_satisfiable :
  exists e, py_exec w_ok = Some e /\ shadow_guard w_ok = true /\
            keys (m_contents (doc_walk idc w_ok)) = [nx; nA; nf] /\
            exists d c oo ih, lookup nA (m_contents (doc_walk idc w_ok)) = Some (OClass true d c oo ih) /\ keys c = [nf; ng; ny; nB].
Proof. eexists. split; [lazy; reflexivity|]. split; [reflexivity|]. split; [reflexivity|]. repeat eexists. Qed.
