(* Props/C03.v -- C03: what is documented in each namespace is what Python defines there.
   Only statements closed by `exact` (proofs in Proofs/BuilderProofs.v, Proofs/InferProofs.v), `_refuted` witnesses
   and non-vacuity Examples by computation.
   Model: Model/Builder.v (astbuilder.ModuleVistor on MiniPy), Model/Infer.v (_annotation_for_value).
   Spec : Spec/PyBind.v (CPython's bindings on the subset; py_exec = None outside the agreed subset; py_exec_names /
          py_exec_strict add the guards of the two known findings), Spec/C03Rel.v (ns_at, kind_ok, doc_ok).
   `clean` = inspect.cleandoc (oracle).  What an import statement binds is part of the statement (resolved-bases oracle). *)
From Coq Require Import ZArith NArith List Bool.
From PydoctorVerif Require Import Base.Sexp Model.MiniPy Model.Infer Model.Builder Model.BuilderIR Spec.PyBind Spec.C03Rel
     Gen.TablesC03 Gen.BuilderCode Proofs.InferProofs Proofs.BuilderProofs Proofs.BuilderIRProofs.
Import ListNotations.

Definition idc (t : text) : text := t.

(* ---- names: nothing missing, nothing invented, nothing twice -- in the module and in every class namespace ----
   For every program py_exec_names accepts and every namespace (c', e') of it: the documented keys are pairwise distinct;
   every definition Python binds there is documented; every documented name is a definition Python binds there, or -- in
   a class -- an instance variable (C03_instance_variables says which).
   _partial: py_exec_names = py_exec minus class-level assignments that shadow a method or class inherited from a base
   class (semantic guard: the name is unbound in the class body so far and Python's lookup along the bases finds a
   function or class first) -- the known finding, C03_names_inherited_shadow_refuted; py_exec = None for bindings in
   else/except/finally suites and untaken ifs, aliases, annotations without value, rebinding a function by assignment. *)
Theorem C03_names_agree_partial :
  forall (clean : text -> text) prog e sc c' e',
    py_exec_names prog = Some e ->
    ns_at (m_contents (doc_walk clean prog)) e sc c' e' ->
    NoDup (keys c') /\
    (forall n, pdef n e' = true -> In n (keys c')) /\
    (forall n, In n (keys c') ->
               pdef n e' = true \/ (sc = ScClass /\ exists o, lookup n c' = Some o /\ is_ivar_obj o = true)).
Proof. exact names_agree. Qed.

(* at module level the two key sets are equal *)
Theorem C03_names_agree_module_partial :
  forall (clean : text -> text) prog e,
    py_exec_names prog = Some e ->
    NoDup (keys (m_contents (doc_walk clean prog))) /\
    forall n, In n (keys (m_contents (doc_walk clean prog))) <-> pdef n e = true.
Proof.
  intros clean prog e H.
  exact (agree_keys_module clean false _ _
           (proj1 (module_simulation_gen clean false g_names prog e eq_refl (fun H0 => False_ind _ (Bool.diff_false_true H0)) H))).
Qed.

(* every class Python binds is documented as a class under that name (so ns_at reaches every class namespace) *)
Theorem C03_classes_reached_partial :
  forall (clean : text -> text) prog e sc c' e' n x' d' e2 mro ivs,
    py_exec_names prog = Some e ->
    ns_at (m_contents (doc_walk clean prog)) e sc c' e' -> plookup n e' = Some (VClass x' d' e2 mro ivs) ->
    exists x d c2 oo ih, lookup n c' = Some (OClass x d c2 oo ih).
Proof. exact classes_reached. Qed.

(* instance variables, precisely: the instance variables of a class statement are Spec.PyBind.class_ivars of its body --
   the `self.x = ..` / `self.x: T [= ..]` targets of assignment statements that are statements of a method (a def of the
   class body, also inside the body of an if/try/with/for/while there, that is not a property), or of the body of an
   if/try/with/for/while inside the method at any depth; not in else/except/finally suites, not inside nested defs or
   classes, not under `if __name__ == '__main__':`.  In the class namespace every documented name is a definition Python
   binds or one of them; and every one of them is documented, unless Python's lookup along the base classes finds a
   function or class of that name first (_maybeAttribute). *)
Theorem C03_instance_variables_partial :
  forall (clean : text -> text) prog e sc c1 e1 n x d c2 oo ih x' d' e2 mro ivs,
    py_exec_names prog = Some e -> ns_at (m_contents (doc_walk clean prog)) e sc c1 e1 ->
    lookup n c1 = Some (OClass x d c2 oo ih) -> plookup n e1 = Some (VClass x' d' e2 mro ivs) ->
    (forall m, In m (keys c2) -> pdef m e2 = true \/ In m ivs) /\
    (forall m, In m ivs -> pfirst m mro <> Some false -> In m (keys c2)).
Proof. exact instance_variables. Qed.

(* the ivs field of a class value is class_ivars of the body of the class statement that created it *)
Theorem C03_class_value_ivars :
  forall g nm bs cds body sc pinh ivs fr e e',
    py_stmt g (Class nm bs cds body) sc pinh ivs fr e = Some e' ->
    exists x d ns mro, plookup nm e' = Some (VClass x d ns mro (class_ivars body)).
Proof.
  intros g nm bs cds body sc pinh ivs fr e e' H. cbn in H.
  destruct (forallb transparent_deco cds); [|discriminate].
  destruct (bases_info e ivs fr bs) as [[x mro]|]; [|discriminate].
  match type of H with match ?c with _ => _ end = _ => destruct c as [ns|]; [|discriminate] end. inversion H; subst.
  exists x, (docstring_of body), ns, mro. rewrite plookup_bind, text_eqb_refl. reflexivity.
Qed.

(* ---- kinds and docstrings -------------------------------------------------------------------------------------
   kind_ok: FUNCTION at module level / METHOD, CLASS_METHOD, STATIC_METHOD in a class exactly as the (single builtin)
   decorator or the old-style `x = staticmethod(x)` wrapping (also of an already wrapped method: the outer wrapper
   decides) says; is_async = coroutine; PROPERTY for a property object (also when a method assigns `self.p = ..`);
   a class for a class, EXCEPTION exactly when the class is a subclass of BaseException -- for classes at ANY nesting
   depth, through builtin bases, bases of the same module (looked up as Python does) and bases IMPORTED from another
   module (`from m import Base`, `import m` + `m.Base`; what the import binds comes with the Import statement);
   class decorators change nothing; a variable kind for anything else.
   doc_ok: the docstring of a function, property or class is cleandoc of the first-statement string. *)
Theorem C03_kinds_agree_partial :
  forall (clean : text -> text) prog e sc c' e' n o v,
    py_exec_names prog = Some e ->
    ns_at (m_contents (doc_walk clean prog)) e sc c' e' ->
    lookup n c' = Some o -> plookup n e' = Some v -> is_aux v = false ->
    kind_ok sc o v.
Proof. intros. eapply kinds_agree; eauto. Qed.

Theorem C03_docstring_partial :
  forall (clean : text -> text) prog e sc c' e' n o v,
    py_exec_names prog = Some e ->
    ns_at (m_contents (doc_walk clean prog)) e sc c' e' ->
    lookup n c' = Some o -> plookup n e' = Some v -> is_aux v = false ->
    doc_ok clean o v.
Proof. intros. eapply kinds_agree; eauto. Qed.

Theorem C03_module_docstring :
  forall (clean : text -> text) prog, m_doc (doc_walk clean prog) = option_map clean (docstring_of prog).
Proof. reflexivity. Qed.

(* attribute docstrings (CPython has none: these are statements about the builder only).  A string statement right after
   `n = <expr>` at module level becomes the docstring of n (with several targets `a = b = ..` the LAST target gets it: the
   window is builder.currentAttr); a string after a def (property or not), after a class, or after an augmented
   assignment is nobody's docstring. *)
Theorem C03_docstring_attribute :
  forall (clean : text -> text) flow inh outer n r d s,
    NoDup (keys (contents s)) -> mem n Gen.TablesC03.module_meta_vars = false -> not_name r ->
    (forall o, lookup n (contents s) = Some o -> is_attr o = true) ->
    let s1 := walk_stmt clean (Assign [TName n] r) ScModule flow inh outer s in
    cur s1 = Some n /\
    exists k a v, lookup n (contents (walk_stmt clean (ExprStr d) ScModule flow inh outer s1)) = Some (OAttr k (Some (clean d)) a v).
Proof. exact attr_doc_after_assign. Qed.

Theorem C03_docstring_not_after_def :
  forall (clean : text -> text) sc flow inh outer nm ds a body d s,
    let s1 := walk_stmt clean (Def nm ds a body) sc flow inh outer s in
    walk_stmt clean (ExprStr d) sc flow inh outer s1 = s1.
Proof. exact string_after_def_ignored. Qed.

Theorem C03_docstring_not_after_class :
  forall (clean : text -> text) sc flow inh outer nm bs cds body d s,
    let s1 := walk_stmt clean (Class nm bs cds body) sc flow inh outer s in
    walk_stmt clean (ExprStr d) sc flow inh outer s1 = s1.
Proof. exact string_after_class_ignored. Qed.

Theorem C03_docstring_not_after_augassign :
  forall (clean : text -> text) flow inh outer n r d s k0 d0 a0 v0,
    mem n Gen.TablesC03.module_meta_vars = false -> lookup n (contents s) = Some (OAttr k0 d0 a0 v0) ->
    let s1 := walk_stmt clean (AugAssign (TName n) r) ScModule flow inh outer s in
    walk_stmt clean (ExprStr d) ScModule flow inh outer s1 = s1.
Proof. exact string_after_augassign_ignored. Qed.

(* with two targets the string goes to the last one *)
Example C03_docstring_last_target :
  let m := doc_walk idc [Assign [TName [97]%N; TName [98]%N] (RLit (LInt 1)); ExprStr [100]%N] in
  lookup [97]%N (m_contents m) = Some (OAttr KVariable None (Some (AName t_int)) (Some (AvLit (LInt 1)))) /\
  lookup [98]%N (m_contents m) = Some (OAttr KVariable (Some [100]%N) (Some (AName t_int)) (Some (AvLit (LInt 1)))).
Proof. split; reflexivity. Qed.

(* ---- literal types ---------------------------------------------------------------------------------------------- *)
(* whatever _annotation_for_value answers describes the value: container name = type(v).__name__, every element
   (key, value) has exactly the element type named -- induction on literal values, no bound *)
Theorem C03_infer_type_sound :
  forall v t, annotation_for_value v = Some t -> denotes t v.
Proof. exact annotation_for_value_sound. Qed.

(* program level.  In the strict subset (py_exec_strict = py_exec_names minus programs that unpack a tuple into a name
   holding a literal value -- the exact trigger of the known finding, C03_infer_stale_after_unpacking_refuted), for a
   variable of ANY namespace that is not an instance variable and that the program never annotates explicitly:
   if pydoctor remembers a literal l for it, CPython has bound the name to the value of that same literal (last binding
   wins on both sides), the annotation pydoctor stores is the one _annotation_for_value infers from l, and it denotes
   the type of that value. *)
Theorem C03_infer_type_program_partial :
  forall (clean : text -> text) prog e sc c' e' n k d an l pv,
    py_exec_strict prog = Some e ->
    ns_at (m_contents (doc_walk clean prog)) e sc c' e' ->
    lookup n c' = Some (OAttr k d an (Some (AvLit l))) -> k <> KInstanceVar -> ~ In n (prog_ann prog) ->
    plookup n e' = Some (VData pv) ->
    pv = Some l /\ an = annotation_for_value l /\ forall t, an = Some t -> denotes t l.
Proof.
  intros clean prog e sc c' e' n k d an l pv H1 H3 H4 H5 Hn H6.
  assert (Hn' : py_exec_names prog = Some e).
  { apply (py_exec_le g_names g_strict); [split; auto|exact H1]. }
  split; [exact (stored_literal_is_bound clean prog e sc c' e' n k d an l pv H1 H3 H4 H5 H6)|].
  pose proof (annotation_is_inferred clean prog e sc c' e' n k d an _ Hn' H3 H4 Hn) as Ha. cbn in Ha.
  split; [exact Ha|]. intros t Ht. subst an. exact (annotation_for_value_sound l t Ht).
Qed.

(* the guards only remove programs: same bindings *)
Theorem C03_strict_subset : forall prog e, py_exec_strict prog = Some e -> py_exec_names prog = Some e.
Proof. intros prog e. apply (py_exec_le g_names g_strict). split; auto. Qed.

Theorem C03_names_subset : forall prog e, py_exec_names prog = Some e -> py_exec prog = Some e.
Proof. intros prog e. apply (py_exec_le (mkGuards false false) g_names). split; intro; discriminate. Qed.

(* a subscript is produced for non-empty containers only: empty containers give the bare name *)
Theorem C03_infer_type_empty_bare :
  forall v t, annotation_for_value v = Some t -> (forall n, t <> AName n) -> py_elems v <> [].
Proof. exact subscript_nonempty. Qed.

(* bool is not merged into int: [True, 1] is a plain `list`, [True, False] a `list[bool]` *)
Example C03_infer_type_bool_not_int :
  annotation_for_value (LList [LBool true; LInt 1]) = Some (AName t_list) /\
  annotation_for_value (LList [LBool true; LBool false]) = Some (ASub1 t_list t_bool) /\
  annotation_for_value (LDict [] []) = Some (AName t_dict) /\
  annotation_for_value (LTuple [LInt 1; LInt 2]) = Some (ATupleOf t_int).
Proof. repeat split; reflexivity. Qed.

(* ---- the model is the code ----------------------------------------------------------------------------------------------
   Gen/BuilderCode.v holds the BODIES of astutils.infer_type / _annotation_for_value / _annotation_for_elements,
   model.is_exception and ModuleVistor._handleOldSchoolMethodDecoration, translated statement by statement from the current
   pydoctor source on every run (harness/gen/gen_c03_code.py, fail-closed) into the language of Model/BuilderIR.v.
   Interpreting them is the hand-written model, for all inputs; the primitives (literal_eval, ast constructors, set of str,
   mro(), contents.get, isinstance on the inspected trees) are the stated assumptions of Model/BuilderIR.v. *)
Theorem C03_code_annotation_for_value_is_model :
  forall literal_eval contents_get mro_of call_value v hk,
    run_body [ival_of_value v] call_value model_elems literal_eval contents_get mro_of code_annotation_for_value hk
    = RReturn (of_opt_past (model_value v)) hk.
Proof. exact code_annotation_for_value_is_model. Qed.

Theorem C03_code_annotation_for_elements_is_model :
  forall literal_eval contents_get mro_of call_elems l hk,
    run_body [VSeq l] model_value call_elems literal_eval contents_get mro_of code_annotation_for_elements hk
    = RReturn (of_opt_past (model_elems l)) hk.
Proof. exact code_annotation_for_elements_is_model. Qed.

Theorem C03_code_infer_type_is_model :
  forall literal_eval contents_get mro_of call_elems p hk,
    run_body [VExpr p] model_value call_elems literal_eval contents_get mro_of code_infer_type hk
    = RReturn (of_opt_past (model_infer literal_eval p)) hk.
Proof. exact code_infer_type_is_model. Qed.

(* ... and model_infer is Model.Builder.infer_value when literal_eval yields the literal of a literal expression and fails on
   any other expression *)
Theorem C03_code_infer_type_is_infer_value :
  forall literal_eval p (v : aval),
    literal_eval p = match v with AvLit l => Some l | AvOther => None end ->
    model_infer literal_eval p = option_map past_of_annot (infer_value v).
Proof. exact model_infer_is_infer_value. Qed.

(* the property's theorem restated on the translated code: whatever the code of _annotation_for_value returns denotes the value *)
Theorem C03_code_infer_type_sound :
  forall literal_eval contents_get mro_of call_value v hk a,
    run_body [ival_of_value v] call_value model_elems literal_eval contents_get mro_of code_annotation_for_value hk
    = RReturn (VPast a) hk ->
    exists t, a = past_of_annot t /\ denotes t v.
Proof.
  intros le cg mro cv v hk a H. rewrite code_annotation_for_value_is_model in H. unfold model_value in H.
  destruct (annotation_for_value v) as [t|] eqn:E; cbn in H; [|discriminate].
  exists t. split; [congruence|]. apply annotation_for_value_sound. exact E.
Qed.

Theorem C03_code_is_exception_is_model :
  forall literal_eval contents_get call_value call_elems cls mro hk,
    run_body [cls] call_value call_elems literal_eval contents_get mro code_is_exception hk
    = RReturn (VBool (is_exception_mro mro)) hk.
Proof. exact code_is_exception_is_model. Qed.

(* the flag Model.Builder computes from the resolved bases is is_exception of the concatenated linearisations *)
Theorem C03_code_is_exception_flag :
  forall (lin : obj -> list mroent) rs,
    (forall o, In (RClass o) rs -> match o with OClass e _ _ _ _ => e = is_exception_mro (lin o) | _ => is_exception_mro (lin o) = false end) ->
    (forall e ih, ~ In (RImported e ih) rs) ->
    existsb base_exc rs = is_exception_mro (flat_map (mro_of_resolved lin) rs).
Proof. exact base_exc_is_exception. Qed.

Theorem C03_code_oldschool_is_model :
  forall literal_eval mro_of call_value call_elems target e (cg : text -> ival) hk,
    (cg target = VFunRef \/ cg target = VOtherObj \/ cg target = VNone) -> hk <> KFunction ->
    run_body [VStr target; ival_of_expr e] call_value call_elems literal_eval cg mro_of code_oldschool hk
    = RReturn (VBool (fst (oldschool_spec target e (cg target) hk))) (snd (oldschool_spec target e (cg target) hk)).
Proof. exact code_oldschool_is_model. Qed.

Theorem C03_code_oldschool_spec_is_model :
  forall n expr s k a d,
    lookup n (contents s) = Some (OFun k a d) ->
    match oldschool n expr s with
    | Some s' => fst (oldschool_spec n (option_map pexpr_of_rhs expr) VFunRef k) = true /\
                 contents s' = replace n (OFun (snd (oldschool_spec n (option_map pexpr_of_rhs expr) VFunRef k)) a d) (contents s)
    | None => fst (oldschool_spec n (option_map pexpr_of_rhs expr) VFunRef k) = false
    end.
Proof. exact oldschool_spec_is_model. Qed.

(* ---- witnesses ---------------------------------------------------------------------------------------------------- *)
Definition nA : name := [65]%N.   Definition nB : name := [66]%N.   Definition nC : name := [67]%N.
Definition nD : name := [68]%N.   Definition nG : name := [71]%N.   Definition nf : name := [102]%N.
Definition ng : name := [103]%N.  Definition nm_ : name := [109]%N. Definition np : name := [112]%N.
Definition nx : name := [120]%N.  Definition ny : name := [121]%N.
Definition n_init : name := [95;95;105;110;105;116;95;95]%N.
Definition n_ValueError : name := [86;97;108;117;101;69;114;114;111;114]%N.
Definition n_ExceptionGroup : name := [69;120;99;101;112;116;105;111;110;71;114;111;117;112]%N.

(* class A: def f(self): pass     class B(A): f = None   -- the known finding: B.f is bound, not documented *)
Definition w_shadow : list stmt :=
  [Class nA [] [] [Def nf [] false []]; Class nB [[nA]] [] [Assign [TName nf] (RLit LNone)]].

Theorem C03_names_inherited_shadow_refuted :
  py_exec_names w_shadow = None /\
  exists e cB eB, py_exec w_shadow = Some e /\ ns_at (m_contents (doc_walk idc w_shadow)) e ScClass cB eB /\
                  pdef nf eB = true /\ ~ In nf (keys cB).
Proof.
  split; [reflexivity|].
  eexists. eexists. eexists. split; [lazy; reflexivity|]. split.
  - eapply ns_class with (n := nB); [apply ns_root|lazy; reflexivity|lazy; reflexivity].
  - split; [reflexivity|]. lazy. tauto.
Qed.

(* the guard is not a blanket ban: a class variable of a derived class that shadows nothing inherited, or an inherited
   VARIABLE, is inside py_exec_names *)
Example C03_shadow_guard_is_tight :
  exists e, py_exec_names [Class nA [] [] [Def nf [] false []; Assign [TName nx] (RLit (LInt 1))];
                           Class nB [[nA]] [] [Assign [TName nx] (RLit LNone); Assign [TName ng] (RLit LNone)]] = Some e.
Proof. eexists. lazy. reflexivity. Qed.

(* ---- the three defects repaired in /repo, as they were (old definitions kept) and as they are now --------------- *)
(* before fbfbc45 _handlePropertyDef left builder.currentAttr on the property: the next string statement replaced its docstring *)
Theorem C03_docstring_property_old_refuted :
  let s_old := set_cur (Some np) (add_obj np (OAttr KProperty (Some nx) None None) empty_st) in
  lookup np (contents (attach_doc idc ny s_old)) = Some (OAttr KProperty (Some ny) None None).
Proof. reflexivity. Qed.

(* class C:  @property def p(self): "x"     "y"   -- now: the property keeps the getter's docstring *)
Definition w_stray : list stmt :=
  [Class nC [] [] [Def np [DName [t_property]] false [ExprStr nx]; ExprStr ny]].

Example C03_docstring_property_fixed :
  exists e cC eC, py_exec_names w_stray = Some e /\
                  ns_at (m_contents (doc_walk idc w_stray)) e ScClass cC eC /\
                  plookup np eC = Some (VFun false WProp (Some nx)) /\
                  lookup np cC = Some (OAttr KProperty (Some nx) None None).
Proof.
  eexists. eexists. eexists. split; [lazy; reflexivity|]. split.
  - eapply ns_class with (n := nC); [apply ns_root|lazy; reflexivity|lazy; reflexivity].
  - split; reflexivity.
Qed.

(* before 76cecbe _handleInstanceVar turned an existing property into an instance variable *)
Theorem C03_kinds_property_self_old_refuted :
  let s := add_obj np (OAttr KProperty None None None) empty_st in
  exists d a v, lookup np (contents (handle_instance_var_old true [] np None (Some (RLit (LInt 1))) s))
                = Some (OAttr KInstanceVar d a v).
Proof. repeat eexists. Qed.

(* class C:  @property def p(self): pass     def __init__(self): self.p = 1   -- now inside the subset, p stays a property *)
Definition w_propself : list stmt :=
  [Class nC [] [] [Def np [DName [t_property]] false [];
                   Def n_init [] false [Assign [TSelf np] (RLit (LInt 1))]]].

Example C03_kinds_property_self_fixed :
  exists e cC eC, py_exec_names w_propself = Some e /\
                  ns_at (m_contents (doc_walk idc w_propself)) e ScClass cC eC /\
                  plookup np eC = Some (VFun false WProp None) /\
                  lookup np cC = Some (OAttr KProperty None None None).
Proof.
  eexists. eexists. eexists. split; [lazy; reflexivity|]. split.
  - eapply ns_class with (n := nC); [apply ns_root|lazy; reflexivity|lazy; reflexivity].
  - split; reflexivity.
Qed.

(* before 7fd5e3f the table lacked the builtin exception classes added in Python 3.10 / 3.11 *)
Definition new_exceptions : list name :=
  [n_ExceptionGroup; [66;97;115;101;69;120;99;101;112;116;105;111;110;71;114;111;117;112]%N;
   [69;110;99;111;100;105;110;103;87;97;114;110;105;110;103]%N].
Definition std_lib_exceptions_old : list name := filter (fun n => negb (mem n new_exceptions)) std_lib_exceptions.

Theorem C03_exception_table_old_refuted :
  forallb (fun n => match py_builtin_class n with Some true => negb (mem n std_lib_exceptions_old) | _ => false end)
          new_exceptions = true.
Proof. vm_compute. reflexivity. Qed.

(* x = 'a'     x, y = 1, 2  : the type inferred from the first literal is kept -- the known finding *)
Definition w_unpack : list stmt :=
  [Assign [TName nx] (RLit (LStr nA)); Assign [TTuple [nx; ny]] (RLit (LTuple [LInt 1; LInt 2]))].

Theorem C03_infer_stale_after_unpacking_refuted :
  py_exec_strict w_unpack = None /\
  exists e, py_exec_names w_unpack = Some e /\ plookup nx e = Some (VData None) /\
            exists k d v, lookup nx (m_contents (doc_walk idc w_unpack)) = Some (OAttr k d (Some (AName t_str)) v).
Proof. split; [reflexivity|]. eexists. split; [lazy; reflexivity|]. split; [reflexivity|]. repeat eexists. Qed.

(* outside the agreed subset: a def in an else: / finally: suite is not walked (NodeVisitor.get_children yields .body only) *)
Definition w_orelse : list stmt := [Try [Other] [] [Def nf [] false []] [Def ng [] false []]].

Theorem C03_orelse_not_walked_observation :
  py_exec w_orelse = None /\ m_contents (doc_walk idc w_orelse) = [].
Proof. split; reflexivity. Qed.

(* the translated suite attribute is `body` *)
Theorem C03_children_attr_is_body : walks_body = true.
Proof. reflexivity. Qed.

(* ---- non-vacuity --------------------------------------------------------------------------------------------------- *)
(* duplicates, nesting, decorators (also on the class), old-style wrapping and re-wrapping, a string after a property,
   self.p for a property, an exception-group base, a nested exception class whose base is a module-level class, a base
   imported from another module (as a name and as module.Name), instance variables: all inside the strict subset *)
Definition n_impB : name := [105;66]%N.    (* iB *)
Definition n_impm : name := [105;109]%N.   (* im *)
Definition w_ok : list stmt :=
  [ExprStr nx;
   Import [(n_impB, IClass true [(nm_, MNonAttr); (ny, MAttr true)]);
           (n_impm, IModule [(nB, (false, [(nf, MNonAttr)]))])];
   Assign [TName nx] (RLit (LInt 1)); Def nx [] true [ExprStr ny];
   Class nG [[n_ValueError]] [] [];
   Class nA [[n_ExceptionGroup]] [DName [nx]]
         [Def nf [DName [t_staticmethod]] false []; Assign [TName nf] (RCall t_classmethod [nf]);
          Def ng [] false [Assign [TSelf ny] (RLit (LList []))];
          Assign [TName ng] (RCall t_classmethod [ng]);
          Class nB [[nG]] [] [Def np [DName [t_property]] false [ExprStr nx]; ExprStr ny;
                              Def n_init [] false [Assign [TSelf np] (RLit (LInt 1)); If TTrue [Assign [TSelf nx] (RLit (LInt 2))] []]]];
   Class nD [[n_impB]; [n_impm; nB]] [] [Assign [TName ny] (RLit (LInt 1))];
   If TTrue [Try [Def nf [] false []] [] [Other] []] [];
   If TMain [Def ng [] false []] []].

Definition class_keys (o : option obj) : option (bool * list name) :=
  match o with Some (OClass x _ c _ _) => Some (x, keys c) | _ => None end.
Definition class_member (o : option obj) (n : name) : option obj :=
  match o with Some (OClass _ _ c _ _) => lookup n c | _ => None end.

Example C03_hypotheses_satisfiable :
  (match py_exec_strict w_ok with Some _ => true | None => false end) = true /\
  keys (m_contents (doc_walk idc w_ok)) = [nx; nG; nA; nD; nf] /\
  class_keys (lookup nA (m_contents (doc_walk idc w_ok))) = Some (true, [nf; ng; ny; nB]) /\
  class_keys (class_member (lookup nA (m_contents (doc_walk idc w_ok))) nB) = Some (true, [np; n_init; nx]) /\
  class_keys (lookup nD (m_contents (doc_walk idc w_ok))) = Some (true, [ny]) /\
  class_member (lookup nD (m_contents (doc_walk idc w_ok))) ny
    = Some (OAttr KInstanceVar None (Some (AName t_int)) (Some (AvLit (LInt 1)))).
Proof. vm_compute. repeat split. Qed.
