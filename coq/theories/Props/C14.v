(* placeholder while the correspondence is being developed; replaced below *)
From Coq Require Import ZArith NArith List Bool.
From PydoctorVerif Require Import Base.Sexp Spec.SigStr Model.Sig.
Import ListNotations.
Example C14_placeholder : sig_str (mkSig [] None) = [PC 40%N; PC 41%N].
Proof. reflexivity. Qed.
