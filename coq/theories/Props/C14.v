(* Props/C14.v -- C14: a displayed signature is the signature that was written.
   Only statements closed by `exact`; proofs live in Proofs/SigProofs.v.
   Model: Model/Sig.v (astbuilder._handleFunctionDef, _annotations_from_function, astutils.unstring_annotation,
          pages.format_signature / format_function_def / format_overloads).
   CPython: Spec/SigStr.v (inspect.Signature.__init__ / __str__, the `def` parameter grammar as lex + read_sig,
          how the parser stores defaults: src_sig, src_defaults, src_kw_defaults, params_of_src;
          unstringing as the relation `unstrung`).
   Default values and annotation expressions are opaque here; their text is C15. *)
From Coq Require Import ZArith NArith List Bool.
From PydoctorVerif Require Import Base.Sexp Spec.SigStr Model.Sig Proofs.SigProofs.
From PydoctorVerif Require Import Model.SigIR Gen.SigCode Proofs.SigIRProofs.
Import ListNotations.

(* ---- defaults are where the source has them --------------------------------------------------------- *)
(* get_default: for every index enumerate() can produce, under the parser's invariant |defaults| <= n, the
   assert holds, the subscript is in range and the result is the right-aligned default:
   aligned_defaults n d = [None] * (n - |d|) ++ map Some d. *)
Theorem C14_get_default_aligned :
  forall (n : nat) (d : list SigStr.expr) (i : nat),
    (length d <= n)%nat -> (i < n)%nat ->
    get_default (Z.of_nat n) (Z.of_nat n - zlen d) d (Z.of_nat i) = Ok (nth i (aligned_defaults n d) None).
Proof. exact get_default_aligned. Qed.

(* For every ast.arguments record the parser can produce, build_params (the five loops of
   _handleFunctionDef) succeeds, keeps names and order, and gives parameter k exactly the default the
   record means for it: the positional ones right-aligned, the keyword-only ones one by one, none for
   *args / **kwargs. *)
Theorem C14_default_alignment :
  forall (ann : dict) (a : ast_args),
    wf_args a ->
    exists ps,
      build_params ann a = Ok ps /\
      map pname ps = map a_name (all_args a) /\
      map pdefault ps =
      aligned_defaults (length (posonlyargs a) + length (args a)) (defaults a)
      ++ opt_none (vararg a) ++ kw_defaults a ++ opt_none (kwarg a).
Proof.
  intros ann a H. exists (expected_params ann a).
  exact (conj (build_params_expected ann a H)
              (conj (expected_params_names ann a H) (expected_params_defaults ann a H))).
Qed.

(* get_default's `assert 0 <= index < num_pos_args` and `defaults[index]` cannot fail for ANY record, well
   formed or not; the only assertion that can fire is len(kwonlyargs) == len(kw_defaults). *)
Theorem C14_get_default_never_fails :
  forall (ann : dict) (a : ast_args),
    build_params ann a = Raise KwAssertionError \/ exists ps, build_params ann a = Ok ps.
Proof. exact build_params_no_assert. Qed.

(* ---- kinds ------------------------------------------------------------------------------------------ *)
(* Kinds come out as POSITIONAL_ONLY*, POSITIONAL_OR_KEYWORD*, VAR_POSITIONAL?, KEYWORD_ONLY*, VAR_KEYWORD?,
   and inspect.Signature(...) rejects the list only for a duplicate name (then `Signature()` + a report). *)
Theorem C14_kinds_order :
  forall (ann : dict) (a : ast_args) (ps : list param),
    wf_args a -> build_params ann a = Ok ps ->
    map pkind ps =
    repeat POSITIONAL_ONLY (length (posonlyargs a)) ++ repeat POSITIONAL_OR_KEYWORD (length (args a))
    ++ opt_kind VAR_POSITIONAL (vararg a) ++ repeat KEYWORD_ONLY (length (kwonlyargs a))
    ++ opt_kind VAR_KEYWORD (kwarg a)
    /\ sig_validate POSITIONAL_ONLY false [] ps =
       if dup_free [] (map a_name (all_args a)) then None else Some DuplicateName.
Proof.
  intros ann a ps H E. rewrite (build_params_expected ann a H) in E. injection E as <-.
  exact (conj (expected_params_kinds ann a H) (expected_params_valid ann a H)).
Qed.

Theorem C14_dup_free_is_NoDup : forall names, dup_free [] names = true <-> NoDup names.
Proof. exact dup_free_nil. Qed.

(* ---- the round trip --------------------------------------------------------------------------------- *)
(* CPython side only: any parameter list in Signature order (five segments), printed by Signature.__str__,
   lexed and read by the def grammar, gives back the same parameters: names, order, kinds (so the `/` and
   `*` separators are where they must be), defaults and annotations on the parameters that have them,
   and the return annotation. *)
Theorem C14_sig_str_roundtrip :
  forall po pk va ko vk ret sd,
    seg_ok POSITIONAL_ONLY po -> seg_ok POSITIONAL_OR_KEYWORD pk -> var_ok VAR_POSITIONAL va ->
    seg_ok KEYWORD_ONLY ko -> var_ok VAR_KEYWORD vk -> pmono false (po ++ pk) = Some sd ->
    Forall (fun p => name_ok (pname p)) (po ++ pk ++ va ++ ko ++ vk) ->
    read_sig (lex LS0 (sig_str (mkSig (po ++ pk ++ va ++ ko ++ vk) ret))) =
    Some (mkSig (po ++ pk ++ va ++ ko ++ vk) ret).
Proof. exact sig_str_roundtrip. Qed.

(* From the definition as written (src_sig: every parameter with its own default/annotation) through the
   record the parser builds (to_ast: right-aligned `defaults`, per-parameter `kw_defaults`) and pydoctor:
   the Signature holds exactly the written parameters (params_of_src) with each annotation replaced by
   what unstring_annotation shows for it, the return annotation likewise and dropped when (after
   unstringing) it is the constant None -- shown_sig s -- one report per annotation that cannot be
   unstrung; and the text format_signature displays reads back as exactly that. *)
Theorem C14_roundtrip :
  forall (s : src_sig) (ov asy : bool),
    valid_src s -> NoDup (src_names s) -> Forall name_ok (src_names s) -> ~ In return_key (src_names s) ->
    handle_signature (mkDef (to_ast s) (s_returns s) ov asy) = Ok (shown_sig s, annotation_reports s)
    /\ read_sig (lex LS0 (format_signature (Some (shown_sig s)))) = Some (shown_sig s).
Proof.
  intros s ov asy Hv Hnd Hn Hr.
  exact (conj (handle_signature_src s ov asy Hv Hnd Hr) (displayed_roundtrip s Hv Hn)).
Qed.

(* ---- string annotations ----------------------------------------------------------------------------- *)
(* unstring_annotation e returns e' without reporting iff e' is e with every string constant replaced by
   the expression it spells, recursively, except inside Literal[...] (Spec.SigStr.unstrung); it reports iff
   some string that would have to be replaced spells no expression (bad_string), and then hands back the
   original object as the in-place transformer left it (Model.Sig.after). *)
Theorem C14_unstring :
  forall e,
    (forall e', unstring_annotation e = (e', false) <-> unstrung e e') /\
    (snd (unstring_annotation e) = true <-> bad_string e) /\
    (bad_string e -> unstring_annotation e = (after e, true)).
Proof. exact unstring_annotation_spec. Qed.

(* ... and what is handed back then is still the written annotation with some of its strings unquoted (each one
   completely), none of them inside Literal[...] (Spec.SigStr.partly) *)
Theorem C14_unstring_failure_keeps_annotation : forall e, partly e (after e).
Proof. exact after_partly. Qed.

(* ---- overloads -------------------------------------------------------------------------------------- *)
(* @overload definitions followed by the implementation: the Function keeps one Signature per overload, each
   computed from its own definition (sig_of), in source order; the entry shows one definition line per
   overload and the implementation's signature is not shown. *)
Theorem C14_overloads :
  forall name ovs prim,
    Forall kw_wf ovs -> kw_wf prim -> Forall (fun d => fd_overload d = true) ovs -> fd_overload prim = false ->
    ovs <> [] ->
    exists f,
      handle_defs None (ovs ++ [prim]) = Ok (Some f, flat_map reports_of (ovs ++ [prim])) /\
      fn_overloads f = map sig_of ovs /\ fn_signature f = Some (sig_of prim) /\
      displayed_defs name f =
      map (fun d => format_function_def name (fd_async prim) false (Some (sig_of d))) ovs.
Proof. exact overloads_then_primary. Qed.

(* a definition is an overload as soon as ANY of its decorators is typing.overload -- above or below
   @staticmethod / @classmethod / other decorators *)
Theorem C14_overload_detection : forall decos : list bool, is_overload_func decos = true <-> In true decos.
Proof. exact is_overload_func_any. Qed.

(* only overloads (stub files) *)
Theorem C14_overloads_only :
  forall name ovs,
    Forall kw_wf ovs -> Forall (fun d => fd_overload d = true) ovs -> ovs <> [] ->
    exists f,
      handle_defs None ovs = Ok (Some f, flat_map reports_of ovs) /\
      fn_overloads f = map sig_of ovs /\ fn_signature f = None /\
      displayed_defs name f = map (fun d => format_function_def name (fn_async f) false (Some (sig_of d))) ovs.
Proof. exact overloads_only. Qed.

(* no overloads: the definition itself is shown *)
Theorem C14_no_overloads :
  forall name prim,
    kw_wf prim -> fd_overload prim = false ->
    handle_defs None [prim] = Ok (Some (mkFun (Some (sig_of prim)) [] (fd_async prim)), reports_of prim ++ []) /\
    displayed_defs name (mkFun (Some (sig_of prim)) [] (fd_async prim)) =
    [format_function_def name (fd_async prim) false (Some (sig_of prim))].
Proof. exact primary_alone. Qed.

(* ---- non-vacuity and witnesses ---------------------------------------------------------------------- *)
(*  def f(a, b: "int" = D1, /, c=D2, *args, k: "1 +" = D3, **kw) -> "None": ...   (names are code points) *)
Definition w_D (n : N) : SigStr.expr := ENode n [].
Definition w_src : src_sig :=
  mkSrc [mkSparam [97%N] None None; mkSparam [98%N] (Some (EStr 1 (Some (EName [105; 110; 116]%N)))) (Some (w_D 1))]
        [mkSparam [99%N] None (Some (w_D 2))]
        (Some (mkSvar [97; 114; 103; 115]%N None))
        [mkSparam [107%N] (Some (EStr 2 None)) (Some (w_D 3))]
        (Some (mkSvar [107; 119]%N None))
        (Some (EStr 3 (Some ENoneLit))).

Example C14_roundtrip_hypotheses_satisfiable :
  valid_src w_src /\ NoDup (src_names w_src) /\ Forall name_ok (src_names w_src) /\ ~ In return_key (src_names w_src)
  /\ wf_args (to_ast w_src)
  /\ defaults (to_ast w_src) = [w_D 1; w_D 2]
  /\ shown_sig w_src =
     mkSig [mkParam [97%N] POSITIONAL_ONLY None None;
            mkParam [98%N] POSITIONAL_ONLY (Some (w_D 1)) (Some (EName [105; 110; 116]%N));
            mkParam [99%N] POSITIONAL_OR_KEYWORD (Some (w_D 2)) None;
            mkParam [97; 114; 103; 115]%N VAR_POSITIONAL None None;
            mkParam [107%N] KEYWORD_ONLY (Some (w_D 3)) (Some (EStr 2 None));
            mkParam [107; 119]%N VAR_KEYWORD None None] None
  /\ annotation_reports w_src = [SyntaxErrorInAnnotation].
Proof.
  split; [reflexivity|].
  split; [vm_compute; repeat constructor; cbn; intuition discriminate|].
  split; [vm_compute; repeat constructor; discriminate|].
  split; [vm_compute; intuition discriminate|].
  split; [vm_compute; split; auto|].
  split; [reflexivity|].
  split; vm_compute; reflexivity.
Qed.

(* the displayed text of the witness: (a, b: <int> = <D1>, /, c=<D2>, *args, k: <'1 +'> = <D3>, **kw)  *)
Example C14_witness_text :
  format_signature (Some (shown_sig w_src)) =
  [PC 40; PC 97; PC 44; PC 32; PC 98; PC 58; PC 32; PE (EName [105; 110; 116]); PC 32; PC 61; PC 32; PE (w_D 1);
   PC 44; PC 32; PC 47; PC 44; PC 32; PC 99; PC 61; PE (w_D 2); PC 44; PC 32; PC 42; PC 97; PC 114; PC 103; PC 115;
   PC 44; PC 32; PC 107; PC 58; PC 32; PE (EStr 2 None); PC 32; PC 61; PC 32; PE (w_D 3); PC 44; PC 32;
   PC 42; PC 42; PC 107; PC 119; PC 41]%N.
Proof. vm_compute. reflexivity. Qed.

(* The NoDup hypothesis of C14_roundtrip is needed: `def f(a, a)` is accepted by ast.parse (the duplicate is
   only rejected when compiling), Signature(...) raises ValueError and pydoctor shows `()` with a report.
   Such a definition is not valid Python, so the property does not speak about it. *)
Definition w_dup : funcdef :=
  mkDef (mkArgs [] [mkArg [97%N] None; mkArg [97%N] None] None [] [] None []) None false false.
Example C14_duplicate_names_refuted :
  handle_signature w_dup = Ok (mkSig [] None, [InvalidParams DuplicateName])
  /\ format_signature (Some (mkSig [] None)) = [PC 40; PC 41]%N.
Proof. split; vm_compute; reflexivity. Qed.

(* hypotheses of C14_overloads are satisfiable: two overloads and an implementation *)
Definition w_ov1 : funcdef := mkDef (mkArgs [] [mkArg [97%N] (Some (EName [105; 110; 116]%N))] None [] [] None []) None true false.
Definition w_ov2 : funcdef := mkDef (mkArgs [mkArg [97%N] None] [] None [] [] None [w_D 1]) (Some (EName [115]%N)) true false.
Definition w_impl : funcdef := mkDef (mkArgs [] [mkArg [97%N] None] None [] [] None []) None false false.
Example C14_overloads_hypotheses_satisfiable :
  Forall kw_wf [w_ov1; w_ov2] /\ kw_wf w_impl /\
  Forall (fun d => fd_overload d = true) [w_ov1; w_ov2] /\ fd_overload w_impl = false /\
  map (fun s => lex LS0 (sig_str s)) (map sig_of [w_ov1; w_ov2]) =
  [[TL; TName [97%N]; TColon; TExpr (EName [105; 110; 116]%N); TR];
   [TL; TName [97%N]; TEq; TExpr (w_D 1); TComma; TSlash; TR; TArrow; TExpr (EName [115%N])]].
Proof.
  split; [repeat constructor|]. split; [reflexivity|]. split; [repeat constructor|]. split; [reflexivity|].
  vm_compute. reflexivity.
Qed.

(* in-place partial unstringing on failure: "int" | X["1 +"]  is handed back as  int | X["1 +"] *)
Example C14_unstring_partial_witness :
  let e := ENode 7 [EStr 1 (Some (EName [105; 110; 116]%N)); ESub (EName [88%N]) (EStr 2 None)] in
  bad_string e /\
  unstring_annotation e = (ENode 7 [EName [105; 110; 116]%N; ESub (EName [88%N]) (EStr 2 None)], true).
Proof.
  split.
  - apply B_node. apply Exists_cons_tl. apply Exists_cons_hd.
    apply B_sub_s with (EName [88%N]); [constructor | reflexivity | constructor].
  - vm_compute. reflexivity.
Qed.

(* ---- the tie to the source: the code itself ------------------------------------------------------------ *)
(* Gen/SigCode.v is written on every run by harness/gen/gen_c14_code.py (fail-closed) from the CURRENT source of
   ModuleVistor._annotations_from_function and of the part of ModuleVistor._handleFunctionDef that builds
   `parameters`; Model/SigIR.v gives that code its meaning.  For every definition:
   the mapping the translated _annotations_from_function returns is the model's annotations_from_function ... *)
Theorem C14_code_annotations_is_model :
  forall d : funcdef,
    annotations_ir sig_code (VDef d) = VDict (fst (annotations_from_function (fd_args d) (fd_returns d))).
Proof. exact code_annotations_is_model. Qed.

(* ... and for every ast.arguments record the parser can produce, the inspect parameters the translated
   _handleFunctionDef appends to `parameters` are exactly the model's build_params (hence, by C14_default_alignment /
   C14_kinds_order / C14_roundtrip above, right-aligned defaults, kinds in order, display that reads back). *)
Theorem C14_code_parameters_is_model :
  forall d : funcdef,
    wf_args (fd_args d) ->
    exists ps,
      build_params (fst (annotations_from_function (fd_args d) (fd_returns d))) (fd_args d) = Ok ps /\
      parameters_ir sig_code d = map VParam ps.
Proof. exact code_parameters_build_params. Qed.

(* the property on the translated code directly: parameter k of the code's output has the default the record means *)
Theorem C14_code_default_alignment :
  forall d : funcdef,
    wf_args (fd_args d) ->
    exists ps,
      parameters_ir sig_code d = map VParam ps /\
      map pname ps = map a_name (all_args (fd_args d)) /\
      map pdefault ps =
      aligned_defaults (length (posonlyargs (fd_args d)) + length (args (fd_args d))) (defaults (fd_args d))
      ++ opt_none (vararg (fd_args d)) ++ kw_defaults (fd_args d) ++ opt_none (kwarg (fd_args d)).
Proof.
  intros d H. eexists. split; [apply code_parameters_is_model; exact H|].
  exact (conj (expected_params_names _ _ H) (expected_params_defaults _ _ H)).
Qed.

(* non-vacuity: the translated code, run on the witness definition of C14_roundtrip_hypotheses_satisfiable *)
Example C14_code_runs_on_witness :
  wf_args (to_ast w_src) /\
  all_params (parameters_ir sig_code (mkDef (to_ast w_src) (s_returns w_src) false false)) = Some (sig_params (shown_sig w_src)).
Proof. split; [vm_compute; split; auto | vm_compute; reflexivity]. Qed.
