(* Props/C20.v -- C20: options mean the same on the command line and in a config file; what is written
   quoted is read back as the same text.
   Only statements closed by `exact`; proofs live in Proofs/QuoteProofs.v and Proofs/ConfigProofs.v.

   Models   : Model/Quote.v (is_quoted, unquote_str over the regexes regenerated from the source),
              Model/IniValue.v, Model/TomlValue.v (the two config file parsers), Model/Validator.v (unknown keys),
              Model/Merge.v (configargparse's contract, third party: a stated oracle), Model/Options.v (pipeline).
   Specs    : Spec/PyStrLit.v (CPython string literals, repr, the quoting functions), Spec/PyListLit.v.
   Generated: Gen/TablesC20.v (option table of the live parser, both regexes, section names).  *)
From Coq Require Import ZArith NArith List Bool.
From PydoctorVerif Require Import Base.Sexp Model.ReDeriv Model.OptTypes Gen.TablesC20 Spec.PyStrLit Spec.PyListLit
     Model.Quote Model.IniValue Model.TomlValue Model.Validator Model.Merge Model.Options
     Proofs.QuoteProofs Proofs.ConfigProofs.
From PydoctorVerif Require Model.IniIR Gen.IniCode Proofs.IniIRProofs.
Import ListNotations.
Local Open Scope N_scope.

Definition k_project_name : text := [112;114;111;106;101;99;116;45;110;97;109;101].
Definition k_privacy : text := [112;114;105;118;97;99;121].

(* ================================================================== quoting *)

(* _QUOTED_STR_REGEX, as it is in the source now, accepts exactly  q ( \\. | [^q\\] )* q  (+ one final LF)
   for q = double quote or single quote.  A change of the pattern breaks this theorem (quoted_re is regenerated). *)
Theorem C20_quoted_regex_is_recogniser :
  forall s, re_match quoted_re s = simple_rec 34 s || simple_rec 39 s.
Proof. exact quoted_regex_is_recogniser. Qed.

(* Every Python str s (code points below 0x110000; `printable` is any predicate that, like CPython's, holds of
   no surrogate): repr(s) is recognised as quoted and unquote_str gives back s; likewise for the double-quote
   quoting function that escapes backslash, double quote, LF, CR, NUL and surrogates. *)
Theorem C20_quote_roundtrip :
  forall (printable : N -> bool) (s : text) (triple : bool),
    Forall (repr_valid printable) s ->
    is_quoted (py_repr printable s) triple = true /\
    unquote_str (py_repr printable s) triple = UOk s /\
    is_quoted (dq_quote_full s) triple = true /\
    unquote_str (dq_quote_full s) triple = UOk s.
Proof.
  intros printable s triple H.
  assert (H' : Forall (fun c => c < 1114112) s).
  { eapply Forall_impl; [|exact H]. intros c [Hc _]. exact Hc. }
  split; [|split; [|split]].
  - exact (is_quoted_simple (repr_quote s) _ triple (repr_quote_is_quote s) (repr_is_quoted printable s H)).
  - exact (unquote_repr printable s triple H).
  - exact (is_quoted_simple 34 _ triple (or_introl eq_refl)
             (dq_is_quoted dq_char_full (fun c => c < 1114112) dq_char_full_shape s H')).
  - exact (unquote_dq_full s triple H').
Qed.

(* DESIGN.md's minimal double-quote function (only backslash, double quote and LF escaped) round-trips every
   text whose characters may stand verbatim in a one-line literal: no CR, NUL, surrogate *)
Theorem C20_dq_quote_roundtrip_partial :
  forall (s : text) (triple : bool),
    Forall (fun c => raw_ok c = true) s -> unquote_str (dq_quote s) triple = UOk s.
Proof. exact unquote_dq. Qed.

(* ... and the guard is needed: a raw CR between the quotes is not a string literal (ValueError).
   This is a limit of that quoting function, not of pydoctor: CPython reads CR as a line end. *)
Theorem C20_dq_quote_cr_refuted :
  exists s, unquote_str (dq_quote s) true <> UOk s.
Proof. exists [97; 13; 98]. vm_compute. discriminate. Qed.

(* Soundness of is_quoted, stated exactly: a text accepted in single- or double-quote form (free of NUL,
   surrogates and CR) evaluates to a string if and only if there is no raw LF before the closing quote, every
   \x \u \U escape has its 2/4/8 hexadecimal digits (\U below 0x110000) and there is no \N escape (lit_ok).
   In all other accepted cases unquote_str raises ValueError -> configuration error (or, for \N{name}, the
   result depends on the Unicode name database and is left undecided). *)
Theorem C20_is_quoted_sound_partial :
  forall (q : N) (r : text),
    q = 34 \/ q = 39 -> simple_rec q (q :: r) = true ->
    existsb bad_source_char (q :: r) = false -> ~ In 13 (q :: r) ->
    ((exists t, unquote_str (q :: r) true = UOk t) <-> lit_ok q r = true).
Proof. exact accepted_is_literal_iff. Qed.

(* the excluded classes are inhabited: accepted by is_quoted, rejected by literal_eval *)
Theorem C20_is_quoted_sound_refuted :
  (* '\x1' *)      (is_quoted [39; 92; 120; 49; 39] true = true /\ unquote_str [39; 92; 120; 49; 39] true = UValueError) /\
  (* '\u12' *)     (is_quoted [39; 92; 117; 49; 50; 39] true = true /\ unquote_str [39; 92; 117; 49; 50; 39] true = UValueError) /\
  (* '\U00110000' *) (is_quoted [39; 92; 85; 48; 48; 49; 49; 48; 48; 48; 48; 39] true = true /\
                      unquote_str [39; 92; 85; 48; 48; 49; 49; 48; 48; 48; 48; 39] true = UValueError) /\
  (* 'a<LF>b' *)   (is_quoted [39; 97; 10; 98; 39] true = true /\ unquote_str [39; 97; 10; 98; 39] true = UValueError) /\
  (* '\N{DASH}' *) (is_quoted [39; 92; 78; 123; 68; 65; 83; 72; 125; 39] true = true /\
                    unquote_str [39; 92; 78; 123; 68; 65; 83; 72; 125; 39] true = UUnsup).
Proof. vm_compute. repeat split. Qed.

(* ================================================================== one INI value *)

(* a value that is not empty, not of the form [...], not recognised as quoted and has no inner LF is passed verbatim *)
Theorem C20_unquoted_identity :
  forall (split : bool) (v : text),
    v <> [] ->
    starts_with 91 v && ends_with 93 v = false ->
    is_quoted v true = false ->
    existsb (N.eqb 10) (rstrip_nl v) = false ->
    ini_value split v = IVal (VStr v).
Proof. exact ini_value_verbatim. Qed.

(* in particular every one-line value that starts with neither a quote nor `[` *)
Theorem C20_unquoted_identity_syntactic :
  forall (split : bool) (c : N) (r : text),
    c <> 34 -> c <> 39 -> c <> 91 -> ~ In 10 (c :: r) ->
    ini_value split (c :: r) = IVal (VStr (c :: r)).
Proof. exact ini_value_plain. Qed.

(* what is written quoted is read back as the same text: through IniConfigParser's decision tree *)
Theorem C20_ini_quoted_roundtrip :
  forall (printable : N -> bool) (split : bool) (s : text),
    Forall (repr_valid printable) s ->
    ini_value split (py_repr printable s) = IVal (VStr s) /\
    ini_value split (dq_quote_full s) = IVal (VStr s).
Proof.
  intros printable split s H. split.
  - exact (ini_value_repr printable split s H).
  - apply ini_value_dq_full. eapply Forall_impl; [|exact H]. intros c [Hc _]. exact Hc.
Qed.

(* repeated options in setup.cfg style: one item per non-empty line, in order *)
Theorem C20_ini_multiline_accumulates :
  forall (x y : text) (l : list text),
    let items := x :: y :: l in
    let v := join_nl items in
    Forall no_lf items -> Forall (fun t => t <> []) items ->
    starts_with 91 v && ends_with 93 v = false -> is_quoted v true = false ->
    ini_value true v = IVal (VList items).
Proof. exact ini_value_multiline. Qed.

(* repeated options written as a Python list display of repr-quoted items:  key = ['a', 'b', ...]  is read back as
   exactly those items, in order (for every list of Python strs) *)
Theorem C20_ini_list_display_roundtrip :
  forall (printable : N -> bool) (split : bool) (items : list text),
    Forall (Forall (repr_valid printable)) items ->
    ini_value split (list_display (py_repr printable) items) = IVal (VList items).
Proof. exact ini_value_repr_list. Qed.

(* ================================================================== unknown keys *)

(* ValidatorParser on a dict (distinct keys): the result is the sub-list of entries with known keys, order and
   values kept; the warnings are the unknown keys in order, one each.  The model is total: no exception. *)
Theorem C20_validator :
  forall (V : Type) (table : list opt) (data : list (text * V)),
    NoDup (map fst data) ->
    validate table data = (keep_known (known_keys table) data, unknown_keys (known_keys table) data) /\
    (forall k v, In (k, v) (fst (validate table data)) -> In k (known_keys table) /\ In (k, v) data) /\
    NoDup (snd (validate table data)) /\
    (forall k, In k (snd (validate table data)) <-> (In k (map fst data) /\ ~ In k (known_keys table))).
Proof.
  intros V table data H. split; [|split].
  - exact (validate_spec V table data H).
  - intros k v. exact (validate_keys_known V table data k v H).
  - exact (validate_warnings V table data H).
Qed.

(* ================================================================== file = command line, under the merge contract *)

(* for ANY well-formed option table (option strings identify one action): *)
Theorem C20_file_equals_cli :
  forall (table : list opt), table_wf table ->
  (* a value: key = v  is  --opt=v , whichever spelling of the option *)
  (forall key o v s, find_by_key table key = Some o -> is_flag_kind (o_kind o) = false -> In s (o_strings o) ->
     parse_known_args table [[(key, VStr v)]] [] = parse_known_args table [] [val_tok s v]) /\
  (* a list on an append action: one --opt=elem per element, in order *)
  (forall key o l s, find_by_key table key = Some o -> o_kind o = KAppend -> In s (o_strings o) ->
     parse_known_args table [[(key, VList l)]] [] = parse_known_args table [] (map (val_tok s) l)) /\
  (* flags: true/yes/on/1 is the bare flag, false/no/off/0 is its absence, a count n is the flag n times *)
  (forall key o w s, find_by_key table key = Some o -> is_flag_kind (o_kind o) = true -> In s (o_strings o) ->
     is_ascii w = true -> mem_text (lower w) w_true = true ->
     parse_known_args table [[(key, VStr w)]] [] = parse_known_args table [] [flag_tok s]) /\
  (forall key o w, find_by_key table key = Some o -> is_flag_kind (o_kind o) = true ->
     is_ascii w = true -> mem_text (lower w) w_true = false -> mem_text (lower w) w_false = true ->
     parse_known_args table [[(key, VStr w)]] [] = parse_known_args table [] []) /\
  (forall key o w z s, find_by_key table key = Some o -> o_kind o = KCount -> In s (o_strings o) ->
     is_ascii w = true -> mem_text (lower w) w_true = false -> mem_text (lower w) w_false = false ->
     py_int w = IntOk z ->
     parse_known_args table [[(key, VStr w)]] [] = parse_known_args table [] (repeat (flag_tok s) (Z.to_nat z))).
Proof.
  intros table wf. split; [|split; [|split; [|split]]].
  - exact (file_value_equals_cli table wf).
  - exact (file_list_equals_cli table wf).
  - exact (file_true_equals_flag table wf).
  - exact (file_false_equals_absent table).
  - exact (file_count_equals_repeated_flag table wf).
Qed.

(* the command line overrides the file: every file entry whose action is named on the command line is dropped,
   the others are kept (for append actions too: pydoctor's documentation says repeatable options are overridden,
   not merged) *)
Theorem C20_cli_overrides_file :
  forall (table : list opt) (items : list (text * cval)) (cli : list tok),
    parse_known_args table [items] cli
    = parse_known_args table [filter (fun kv => negb (overridden table cli kv)) items] cli.
Proof. exact cli_overrides_file. Qed.

(* repeated options accumulate in order *)
Theorem C20_append_accumulates :
  forall (table : list opt) (o : opt) (s : text) (l : list text),
    table_wf table -> In o table -> In s (o_strings o) -> o_kind o = KAppend -> l <> [] ->
    parse_known_args table [] (map (val_tok s) l)
    = MOk (dict_set (o_dest o) (NList (ns_list (default_ns table) (o_dest o) ++ l)) (default_ns table)).
Proof. exact append_accumulates_in_order. Qed.

(* the table pydoctor has NOW is well-formed, and every config key of every option resolves to that option *)
Theorem C20_option_table_wf :
  table_wf option_table /\
  (forall o k, In o option_table -> In k (o_keys o) -> find_by_key option_table k = Some o) /\
  map parse_toml_section_name config_sections = config_section_paths.
Proof.
  split; [exact option_table_wf | split; [exact option_key_resolves | exact section_paths_agree]].
Qed.

(* ================================================================== the whole pipeline, for every option of the live parser *)

(* composite parser (TOML, then INI) -> ValidatorParser -> configargparse -> parse_args:
   a file that yields  key = v  for a key of option o  is  --opt=v  (any spelling), for EVERY non-flag option *)
Theorem C20_pipeline_file_equals_cli :
  forall (f : file_view) (o : opt) (key v s : text),
    In o option_table -> In key (o_keys o) -> is_flag_kind (o_kind o) = false -> In s (o_strings o) ->
    composite_parse config_sections ini_split_ml f = POk [(key, VStr v)] ->
    pydoctor_parse_args [f] [] = pydoctor_parse_args [] [val_tok s v].
Proof. exact pipeline_value_equals_cli. Qed.

Theorem C20_pipeline_list_equals_cli :
  forall (f : file_view) (o : opt) (key : text) (l : list text) (s : text),
    In o option_table -> In key (o_keys o) -> o_kind o = KAppend -> In s (o_strings o) ->
    composite_parse config_sections ini_split_ml f = POk [(key, VList l)] ->
    pydoctor_parse_args [f] [] = pydoctor_parse_args [] (map (val_tok s) l).
Proof. exact pipeline_list_equals_cli. Qed.

Theorem C20_pipeline_cli_overrides :
  forall (f : file_view) (o : opt) (key : text) (v : cval) (cli : list tok),
    In o option_table -> In key (o_keys o) -> on_command_line o cli = true ->
    composite_parse config_sections ini_split_ml f = POk [(key, v)] ->
    pydoctor_parse_args [f] cli = pydoctor_parse_args [] cli.
Proof. exact pipeline_cli_overrides. Qed.

(* an unknown key is warned about (once), not applied, and does not abort *)
Theorem C20_pipeline_unknown_key :
  forall (f : file_view) (key : text) (v : cval) (cli : list tok),
    ~ In key (known_keys option_table) ->
    composite_parse config_sections ini_split_ml f = POk [(key, v)] ->
    pydoctor_parse_args [f] cli
    = match pydoctor_parse_args [] cli with
      | RunOk ns _ => RunOk ns [key]
      | r => r
      end.
Proof. exact pipeline_unknown_key. Qed.

(* the three files: what the composite parser makes of  key = <value>  *)
Theorem C20_file_forms :
  (* pyproject.toml  [tool.pydoctor]  key = t (a TOML string) *)
  (forall key t, composite_parse config_sections ini_split_ml (toml_file key (TStr t)) = POk [(key, VStr t)]) /\
  (* pyproject.toml  key = [ ... ] *)
  (forall key l ts, strs l = Some ts ->
     composite_parse config_sections ini_split_ml (toml_file key (TList l)) = POk [(key, VList ts)]) /\
  (* setup.cfg / pydoctor.ini (a file that is not valid TOML), any of the three section names *)
  (forall section key x v, mem_text section config_sections = true -> ini_value ini_split_ml x = IVal v ->
     composite_parse config_sections ini_split_ml (ini_file section key x) = POk [(key, v)]).
Proof.
  split; [exact toml_file_parse | split; [exact toml_file_parse_list | exact ini_file_parse]].
Qed.

(* what is written quoted in an INI file is the command-line value -- for a file that the TOML parser rejects
   (fv_toml = None in ini_file: that is the guard), any of the three section names, every non-flag option *)
Theorem C20_ini_quoted_file_equals_cli_partial :
  forall (printable : N -> bool) (section : text) (o : opt) (key s opt_string : text),
    mem_text section config_sections = true ->
    In o option_table -> In key (o_keys o) -> is_flag_kind (o_kind o) = false -> In opt_string (o_strings o) ->
    Forall (repr_valid printable) s ->
    pydoctor_parse_args [ini_file section key (py_repr printable s)] [] = pydoctor_parse_args [] [val_tok opt_string s].
Proof.
  intros printable section o key s opt_string Hsec Ho Hk Hf Hs Hv.
  apply (pipeline_value_equals_cli _ o key s opt_string Ho Hk Hf Hs).
  apply ini_file_parse; [exact Hsec | apply ini_value_repr; exact Hv].
Qed.

(* ... and without the guard it is false (known finding C20-K1): CompositeConfigParser tries TOML first on every
   file.  pydoctor.ini holding   [pydoctor] / project-name = 'a\\b'   (the repr of a, backslash, b) is valid TOML,
   where a single-quoted string is literal: toml.load gives a, backslash, backslash, b. *)
Definition k1_value : text := [97; 92; 98].                                   (* a \ b *)
Definition k1_written : text := [39; 97; 92; 92; 98; 39].                     (* 'a\\b' = repr *)
Definition k1_file : file_view :=
  {| fv_toml := Some [(s_pydoctor, TTable [(k_project_name, TStr [97; 92; 92; 98])])];
     fv_ini := Some [(s_pydoctor, [(k_project_name, k1_written)])] |}.
Theorem C20_ini_named_file_valid_toml_refuted :
  py_repr (fun _ => true) k1_value = k1_written /\
  pydoctor_parse_args [k1_file] [] <> pydoctor_parse_args [] [val_tok (45 :: 45 :: k_project_name) k1_value] /\
  pydoctor_parse_args [ini_file s_pydoctor k_project_name k1_written] []
  = pydoctor_parse_args [] [val_tok (45 :: 45 :: k_project_name) k1_value].
Proof. split; [reflexivity | split; [vm_compute; discriminate | vm_compute; reflexivity]]. Qed.

(* no history: the composite parser keeps no state between parses, so what is read from a config file is
   composite_parse of that file, whichever files the same process has read before (several default files in one
   directory, several --config files, several Options.from_args calls) *)
Theorem C20_parse_history_independent :
  forall (sections : list text) (split : bool) (before : list file_view) (f : file_view) (after : list file_view),
    nth (length before) (parse_history sections split pydoctor_parsers (before ++ f :: after)) PError
    = composite_parse sections split f.
Proof. exact parse_history_independent. Qed.

(* ================================================================== section lookup *)

(* TOML: the first of the configured sections that exists and is a non-empty table is used, alone *)
Theorem C20_section_lookup_toml :
  forall (pre : list (list text)) (p : list text) (post : list (list text)) data kv,
    Forall (toml_absent data) pre -> get_toml_section data p = SFound kv -> kv <> [] ->
    toml_sections (pre ++ p :: post) data = toml_items kv [].
Proof. exact toml_first_section_wins. Qed.

(* INI: section names are compared exactly; when one of the configured names occurs in the file it is used and
   sections with other names contribute nothing.  (When several configured names occur in one INI file they are
   merged in file order -- that is what the code does; the property does not speak about it.) *)
Theorem C20_section_lookup_ini_partial :
  forall sections split pre name items post,
    mem_text name sections = true ->
    Forall (fun s => mem_text (fst s) sections = false) pre ->
    Forall (fun s => mem_text (fst s) sections = false) post ->
    ini_parse sections split (pre ++ (name, items) :: post) = ini_items split items [].
Proof. exact ini_single_section. Qed.

(* ================================================================== the code itself
   Gen/IniCode.v is the translation (harness/gen/gen_c20_code.py, regenerated on every run) of the CURRENT bodies of
   is_quoted, unquote_str and of the item loop of IniConfigParser.parse into the language of Model/IniIR.v.
   Interpreting that code is the hand-written model, for every input -- so every theorem above about
   Model.Quote / Model.IniValue is a theorem about what the source says now, up to the primitives listed in IniIR.v. *)
Theorem C20_code_is_quoted_is_model :
  forall (s : text) (triple : bool),
    IniIR.is_quoted_ir IniCode.ini_code (IniIR.VStr s) (IniIR.VBool triple) = IniIR.EV (IniIR.VBool (is_quoted s triple)).
Proof. exact IniIRProofs.is_quoted_code. Qed.

Theorem C20_code_unquote_str_is_model :
  forall (s : text) (triple : bool),
    IniIR.unquote_str_ir IniCode.ini_code (IniIR.VStr s) (IniIR.VBool triple)
    = match unquote_str s triple with
      | UOk t => IniIR.EV (IniIR.VStr t)
      | UValueError => IniIR.ERaise IniIR.XValueError
      | UUnsup => IniIR.EUnsup
      end.
Proof. exact IniIRProofs.unquote_str_code. Qed.

(* one (key, value) item of a section: never stuck, and exactly the decision tree of Model.IniValue.ini_value *)
Theorem C20_code_ini_item_is_model :
  forall (split : bool) (k v : text), IniIR.item_ir IniCode.ini_code split k v = Some (ini_value split v).
Proof. exact IniIRProofs.item_code. Qed.

Theorem C20_code_ini_parse_is_model :
  forall (sections : list text) (split : bool) (secs : list (text * list (text * text))),
    IniIR.ini_parse_ir IniCode.ini_code sections split secs = Some (ini_parse sections split secs).
Proof. exact IniIRProofs.ini_parse_code. Qed.

(* ================================================================== non-vacuity *)
Definition v_weird : text := [105;116;39;115;32;34;92;34;10;233].   (* i t apostrophe s space dquote backslash dquote LF e-acute *)

(* the hypotheses of the pipeline theorems are met by real options, and the conclusions say something *)
Example C20_hypotheses_satisfiable :
  (exists o, In o option_table /\ In k_project_name (o_keys o) /\ is_flag_kind (o_kind o) = false) /\
  (exists o, In o option_table /\ In k_privacy (o_keys o) /\ o_kind o = KAppend) /\
  Forall (repr_valid (fun _ => true)) [97] /\
  ini_value true (py_repr (fun c => N.eqb c 233) v_weird) = IVal (VStr v_weird) /\
  pydoctor_parse_args [ini_file [112;121;100;111;99;116;111;114] k_project_name (py_repr (fun c => N.eqb c 233) v_weird)] []
  = pydoctor_parse_args [] [val_tok (45 :: 45 :: k_project_name) v_weird] /\
  (exists ns, pydoctor_parse_args [toml_file k_privacy (TList [TStr [97;58;98]; TStr [99;58;100]])] [] = RunOk ns [] /\
              ns_get ns k_privacy = NList [[97;58;98]; [99;58;100]]) /\
  (exists ns w, pydoctor_parse_args [toml_file [110;111;112;101] (TStr [120])] [] = RunOk ns w /\ w = [[110;111;112;101]]).
Proof.
  split; [|split; [|split; [|split; [|split; [|split]]]]].
  - destruct (find_by_key option_table k_project_name) as [o|] eqn:E; [| vm_compute in E; discriminate].
    exists o. destruct (find_by_key_in _ _ _ E) as [A B]. split; [exact A | split; [exact B|]].
    vm_compute in E. inversion E. reflexivity.
  - destruct (find_by_key option_table k_privacy) as [o|] eqn:E; [| vm_compute in E; discriminate].
    exists o. destruct (find_by_key_in _ _ _ E) as [A B]. split; [exact A | split; [exact B|]].
    vm_compute in E. inversion E. reflexivity.
  - repeat constructor; try (intros _; reflexivity).
  - vm_compute. reflexivity.
  - vm_compute. reflexivity.
  - eexists. split; vm_compute; reflexivity.
  - do 2 eexists. split; vm_compute; reflexivity.
Qed.
