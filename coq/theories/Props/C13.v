(* Props/C13.v -- C13: privacy rules mean what the manual says.
   Only statements closed by `exact` (+ vm_compute witnesses and non-vacuity Examples); proofs live in
   Proofs/QnMatchProofs.v and Proofs/PrivacyProofs.v.
   Models : Model/QnMatch.v (pydoctor/qnmatch.py), Model/Privacy.v (model.System.privacyClass, Module.privacyClass,
            utils.parse_privacy_tuple).
   Specs  : Spec/Glob.v (documented pattern meaning), Spec/PrivacySpec.v (documented precedence and default),
            Spec/ReFrag.v (CPython `re` on the fragment translate emits; trusted, validated by the harness).
   Argument order: qnmatch name pattern, as in the source. *)
From Coq Require Import NArith List Bool.
From PydoctorVerif Require Import Base.Sexp Spec.ReFrag Spec.Glob Spec.PrivacySpec Model.QnMatch Model.Privacy
  Model.QnMatchIR Model.PrivacyIR Gen.QnMatchCode Gen.PrivacyCode Proofs.QnMatchProofs Proofs.ReFragProofs
  Proofs.PrivacyProofs Proofs.QnMatchIRProofs Proofs.PrivacyIRProofs.
Import ListNotations.
Local Open Scope N_scope.

(* ---------------------------------------------------------------------------------------------------------
   Patterns.  For EVERY pattern without an inverted range and EVERY name (any length, any code points):
   the real pipeline  translate -> re.compile -> match  answers, and the answer is the documented meaning
   of the pattern on the WHOLE name ( * = run without dot, ** = any run, ? = one character,
   [seq] / [!seq] = one character in / not in the set, ranges as in fnmatch, unclosed [ literal). *)
Theorem C13_translate_meaning :
  forall (p n : text), wf_pattern p = true -> qnmatch n p = Ok (matches p n).
Proof. exact qnmatch_meaning. Qed.

(* the same meaning without computation: `matches` is the relation Spec.Glob.Matches on the lexed pattern *)
Theorem C13_meaning_is_relational :
  forall (p n : text), matches p n = true <-> Matches (lex p) n.
Proof. exact (fun p n => gmatch_Matches (lex p) n). Qed.

(* The executable matcher of Spec/ReFrag.v is not trusted: it decides the declarative language of the fragment
   (Spec.ReFrag.matches_re: one character per class, k*? any run of the class, concatenation, end anchor). *)
Theorem C13_matcher_decides :
  forall (r : regex) (n : text), match_items r n = true <-> matches_re r n.
Proof. exact match_items_spec. Qed.

(* a backtracking-free matcher (one pass per regex item over a table of suffixes) decides it too *)
Theorem C13_linear_matcher_decides :
  forall (r : regex) (n : text), match_linear r n = match_items r n /\ (match_linear r n = true <-> matches_re r n).
Proof. exact (fun r n => conj (match_linear_spec r n) (match_linear_decides r n)). Qed.

Theorem C13_class_decides :
  forall (k : cls) (x : N), cls_match k x = true <-> in_cls k x.
Proof. exact cls_match_spec. Qed.

(* C13_translate_meaning with relations on both sides: the regex that re.compile reads from translate(p) accepts
   exactly the names the manual says p matches, and qnmatch answers accordingly *)
Theorem C13_translate_meaning_declarative :
  forall p, wf_pattern p = true ->
    exists re, compile_pattern p = Ok re /\
               forall n, (qnmatch n p = Ok true <-> matches_re re n) /\
                         (qnmatch n p = Ok false <-> ~ matches_re re n) /\
                         (matches_re re n <-> Matches (lex p) n).
Proof. exact meaning_declarative. Qed.

(* The manual's examples, on the real pipeline, for every name and every literal prefix (a text without * ? [ ):
   a literal pattern matches exactly its own text (so as a rule it behaves like an exact rule);
   "twisted.test.*" matches exactly the names twisted.test.<run without dot>; "twisted.test.**" every extension. *)
Theorem C13_literal_pattern :
  forall p n, literal_text p -> (qnmatch n p = Ok true <-> n = p).
Proof. exact qnmatch_literal. Qed.

Theorem C13_prefix_star :
  forall p n, literal_text p ->
    (qnmatch n (p ++ [g_star]) = Ok true <-> exists u, n = p ++ u /\ no_dot u = true).
Proof. exact qnmatch_prefix_star. Qed.

Theorem C13_prefix_starstar :
  forall p n, literal_text p ->
    (qnmatch n (p ++ [g_star; g_star]) = Ok true <-> exists u, n = p ++ u).
Proof. exact qnmatch_prefix_starstar. Qed.

(* the layers, each for every pattern (no guard needed): what translate writes is the rendering of the lexed pattern *)
Theorem C13_translate_text :
  forall p, translate p = Ok (t_prefix ++ render (lex p) ++ t_suffix).
Proof. exact translate_render. Qed.

(* the unchanged tree violates the unguarded statement: an inverted range has no boolean answer, re.error escapes *)
Definition p_bad : text := [91; 122; 45; 97; 93].     (* [z-a] *)
Definition n_x : text := [120].                       (* x *)
Theorem C13_bad_range_refuted :
  wf_pattern p_bad = false /\ qnmatch n_x p_bad = Err BadRange /\
  ~ (forall p n, exists b, qnmatch n p = Ok b).
Proof.
  split; [vm_compute; reflexivity|]. split; [vm_compute; reflexivity|].
  intros H. destruct (H p_bad n_x) as [b Hb]. vm_compute in Hb. discriminate.
Qed.

(* ... and that is the only failure: for EVERY pattern and name, qnmatch answers the documented meaning when no
   range is inverted and raises re.error "bad character range" when one is (no other exception, never out of fuel) *)
Theorem C13_inverted_range_raises :
  forall (p n : text), wf_pattern p = false -> qnmatch n p = Err BadRange.
Proof. exact qnmatch_inverted. Qed.

Theorem C13_qnmatch_characterised :
  forall (p n : text), qnmatch n p = if wf_pattern p then Ok (matches p n) else Err BadRange.
Proof. exact qnmatch_characterised. Qed.

(* a rule with such a pattern aborts privacyClass when the pattern loop reaches it *)
Definition o_x : obj := {| o_full := n_x; o_name := n_x; o_has_kind := true; o_is_module := false |}.
Theorem C13_bad_range_rule_refuted :
  fst (system_privacyClass [(HIDDEN, p_bad)] [] o_x) = Err BadRange.
Proof. vm_compute. reflexivity. Qed.

(* in scope (not defects): a range is a range; a backslash in a set is a member, as is the letter after it *)
Example C13_range_and_backslash :
  qnmatch [98] [91; 97; 45; 99; 93] = Ok true /\                 (* [a-c] matches b *)
  qnmatch [92] [91; 92; 100; 93] = Ok true /\                    (* [\d] matches \ *)
  qnmatch [100] [91; 92; 100; 93] = Ok true /\                   (* [\d] matches d *)
  qnmatch [53] [91; 92; 100; 93] = Ok false /\                   (* [\d] does not match 5 *)
  wf_pattern [91; 92; 100; 93] = true.
Proof. vm_compute. repeat split; reflexivity. Qed.

(* non-vacuity of the guard, and whole-name anchoring on a concrete case:  **.__*__  *)
Definition p_dunder : text := [42; 42; 46; 95; 95; 42; 95; 95].
Example C13_guard_satisfiable :
  wf_pattern p_dunder = true /\
  qnmatch [97; 46; 95; 95; 100; 95; 95] p_dunder = Ok true /\          (* a.__d__   *)
  qnmatch [97; 46; 95; 95; 100; 95; 95; 120] p_dunder = Ok false /\    (* a.__d__x : no partial match *)
  qnmatch [97; 46; 95; 95; 100; 46; 95; 95] p_dunder = Ok false.       (* a.__d.__ : * does not cross a dot *)
Proof. vm_compute. repeat split; reflexivity. Qed.

(* ---------------------------------------------------------------------------------------------------------
   Default rule: with no rules (and nothing cached) an object with a kind is PRIVATE exactly when its name has
   a leading underscore and is not a dunder, PUBLIC otherwise. *)
Theorem C13_default_rule :
  forall o c, o_has_kind o = true -> cache_get c (o_full o) = None ->
    fst (system_privacyClass [] c o) = Ok (default_privacy (o_name o)) /\
    (default_privacy (o_name o) = PRIVATE <-> private_by_default (o_name o)) /\
    (default_privacy (o_name o) = PUBLIC <-> ~ private_by_default (o_name o)).
Proof.
  exact (fun o c Hk Hc => conj (default_rule o c Hk Hc) (default_privacy_spec (o_name o))).
Qed.

Example C13_default_rule_cases :
  default_privacy [95; 120] = PRIVATE /\ default_privacy [95; 95; 120; 95; 95] = PUBLIC /\
  default_privacy [95; 95; 120] = PRIVATE /\ default_privacy [120] = PUBLIC /\ default_privacy [95] = PRIVATE /\
  default_privacy [95; 95] = PUBLIC /\ default_privacy [] = PUBLIC.
Proof. vm_compute. repeat split; reflexivity. Qed.

(* ---------------------------------------------------------------------------------------------------------
   Precedence, for EVERY rule list whose patterns have a meaning: the level is that of the LAST rule whose
   pattern text equals the full name if there is one; otherwise that of the LAST rule whose pattern matches the
   full name (documented meaning); otherwise the default. *)
Theorem C13_precedence :
  forall (rules : list rule) (o : obj), rules_wf rules = true ->
    compute_privacy rules o =
    Ok (documented_privacy (text_eqb (o_full o)) (fun m => matches m (o_full o)) rules (default_privacy (o_name o))).
Proof. exact precedence. Qed.

(* TOTAL characterisation, for EVERY rule list (patterns may be meaningless): the last exact rule if any; otherwise
   the newest pattern rule that decides -- a rule decides when its pattern is meaningless (then privacyClass raises
   re.error) or matches the full name (then its level) --; otherwise the default. *)
Theorem C13_precedence_total :
  forall (rules : list rule) (o : obj),
    compute_privacy rules o =
    verdict_outcome (documented_verdict (text_eqb (o_full o)) wf_pattern (fun m => matches m (o_full o)) rules
                                        (default_privacy (o_name o))).
Proof. exact precedence_total. Qed.

(* privacyClass raises exactly when no exact rule decides and some meaningless rule is followed (command-line order)
   only by meaningful rules that do not match *)
Theorem C13_privacy_raises_iff :
  forall rules o,
    (exists e, compute_privacy rules o = Err e) <->
    last_rule (text_eqb (o_full o)) rules = None /\
    exists l1 p m l2, rules = l1 ++ (p, m) :: l2 /\ wf_pattern m = false /\
                      forall r, In r l2 -> wf_pattern (snd r) = true /\ matches (snd r) (o_full o) = false.
Proof. exact raises_iff. Qed.

Theorem C13_last_entry_meaning :
  forall test rules p m,
    last_entry test rules = Some (p, m) <->
    exists l1 l2, rules = l1 ++ (p, m) :: l2 /\ test m = true /\ forall r, In r l2 -> test (snd r) = false.
Proof. exact last_entry_spec. Qed.

Example C13_precedence_total_cases :
  compute_privacy [(PUBLIC, [42; 42]); (HIDDEN, p_bad)] o_x = Err BadRange /\          (* PUBLIC:**  HIDDEN:[z-a] : reached *)
  compute_privacy [(HIDDEN, p_bad); (PUBLIC, [42; 42])] o_x = Ok PUBLIC /\            (* HIDDEN:[z-a]  PUBLIC:** : not reached *)
  compute_privacy [(PRIVATE, n_x); (HIDDEN, p_bad)] o_x = Ok PRIVATE.                  (* exact rule decides first *)
Proof. vm_compute. repeat split; reflexivity. Qed.

(* an exact rule wins wherever it stands and whatever the pattern rules are (no guard on the patterns) *)
Theorem C13_exact_beats_patterns :
  forall rules o p, last_rule (text_eqb (o_full o)) rules = Some p -> compute_privacy rules o = Ok p.
Proof. exact exact_beats_patterns. Qed.

(* "last" means: some rule satisfies the test and no later rule does *)
Theorem C13_last_rule_meaning :
  forall test rules p,
    last_rule test rules = Some p <->
    exists l1 m l2, rules = l1 ++ (p, m) :: l2 /\ test m = true /\ forall r, In r l2 -> test (snd r) = false.
Proof. exact last_rule_spec. Qed.

(* text_eqb is equality of the pattern text and the full name *)
Theorem C13_exact_is_equality : forall a b, text_eqb a b = true <-> a = b.
Proof. exact text_eqb_eq. Qed.

Definition r_ex : list rule :=      (* PUBLIC:x  HIDDEN:*  PRIVATE:?  *)
  [(PUBLIC, n_x); (HIDDEN, [42]); (PRIVATE, [63])].
Example C13_precedence_satisfiable :
  rules_wf r_ex = true /\ compute_privacy r_ex o_x = Ok PUBLIC /\
  compute_privacy (tl r_ex) o_x = Ok PRIVATE /\ compute_privacy [(HIDDEN, [42])] o_x = Ok HIDDEN.
Proof. vm_compute. repeat split; reflexivity. Qed.

(* ---------------------------------------------------------------------------------------------------------
   Cache: for any sequence of queries over objects that are identified by their full name, the cached
   function answers what the uncached one answers (rules fixed during the run). *)
Theorem C13_cache_transparent :
  forall opts univ qs,
    same_key_same_object univ -> (forall o, In o qs -> In o univ) ->
    run_queries opts [] qs = map (uncached opts) qs.
Proof.
  exact (fun opts univ qs Hk Hin => cache_transparent opts univ qs [] Hk (cache_sound_empty opts univ) Hin).
Qed.

Example C13_cache_hypotheses_satisfiable :
  same_key_same_object [o_x] /\ run_queries r_ex [] [o_x; o_x] = [Ok PUBLIC; Ok PUBLIC].
Proof.
  split.
  - intros o1 o2 [<-|[]] [<-|[]] _. reflexivity.
  - vm_compute. reflexivity.
Qed.

(* isVisible / isPrivate are computed from privacyClass each time (nothing is stored on the object); any
   interleaving of privacyClass, isVisible (with its walk up the parents) and isPrivate queries against one System
   answers what the uncached definitions answer *)
Theorem C13_views_cache_transparent :
  forall opts univ qs,
    same_key_same_object univ ->
    (forall q x, In q qs -> In x (query_objs q) -> In x univ) ->
    run_asks opts [] qs = map (answer_uncached opts) qs.
Proof.
  exact (fun opts univ qs Hk Hin => asks_cache_transparent opts univ qs [] Hk (cache_sound_empty opts univ) Hin).
Qed.

(* visible exactly when the object and every ancestor have a level other than HIDDEN ... *)
Theorem C13_visible_iff :
  forall opts ps o,
    visible_uncached opts o ps = Ok true <->
    forall x, In x (o :: ps) -> exists p, uncached opts x = Ok p /\ p <> HIDDEN.
Proof. exact visible_true_iff. Qed.

(* ... and, as the manual says, a hidden module/package/class hides all its members *)
Theorem C13_hidden_ancestor_hides :
  forall opts ps o,
    (forall x, In x (o :: ps) -> exists p, uncached opts x = Ok p) ->
    (visible_uncached opts o ps = Ok false <-> exists x, In x (o :: ps) /\ uncached opts x = Ok HIDDEN).
Proof. exact hidden_ancestor_hides. Qed.

Theorem C13_private_iff :
  forall opts o p,
    uncached opts o = Ok p ->
    private_uncached opts o = Ok (negb (priv_eqb p PUBLIC)) /\ (negb (priv_eqb p PUBLIC) = true <-> p <> PUBLIC).
Proof. exact private_iff. Qed.

Definition o_child : obj := {| o_full := [120; 46; 121]; o_name := [121]; o_has_kind := true; o_is_module := false |}.  (* x.y *)
Example C13_views_satisfiable :
  same_key_same_object [o_child; o_x] /\
  run_asks [(HIDDEN, n_x)] [] [QVisible o_child [o_x]; QPrivacy o_child; QPrivate o_child; QVisible o_x []]
  = [ABool (Ok false); ALevel (Ok PUBLIC); ABool (Ok false); ABool (Ok false)].
Proof.
  split.
  - intros o1 o2 [<-|[<-|[]]] [<-|[<-|[]]] H; try reflexivity; vm_compute in H; discriminate.
  - vm_compute. reflexivity.
Qed.

(* ---------------------------------------------------------------------------------------------------------
   Rule parsing: accepted exactly for <level>:<pattern> with one colon; level stripped, case-insensitive,
   one of HIDDEN PRIVATE PUBLIC (or the compatibility alias VISIBLE = PUBLIC); pattern stripped. *)
Theorem C13_parse_rule :
  forall v p m,
    parse_privacy_tuple v = Some (p, m) <->
    exists a b, v = a ++ c_colon :: b /\ ~ In c_colon a /\ ~ In c_colon b /\
                level_of_name (upper (strip a)) p /\ m = strip b.
Proof. exact parse_rule. Qed.

(* the two error(...) exits: "malformatted value" exactly when the value is not <a>:<b> with one colon;
   "unknown privacy value <a>" exactly when it is and the stripped, upper-cased <a> is no level name *)
Theorem C13_parse_rule_errors :
  forall v,
    match parse_privacy_tuple_result v with
    | ParsedRule (p, m) => exists a b, one_colon v a b /\ level_of_name (upper (strip a)) p /\ m = strip b
    | UnknownLevel a => exists b, one_colon v a b /\ forall p, ~ level_of_name (upper (strip a)) p
    | Malformatted => forall a b, ~ one_colon v a b
    end.
Proof. exact parse_result_spec. Qed.

Example C13_parse_rule_cases :
  parse_privacy_tuple [32; 112; 117; 66; 108; 105; 99; 32; 58; 32; 97; 42; 32] = Some (PUBLIC, [97; 42]) /\   (* " puBlic : a* " *)
  parse_privacy_tuple [112; 58; 97] = None /\ parse_privacy_tuple [80; 85; 66; 76; 73; 67] = None /\
  parse_privacy_tuple [80; 85; 66; 76; 73; 67; 58; 97; 58; 98] = None.
Proof. vm_compute. repeat split; reflexivity. Qed.

(* ---------------------------------------------------------------------------------------------------------
   Documentable.privacyClass.  The unchanged tree deviates for modules named __main__: PRIVATE whatever the
   rules say and although the default for a dunder name is PUBLIC. *)
Definition o_main : obj :=
  {| o_full := main_name; o_name := main_name; o_has_kind := true; o_is_module := true |}.
Theorem C13_main_module_refuted :
  default_privacy (o_name o_main) = PUBLIC /\
  fst (doc_privacyClass [] [] o_main) = Ok PRIVATE /\
  fst (doc_privacyClass [(PUBLIC, main_name)] [] o_main) = Ok PRIVATE /\
  fst (system_privacyClass [(PUBLIC, main_name)] [] o_main) = Ok PUBLIC.
Proof. vm_compute. repeat split; reflexivity. Qed.

(* everywhere else the object's privacy is System.privacyClass *)
Theorem C13_documentable_partial :
  forall opts c o, (o_is_module o = false \/ o_name o <> main_name) ->
    doc_privacyClass opts c o = system_privacyClass opts c o.
Proof. exact documentable_not_main. Qed.

(* ---------------------------------------------------------------------------------------------------------
   Tie to the source.  Gen/QnMatchCode.v holds the BODY of pydoctor/qnmatch.py : translate() translated statement by
   statement from /repo's CURRENT source (harness/gen/gen_c13_code.py, fail-closed, rerun on every check) into the
   imperative language of Model/QnMatchIR.v.  Interpreting THAT code gives, for every pattern, the text (or the
   exception) of the hand-written model the theorems above are about -- and no `while` of it runs out of fuel. *)
Theorem C13_code_translate_is_model :
  forall pat : text, run_translate translate_code pat = translate pat.
Proof. exact run_translate_eq. Qed.

(* hence the text the translated code returns is the rendering of the lexed pattern ... *)
Theorem C13_code_translate_text :
  forall pat, run_translate translate_code pat = Ok (t_prefix ++ render (lex pat) ++ t_suffix).
Proof. exact (fun pat => eq_trans (run_translate_eq pat) (translate_render pat)). Qed.

(* ... and the property itself, stated on the translated code: compiling what it returns and matching a name answers the
   documented meaning of the pattern, for every pattern without an inverted range and every name *)
Theorem C13_code_translate_meaning :
  forall pat n, wf_pattern pat = true ->
    match_re (bind (run_translate translate_code pat) read_re) n = Ok (matches pat n).
Proof.
  exact (fun pat n H => eq_trans (f_equal (fun r => match_re (bind r read_re) n) (run_translate_eq pat)) (qnmatch_meaning pat n H)).
Qed.

(* Gen/PrivacyCode.v holds the BODY of pydoctor/model.py : System.privacyClass (cache lookup, kind test, default rule,
   the rule loops -- inlined from the helper when privacyClass delegates to one --, cache store) translated from the
   CURRENT source (harness/gen/gen_c13_privacy.py).  Interpreting it gives, for every rule list, cache and object, the
   result AND the cache of the hand-written model. *)
Theorem C13_code_privacyClass_is_model :
  forall (opts : list rule) (c : cache) (o : obj),
    run_privacyClass opts o privacy_code c = system_privacyClass opts c o.
Proof. exact run_privacy_eq. Qed.

(* hence the total characterisation of the precedence, stated on the translated code *)
Theorem C13_code_privacyClass_precedence :
  forall opts c o, o_has_kind o = true -> cache_get c (o_full o) = None ->
    fst (run_privacyClass opts o privacy_code c) =
    verdict_outcome (documented_verdict (text_eqb (o_full o)) wf_pattern (fun m => matches m (o_full o)) opts
                                        (default_privacy (o_name o))).
Proof. exact code_privacy_precedence. Qed.
