(* Base/ImportSyntax.v -- the Python subset C04 talks about, shared by Model/Names.v (pydoctor) and
   Spec/PyImport.v (CPython).  Pure syntax, no semantics.

   Identifiers are atoms (N); the harness keeps the table.  By convention an atom is ODD iff the
   identifier starts with an underscore (the only property of the spelling that either side looks at:
   `name.startswith('_')` in _importAll, "public names" in CPython's `import *`).
   A dotted name / qualified name is a path = list of atoms; identifiers never contain '.', so
   '.'.join / split('.') / f'{a}.{b}' are list operations. *)
From Coq Require Import NArith List Bool.
Import ListNotations.

Definition name := N.
Definition path := list name.

Definition is_private (n : name) : bool := N.odd n.

Fixpoint path_eqb (a b : path) : bool :=
  match a, b with
  | [], [] => true
  | x :: a', y :: b' => N.eqb x y && path_eqb a' b'
  | _, _ => false
  end.

Inductive stmt : Type :=
| SImport (target : path) (asname : option name)                       (* import a.b [as c] *)
| SFrom (level : nat) (modname : path) (names : list (name * option name))
                                                                        (* from ..m import x [as y], ... ; modname [] = absent *)
| SStar (level : nat) (modname : path)                                  (* from ..m import * *)
| SClass (cname : name) (base : option path) (body : list stmt)         (* class C(base.expr): body -- at most one base *)
| SDef (fname : name)                                                   (* def f(): ... *)
| SAlias (target : name) (expr : path).                                 (* x = y.z *)

Record module_src := {
  m_path : path;            (* qualified name of the module, e.g. [pkg; sub; mod] *)
  m_pkg : bool;             (* True for a package (__init__.py) *)
  m_all : option (list name);   (* __all__ = [...] at module level, if present *)
  m_body : list stmt
}.

Definition project := list module_src.

Definition find_module (P : project) (p : path) : option module_src :=
  find (fun m => path_eqb (m_path m) p) P.

Definition is_module (P : project) (p : path) : bool :=
  match find_module P p with Some _ => true | None => false end.

(* generic association list lookup: LAST binding wins (dict overwrite / rebinding) is obtained by
   always inserting with [set_assoc] which replaces in place, like a Python dict. *)
Fixpoint assoc {V} (n : name) (l : list (name * V)) : option V :=
  match l with
  | [] => None
  | (k, v) :: l' => if N.eqb k n then Some v else assoc n l'
  end.

Fixpoint set_assoc {V} (n : name) (v : V) (l : list (name * V)) : list (name * V) :=
  match l with
  | [] => [(n, v)]
  | (k, w) :: l' => if N.eqb k n then (k, v) :: l' else (k, w) :: set_assoc n v l'
  end.

Definition mem_name (n : name) (l : list name) : bool := existsb (N.eqb n) l.
