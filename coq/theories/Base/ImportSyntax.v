(* Base/ImportSyntax.v -- the Python subset C04 talks about, shared by Model/Names.v (pydoctor) and
   Spec/PyImport.v (CPython).  Pure syntax, no semantics.

   Identifiers are atoms (N); the harness keeps the table.  By convention an atom is ODD iff the
   identifier starts with an underscore (the only property of the spelling that either side looks at:
   `name.startswith('_')` in _importAll, "public names" in CPython's `import *`).
   A dotted name / qualified name is a path = list of atoms; identifiers never contain '.', so
   '.'.join / split('.') / f'{a}.{b}' are list operations. *)
From Coq Require Import NArith List Bool.
Import ListNotations.

Definition name := N.
Definition path := list name.

Definition is_private (n : name) : bool := N.odd n.

Fixpoint path_eqb (a b : path) : bool :=
  match a, b with
  | [], [] => true
  | x :: a', y :: b' => N.eqb x y && path_eqb a' b'
  | _, _ => false
  end.

Inductive stmt : Type :=
| SImport (target : path) (asname : option name)                       (* import a.b [as c] *)
| SFrom (level : nat) (modname : path) (names : list (name * option name))
                                                                        (* from ..m import x [as y], ... ; modname [] = absent *)
| SStar (level : nat) (modname : path)                                  (* from ..m import * *)
| SClass (cname : name) (base : option path) (body : list stmt)         (* class C(base.expr): body -- at most one base *)
| SDef (fname : name)                                                   (* def f(): ... *)
| SAlias (target : name) (expr : path).                                 (* x = y.z *)

Record module_src := {
  m_path : path;            (* qualified name of the module, e.g. [pkg; sub; mod] *)
  m_pkg : bool;             (* True for a package (__init__.py) *)
  m_all : option (list name);   (* __all__ = [...] at module level, if present *)
  m_body : list stmt
}.

Definition project := list module_src.

Definition find_module (P : project) (p : path) : option module_src :=
  find (fun m => path_eqb (m_path m) p) P.

Definition is_module (P : project) (p : path) : bool :=
  match find_module P p with Some _ => true | None => false end.

(* generic association list lookup: LAST binding wins (dict overwrite / rebinding) is obtained by
   always inserting with [set_assoc] which replaces in place, like a Python dict. *)
Fixpoint assoc {V} (n : name) (l : list (name * V)) : option V :=
  match l with
  | [] => None
  | (k, v) :: l' => if N.eqb k n then Some v else assoc n l'
  end.

Fixpoint set_assoc {V} (n : name) (v : V) (l : list (name * V)) : list (name * V) :=
  match l with
  | [] => [(n, v)]
  | (k, w) :: l' => if N.eqb k n then (k, v) :: l' else (k, w) :: set_assoc n v l'
  end.

Definition mem_name (n : name) (l : list name) : bool := existsb (N.eqb n) l.

(* ---------------------------------------------------------------- which statement of a body binds a name (syntax only) *)
Inductive binder :=
| BClass (base : option path) (body : list stmt)
| BDef
| BImportTop (a : name)
| BImportAs (t : path)
| BFrom (level : nat) (modname : path) (orig : name)
| BAlias (expr : path).

Fixpoint from_binder (level : nat) (modname : path) (names : list (name * option name)) (n : name) : option binder :=
  match names with
  | [] => None
  | (orig, asname) :: rest =>
    match from_binder level modname rest n with
    | Some b => Some b
    | None => if N.eqb (match asname with Some a => a | None => orig end) n
              then Some (BFrom level modname orig) else None
    end
  end.

Definition stmt_binder (s : stmt) (n : name) : option binder :=
  match s with
  | SImport (a :: _) None => if N.eqb a n then Some (BImportTop a) else None
  | SImport t (Some c) => if N.eqb c n then Some (BImportAs t) else None
  | SImport [] None => None
  | SFrom level modname names => from_binder level modname names n
  | SStar _ _ => None
  | SClass c base body => if N.eqb c n then Some (BClass base body) else None
  | SDef f => if N.eqb f n then Some BDef else None
  | SAlias x e => if N.eqb x n then Some (BAlias e) else None
  end.

(* the LAST statement of the body that binds n wins *)
Fixpoint binder_of (body : list stmt) (n : name) : option binder :=
  match body with
  | [] => None
  | s :: rest =>
    match binder_of rest n with
    | Some b => Some b
    | None => stmt_binder s n
    end
  end.

Fixpoint descend (body : list stmt) (qual : path) : option (list stmt) :=
  match qual with
  | [] => Some body
  | c :: r => match binder_of body c with
              | Some (BClass _ b) => descend b r
              | _ => None
              end
  end.

Definition scope_body (P : project) (m qual : path) : option (list stmt) :=
  match find_module P m with
  | Some mm => descend (m_body mm) qual
  | None => None
  end.

Definition class_base (P : project) (m qual : path) : option path :=
  match qual with
  | [] => None
  | _ => match scope_body P m (removelast qual) with
         | Some body => match binder_of body (last qual 0%N) with
                        | Some (BClass base _) => base
                        | _ => None
                        end
         | None => None
         end
  end.

