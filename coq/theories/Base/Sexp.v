(* Base/Sexp.v -- the wire format between the Python harness and the models.
   Every model exposes  run : sexp -> sexp ; the generic OCaml driver (coq/ocaml/driver.ml)
   and the cases.v path (Eval vm_compute) both go through it, so the codec is itself
   Gallina and is evaluated by the kernel's VM in the cross-check path. *)
From Coq Require Import ZArith NArith List Bool.
Import ListNotations.
Local Open Scope Z_scope.

Inductive sexp : Type :=
| A (z : Z)
| L (l : list sexp).

(* text = list of Unicode code points *)
Definition text := list N.

Definition of_N (n : N) : sexp := A (Z.of_N n).
Definition of_nat (n : nat) : sexp := A (Z.of_nat n).
Definition of_bool (b : bool) : sexp := A (if b then 1 else 0).
Definition of_text (t : text) : sexp := L (map of_N t).
Definition of_list {X} (f : X -> sexp) (l : list X) : sexp := L (map f l).
Definition of_option {X} (f : X -> sexp) (o : option X) : sexp :=
  match o with None => L [] | Some x => L [f x] end.

Definition to_Z (s : sexp) : Z := match s with A z => z | L _ => 0 end.
Definition to_N (s : sexp) : N := Z.to_N (to_Z s).
Definition to_nat (s : sexp) : nat := Z.to_nat (to_Z s).
Definition to_bool (s : sexp) : bool := negb (Z.eqb (to_Z s) 0).
Definition to_list (s : sexp) : list sexp := match s with A _ => [] | L l => l end.
Definition to_text (s : sexp) : text := map to_N (to_list s).
Definition to_option {X} (f : sexp -> X) (s : sexp) : option X :=
  match to_list s with [] => None | x :: _ => Some (f x) end.

Definition nth_s (n : nat) (s : sexp) : sexp := nth n (to_list s) (L []).

(* error marker used by models for "input not in the protocol" *)
Definition bad_input : sexp := L [A (-999)].
