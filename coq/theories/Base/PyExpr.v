(* Base/PyExpr.v -- types shared by the C15 model and spec: Python expression trees (the part of `ast`
   that pydoctor's value colouriser distinguishes), and lexical tokens.  Types only. *)
From Coq Require Import ZArith NArith List Bool.
From PydoctorVerif Require Import Base.Sexp.
Import ListNotations.
Local Open Scope N_scope.

Inductive unop := USub | UAdd | UNot | UInvert.
Inductive binop := Sub | Add | Mult | Div | FloorDiv | Mod | Pow | LShift | RShift | BitOr | BitXor | BitAnd | MatMult.
Inductive boolop := And | Or.

(* numbering on the wire and in Gen/TablesC15.v *)
Definition unop_idx (u : unop) : N := match u with USub => 0 | UAdd => 1 | UNot => 2 | UInvert => 3 end.
Definition binop_idx (b : binop) : N :=
  match b with Sub => 0 | Add => 1 | Mult => 2 | Div => 3 | FloorDiv => 4 | Mod => 5 | Pow => 6 | LShift => 7
             | RShift => 8 | BitOr => 9 | BitXor => 10 | BitAnd => 11 | MatMult => 12 end.
Definition boolop_idx (o : boolop) : N := match o with And => 0 | Or => 1 end.

Definition all_unops := [USub; UAdd; UNot; UInvert].
Definition all_binops := [Sub; Add; Mult; Div; FloorDiv; Mod; Pow; LShift; RShift; BitOr; BitXor; BitAnd; MatMult].
Definition all_boolops := [And; Or].

(* any operator that _OperatorDelimiter looks at *)
Inductive opk := OU (u : unop) | OB (b : binop) | OO (o : boolop).
Definition all_opks : list opk := map OU all_unops ++ map OB all_binops ++ map OO all_boolops.

(* literal leaves.  Numbers carry the text str(value) (Python's own formatting is not modelled);
   strings carry their code points, bytes their byte values. *)
Inductive const :=
| KNum (shown : text)
| KStr (s : text)
| KBytes (b : text)
| KNone | KTrue | KFalse | KEllipsis.

(* a leaf is a literal or a form that pydoctor hands to astor.to_source (opaque text supplied by that oracle) *)
Inductive leaf :=
| LConst (c : const)
| LGen (shown : text).

Inductive expr :=
| ELeaf (l : leaf)
| EName (id : text)
| EAttr (e : expr) (attr : text) (gen : text)   (* gen: astor's text of this node, used when the chain does not end in a Name *)
| EUn (u : unop) (e : expr)
| EBin (b : binop) (l r : expr)
| EBool (o : boolop) (es : list expr)
| ETuple (es : list expr)
| EList (es : list expr)
| ESet (es : list expr)
| EDict (items : list (option expr * expr))
| ESub (v : expr) (slice : expr)
| ECall (f : expr) (args : list expr) (kws : list (option text * expr))
| EStarred (e : expr).

(* lexical tokens of the displayed text (what CPython's tokenizer makes of it; literals and delegated text are one atom) *)
Inductive optok := OMinus | OPlus | OTilde | OStar | OSlash | ODSlash | OPercent | ODStar | OLShift | ORShift
                 | OBar | OCaret | OAmp | OAt.

Inductive token :=
| TLeaf (l : leaf)
| TName (id : text)
| TLP | TRP | TLB | TRB | TLC | TRC
| TComma | TColon | TDot | TEq
| TOp (o : optok)
| TNot | TAnd | TOr.
