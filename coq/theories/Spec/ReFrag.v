(* Spec/ReFrag.v -- a reader and a matcher for exactly the fragment of Python 3.12 `re`
   that pydoctor.qnmatch.translate can emit (C13).  Written from Lib/re/_parser.py
   (Tokenizer, _parse, the "[" branch, _class_escape, _escape), NOT from qnmatch.py.

   Fragment:   (?s: item* )\Z
     item  ::= atom | atom "*?"                     (lazy star; other repeats: Unsupported)
     atom  ::= "."  (DOTALL: any character)
             | "[" "^"? setitem+ "]"
             | "\" c     (c not an ASCII letter or digit: the literal c)
             | c         (c not in SPECIAL_CHARS  . \ [ { ( ) * + ? ^ $ | )
     setitem ::= x | x "-" y  (range, error "bad character range" when y < x) ;
                 x, y ::= c | "\" c ;  a "]" that is the first member is a literal; "x-]" is x, "-".
   `re.compile(r).match(name)` with the trailing \Z is a whole-string match; under a whole-string
   match lazy and greedy stars accept the same strings, so the matcher is the plain backtracking
   semantics returning a boolean.

   Validated against the real `re` by harness/c13.py (spec validation), not proved. *)
From Coq Require Import NArith List Bool.
From PydoctorVerif Require Import Base.Sexp.
Import ListNotations.
Local Open Scope N_scope.

(* outcomes: exceptions are values *)
Inductive err : Type :=
| BadRange        (* re.error: bad character range *)
| ReOther         (* any other re.error (unterminated set, bad escape at end, missing paren ...) *)
| Unsupported     (* regex text outside the fragment: the spec does not say what `re` does *)
| OutOfFuel
| PyIndexError.   (* stuff[0] on an empty string in translate *)

Inductive outcome (X : Type) : Type :=
| Ok (x : X)
| Err (e : err).
Arguments Ok {X} x.
Arguments Err {X} e.

Definition bind {X Y} (r : outcome X) (f : X -> outcome Y) : outcome Y :=
  match r with Ok x => f x | Err e => Err e end.

(* ---- code points used ------------------------------------------------------------ *)
Definition c_bang : N := 33.    (* ! *)
Definition c_lpar : N := 40.    (* ( *)
Definition c_rpar : N := 41.    (* ) *)
Definition c_star : N := 42.    (* * *)
Definition c_plus : N := 43.    (* + *)
Definition c_dash : N := 45.    (* - *)
Definition c_dot : N := 46.     (* . *)
Definition c_colon : N := 58.   (* : *)
Definition c_qm : N := 63.      (* ? *)
Definition c_Z : N := 90.       (* Z *)
Definition c_lbr : N := 91.     (* [ *)
Definition c_bsl : N := 92.     (* \ *)
Definition c_rbr : N := 93.     (* ] *)
Definition c_hat : N := 94.     (* ^ *)
Definition c_us : N := 95.      (* _ *)
Definition c_s : N := 115.      (* s *)
Definition c_lbrace : N := 123. (* { *)
Definition c_pipe : N := 124.   (* | *)
Definition c_dollar : N := 36.  (* $ *)

(* ---- Tokenizer (class Tokenizer.__next): a token is one character, or "\" + the next one ---- *)
Inductive rtok : Type :=
| Plain (c : N)
| Esc (c : N).

Fixpoint tokenize (s : text) : outcome (list rtok) :=
  match s with
  | [] => Ok []
  | c :: r =>
    if c =? c_bsl then
      match r with
      | [] => Err ReOther                       (* "bad escape (end of pattern)" *)
      | d :: r' => bind (tokenize r') (fun ts => Ok (Esc d :: ts))
      end
    else bind (tokenize r) (fun ts => Ok (Plain c :: ts))
  end.

(* ---- regex syntax tree of the fragment -------------------------------------------- *)
Inductive setitem : Type :=
| SLit (c : N)
| SRange (lo hi : N).

Inductive cls : Type :=
| CAny
| CLit (c : N)
| CSet (neg : bool) (items : list setitem).

Inductive item : Type :=
| One (c : cls)
| Star (c : cls).

Definition is_ascii_alnum (c : N) : bool :=
  ((48 <=? c) && (c <=? 57)) || ((65 <=? c) && (c <=? 90)) || ((97 <=? c) && (c <=? 122)).

(* SPECIAL_CHARS = ".\\[{()*+?^$|" *)
Definition is_special (c : N) : bool :=
  (c =? c_dot) || (c =? c_bsl) || (c =? c_lbr) || (c =? c_lbrace) || (c =? c_lpar) || (c =? c_rpar) ||
  (c =? c_star) || (c =? c_plus) || (c =? c_qm) || (c =? c_hat) || (c =? c_dollar) || (c =? c_pipe).

(* REPEAT_CHARS = "*+?{" *)
Definition is_repeat (c : N) : bool :=
  (c =? c_star) || (c =? c_plus) || (c =? c_qm) || (c =? c_lbrace).

(* a member of a set: _class_escape for "\c" (letters and digits have meanings we do not model) *)
Definition set_code (t : rtok) : outcome N :=
  match t with
  | Plain c => Ok c
  | Esc c => if is_ascii_alnum c then Err Unsupported else Ok c
  end.

(* the `while True` loop of the "[" branch; `first` = "set is still empty".
   Returns the members and the tokens after the closing "]". *)
Fixpoint read_set (fuel : nat) (first : bool) (ts : list rtok) : outcome (list setitem * list rtok) :=
  match fuel with
  | O => Err OutOfFuel
  | S f =>
    match ts with
    | [] => Err ReOther                                   (* unterminated character set *)
    | this :: r =>
      let closing := match this with Plain c => (c =? c_rbr) && negb first | Esc _ => false end in
      if closing then Ok ([], r)
      else
        bind (set_code this) (fun code1 =>
        match r with
        | Plain d :: r2 =>
          if d =? c_dash then                             (* sourcematch("-"): potential range *)
            match r2 with
            | [] => Err ReOther                           (* unterminated character set *)
            | that :: r3 =>
              match that with
              | Plain e =>
                if e =? c_rbr then Ok ([SLit code1; SLit c_dash], r3)
                else if e <? code1 then Err BadRange
                else bind (read_set f false r3) (fun p => Ok (SRange code1 e :: fst p, snd p))
              | Esc _ =>
                bind (set_code that) (fun code2 =>
                if code2 <? code1 then Err BadRange
                else bind (read_set f false r3) (fun p => Ok (SRange code1 code2 :: fst p, snd p)))
              end
            end
          else bind (read_set f false r) (fun p => Ok (SLit code1 :: fst p, snd p))
        | _ => bind (read_set f false r) (fun p => Ok (SLit code1 :: fst p, snd p))
        end)
    end
  end.

(* one atom; returns the class and the remaining tokens *)
Definition read_atom (fuel : nat) (this : rtok) (r : list rtok) : outcome (cls * list rtok) :=
  match this with
  | Esc c => if is_ascii_alnum c then Err Unsupported else Ok (CLit c, r)
  | Plain c =>
    if c =? c_dot then Ok (CAny, r)
    else if c =? c_lbr then
      let '(neg, r1) := match r with
                        | Plain h :: r1 => if h =? c_hat then (true, r1) else (false, r)
                        | _ => (false, r)
                        end in
      bind (read_set fuel true r1) (fun p => Ok (CSet neg (fst p), snd p))
    else if is_special c then Err Unsupported
    else Ok (CLit c, r)
  end.

(* _parse until the ")" that closes (?s: ; returns the items and the tokens after ")" *)
Definition is_rpar (t : rtok) : bool :=
  match t with Plain c => c =? c_rpar | Esc _ => false end.

(* what follows an atom: "*?" (lazy star), nothing, or a repeat outside the fragment *)
Inductive suffix_kind : Type :=
| SfxNone
| SfxLazyStar (rest : list rtok)
| SfxOther.

Definition repeat_suffix (r1 : list rtok) : suffix_kind :=
  match r1 with
  | Plain q :: r2 =>
    if is_repeat q then
      match r2 with
      | Plain q2 :: r3 => if (q =? c_star) && (q2 =? c_qm) then SfxLazyStar r3 else SfxOther
      | _ => SfxOther
      end
    else SfxNone
  | _ => SfxNone
  end.

Fixpoint read_items (fuel : nat) (ts : list rtok) : outcome (list item * list rtok) :=
  match fuel with
  | O => Err OutOfFuel
  | S f =>
    match ts with
    | [] => Err ReOther                                   (* missing ), unterminated subpattern *)
    | this :: r =>
      if is_rpar this then Ok ([], r)
      else
        bind (read_atom (length ts) this r) (fun a =>
        match repeat_suffix (snd a) with
        | SfxNone => bind (read_items f (snd a)) (fun p => Ok (One (fst a) :: fst p, snd p))
        | SfxLazyStar r3 => bind (read_items f r3) (fun p => Ok (Star (fst a) :: fst p, snd p))
        | SfxOther => Err Unsupported
        end)
    end
  end.

Definition regex := list item.

(* whole regex text:  (?s: items )\Z  *)
Definition read_re (s : text) : outcome regex :=
  bind (tokenize s) (fun ts =>
  match ts with
  | Plain a :: Plain b :: Plain c :: Plain d :: body =>
    if (a =? c_lpar) && (b =? c_qm) && (c =? c_s) && (d =? c_colon) then
      bind (read_items (S (length body)) body) (fun p =>
      match snd p with
      | [Esc z] => if z =? c_Z then Ok (fst p) else Err Unsupported
      | _ => Err Unsupported
      end)
    else Err Unsupported
  | _ => Err Unsupported
  end).

(* ---- matching -------------------------------------------------------------------- *)
Definition setitem_match (x : N) (i : setitem) : bool :=
  match i with
  | SLit c => x =? c
  | SRange lo hi => (lo <=? x) && (x <=? hi)
  end.

Definition cls_match (k : cls) (x : N) : bool :=
  match k with
  | CAny => true
  | CLit c => x =? c
  | CSet neg items => xorb neg (existsb (setitem_match x) items)
  end.

(* k*? followed by the continuation `cont`: zero characters, or one character of k and again *)
Fixpoint star_match (k : cls) (cont : text -> bool) (m : text) : bool :=
  cont m ||
  match m with
  | [] => false
  | x :: m' => cls_match k x && star_match k cont m'
  end.

(* does the item sequence match the WHOLE of n (anchored at both ends)? *)
Fixpoint match_items (its : list item) (n : text) : bool :=
  match its with
  | [] => match n with [] => true | _ => false end
  | One k :: r =>
    match n with
    | [] => false
    | x :: n' => cls_match k x && match_items r n'
    end
  | Star k :: r => star_match k (match_items r) n
  end.

(* ---- the MEANING of a regex of the fragment: the set of strings it accepts, as a relation -------------
   (this, with the reader above, is what is trusted about CPython `re`; the executable matcher
   `match_items` is proved to decide it in Proofs/ReFragProofs.v)
     a class accepts one character; an item is one character of its class, or (k*?) any run of
     characters of its class; a regex (?s:i1 i2 ... in)\Z accepts the concatenations, and nothing may
     remain after the last item (the end anchor).  Lazy or greedy does not matter for acceptance. *)
Definition in_setitem (i : setitem) (x : N) : Prop :=
  match i with
  | SLit c => x = c
  | SRange lo hi => lo <= x /\ x <= hi
  end.

Inductive in_cls : cls -> N -> Prop :=
| IC_any : forall x, in_cls CAny x
| IC_lit : forall c, in_cls (CLit c) c
| IC_set : forall items x i, In i items -> in_setitem i x -> in_cls (CSet false items) x
| IC_nset : forall items x, (forall i, In i items -> ~ in_setitem i x) -> in_cls (CSet true items) x.

Inductive item_lang : item -> text -> Prop :=
| IL_one : forall k x, in_cls k x -> item_lang (One k) [x]
| IL_star_nil : forall k, item_lang (Star k) []
| IL_star_cons : forall k x u, in_cls k x -> item_lang (Star k) u -> item_lang (Star k) (x :: u).

Inductive matches_re : regex -> text -> Prop :=
| MR_end : matches_re [] []
| MR_item : forall i r u v, item_lang i u -> matches_re r v -> matches_re (i :: r) (u ++ v).

(* ---- a backtracking-free matcher: one pass per item over the table "does the rest of the regex accept the
   suffix of n starting here", O(|regex| * |n|).  Proved equal to match_items (Proofs/ReFragProofs.v). *)
Fixpoint tails (n : text) : list text :=
  n :: match n with [] => [] | _ :: n' => tails n' end.

(* acc is aligned with tails n *)
Fixpoint step_one (k : cls) (n : text) (acc : list bool) : list bool :=
  match n, acc with
  | x :: n', _ :: acc' => (cls_match k x && hd false acc') :: step_one k n' acc'
  | _, _ => [false]
  end.

Fixpoint step_star (k : cls) (n : text) (acc : list bool) : list bool :=
  match n, acc with
  | x :: n', a :: acc' =>
    let rest := step_star k n' acc' in
    (a || (cls_match k x && hd false rest)) :: rest
  | _, _ => [hd false acc]
  end.

Definition step_item (n : text) (i : item) (acc : list bool) : list bool :=
  match i with
  | One k => step_one k n acc
  | Star k => step_star k n acc
  end.

Definition table_end (n : text) : list bool :=
  map (fun s => match s with [] => true | _ => false end) (tails n).

Definition match_table (its : list item) (n : text) : list bool :=
  fold_right (step_item n) (table_end n) its.

Definition match_linear (its : list item) (n : text) : bool := hd false (match_table its n).

Definition match_re (r : outcome regex) (n : text) : outcome bool :=
  bind r (fun its => Ok (match_items its n)).
