(* Spec/ProjectSchedules.v -- the processing orders the real tool can realise.

   System.addPackage registers a package (its __init__ module) and then, recursively, the entries of its directory;
   the driver adds the roots given on the command line one after the other.  `unprocessed_modules` is an ordered
   dict filled in that order, and System.process takes modules from its front: the schedule (the priority order
   sigma of Model/Project.v, `init_state p sigma`) is a depth-first PREORDER of the module forest -- a package before
   its own sub-modules, the sub-modules of a package in any order (directory listing), the roots in any order. *)
From Coq Require Import ZArith NArith List Bool Permutation.
From PydoctorVerif Require Import Base.Sexp Model.Project Spec.ProjectStatic.
Import ListNotations.
Local Open Scope N_scope.

Definition parent_of (p : project) (m : N) : option N :=
  match modinfo_of p m with Some mi => m_parent mi | None => None end.

Definition children_of (p : project) (q : N) : list N :=
  filter (fun m => match parent_of p m with Some q' => N.eqb q' q | None => false end) (module_ids p).

Definition root_ids (p : project) : list N :=
  filter (fun m => match parent_of p m with None => true | Some _ => false end) (module_ids p).

Inductive tool_tree (p : project) : N -> list N -> Prop :=
| tt_node m cs sig : Permutation cs (children_of p m) -> tool_forest p cs sig -> tool_tree p m (m :: sig)
with tool_forest (p : project) : list N -> list N -> Prop :=
| tf_nil : tool_forest p [] []
| tf_cons m ms s1 s2 : tool_tree p m s1 -> tool_forest p ms s2 -> tool_forest p (m :: ms) (s1 ++ s2).

Definition tool_order (p : project) (sigma : list N) : Prop :=
  exists rs, Permutation rs (root_ids p) /\ tool_forest p rs sigma.
