(* Spec/PyLex.v -- lexical side of the C15 spec, from the language reference (2.4 Literals, 2.5 Operators, 2.6 Delimiters):
   how each token is spelled, and what value a single-quoted string literal denotes.  Independent of the model. *)
From Coq Require Import ZArith NArith List Bool.
From PydoctorVerif Require Import Base.Sexp Base.PyExpr.
Import ListNotations.
Local Open Scope N_scope.

(* ---- spelling of operator, keyword and delimiter tokens ---- *)
Definition optok_text (o : optok) : text :=
  match o with
  | OMinus => [45] | OPlus => [43] | OTilde => [126] | OStar => [42] | OSlash => [47] | ODSlash => [47; 47]
  | OPercent => [37] | ODStar => [42; 42] | OLShift => [60; 60] | ORShift => [62; 62] | OBar => [124]
  | OCaret => [94] | OAmp => [38] | OAt => [64]
  end.

(* None for names and atoms, whose text is their own *)
Definition tok_text (t : token) : option text :=
  match t with
  | TLeaf _ | TName _ => None
  | TLP => Some [40] | TRP => Some [41] | TLB => Some [91] | TRB => Some [93] | TLC => Some [123] | TRC => Some [125]
  | TComma => Some [44] | TColon => Some [58] | TDot => Some [46] | TEq => Some [61]
  | TOp o => Some (optok_text o)
  | TNot => Some [110; 111; 116] | TAnd => Some [97; 110; 100] | TOr => Some [111; 114]
  end.

(* ---- the value of a string literal written between single quotes (no prefix): stringescapeseq of the reference ---- *)
Definition hexval (c : N) : option N :=
  if (48 <=? c) && (c <=? 57) then Some (c - 48)
  else if (97 <=? c) && (c <=? 102) then Some (c - 87)
  else if (65 <=? c) && (c <=? 70) then Some (c - 55)
  else None.

Definition is_octal (c : N) : bool := (48 <=? c) && (c <=? 55).

Definition hex2 (a b : N) : option N :=
  match hexval a, hexval b with Some x, Some y => Some (16 * x + y) | _, _ => None end.
Definition hex4 (a b c d : N) : option N :=
  match hex2 a b, hex2 c d with Some x, Some y => Some (256 * x + y) | _, _ => None end.

Definition cons_opt (c : N) (r : option text) : option text :=
  match r with Some t => Some (c :: t) | None => None end.

(* the characters after the opening quote, up to and including the closing quote, which must end the text.
   Raw NUL, LF, CR cannot stand in a one-line literal; backslash-N{name} is not supported (answer None). *)
Fixpoint sq_body (s : text) : option text :=
  match s with
  | [] => None
  | c :: s1 =>
    if N.eqb c 39 then match s1 with [] => Some [] | _ => None end
    else if N.eqb c 0 || N.eqb c 10 || N.eqb c 13 then None
    else if N.eqb c 92 then
      match s1 with
      | [] => None
      | e :: s2 =>
        if N.eqb e 92 then cons_opt 92 (sq_body s2)
        else if N.eqb e 39 then cons_opt 39 (sq_body s2)
        else if N.eqb e 34 then cons_opt 34 (sq_body s2)
        else if N.eqb e 110 then cons_opt 10 (sq_body s2)
        else if N.eqb e 116 then cons_opt 9 (sq_body s2)
        else if N.eqb e 114 then cons_opt 13 (sq_body s2)
        else if N.eqb e 102 then cons_opt 12 (sq_body s2)
        else if N.eqb e 118 then cons_opt 11 (sq_body s2)
        else if N.eqb e 97 then cons_opt 7 (sq_body s2)
        else if N.eqb e 98 then cons_opt 8 (sq_body s2)
        else if N.eqb e 10 then sq_body s2                      (* backslash-newline: line continuation *)
        else if N.eqb e 120 then                                 (* \xhh *)
          match s2 with
          | a :: b :: s3 => match hex2 a b with Some v => cons_opt v (sq_body s3) | None => None end
          | _ => None
          end
        else if N.eqb e 117 then                                 (* \uhhhh *)
          match s2 with
          | a :: b :: c2 :: d :: s3 => match hex4 a b c2 d with Some v => cons_opt v (sq_body s3) | None => None end
          | _ => None
          end
        else if N.eqb e 85 then                                  (* \Uhhhhhhhh *)
          match s2 with
          | a :: b :: c2 :: d :: a' :: b' :: c' :: d' :: s3 =>
            match hex4 a b c2 d, hex4 a' b' c' d' with
            | Some hi, Some lo => if hi <? 17 then cons_opt (65536 * hi + lo) (sq_body s3) else None
            | _, _ => None
            end
          | _ => None
          end
        else if N.eqb e 78 then None                             (* \N{name}: not supported *)
        else if is_octal e then                                  (* \ooo, one to three octal digits *)
          match s2 with
          | o2 :: s3 =>
            if is_octal o2 then
              match s3 with
              | o3 :: s4 =>
                if is_octal o3 then cons_opt (64 * (e - 48) + 8 * (o2 - 48) + (o3 - 48)) (sq_body s4)
                else cons_opt (8 * (e - 48) + (o2 - 48)) (sq_body s3)
              | [] => cons_opt (8 * (e - 48) + (o2 - 48)) (sq_body s3)
              end
            else cons_opt (e - 48) (sq_body s2)
          | [] => cons_opt (e - 48) (sq_body s2)
          end
        else if N.eqb e 0 || N.eqb e 13 then None
        else cons_opt 92 (cons_opt e (sq_body s2))               (* unrecognised escape: both characters stay *)
      end
    else cons_opt c (sq_body s1)
  end.

Definition read_sq (s : text) : option text :=
  match s with
  | 39 :: body => sq_body body
  | _ => None
  end.

(* ---- the value of a bytes literal written b'...' : bytesescapeseq of the reference.  Only ASCII may stand raw;
   backslash-u, -U, -N are not escapes in bytes literals (both characters stay). ---- *)
Fixpoint bq_body (s : text) : option text :=
  match s with
  | [] => None
  | c :: s1 =>
    if N.eqb c 39 then match s1 with [] => Some [] | _ => None end
    else if N.eqb c 0 || N.eqb c 10 || N.eqb c 13 then None
    else if N.eqb c 92 then
      match s1 with
      | [] => None
      | e :: s2 =>
        if N.eqb e 92 then cons_opt 92 (bq_body s2)
        else if N.eqb e 39 then cons_opt 39 (bq_body s2)
        else if N.eqb e 34 then cons_opt 34 (bq_body s2)
        else if N.eqb e 110 then cons_opt 10 (bq_body s2)
        else if N.eqb e 116 then cons_opt 9 (bq_body s2)
        else if N.eqb e 114 then cons_opt 13 (bq_body s2)
        else if N.eqb e 102 then cons_opt 12 (bq_body s2)
        else if N.eqb e 118 then cons_opt 11 (bq_body s2)
        else if N.eqb e 97 then cons_opt 7 (bq_body s2)
        else if N.eqb e 98 then cons_opt 8 (bq_body s2)
        else if N.eqb e 10 then bq_body s2
        else if N.eqb e 120 then
          match s2 with
          | a :: b :: s3 => match hex2 a b with Some v => cons_opt v (bq_body s3) | None => None end
          | _ => None
          end
        else if is_octal e then
          match s2 with
          | o2 :: s3 =>
            if is_octal o2 then
              match s3 with
              | o3 :: s4 =>
                if is_octal o3 then cons_opt ((64 * (e - 48) + 8 * (o2 - 48) + (o3 - 48)) mod 256) (bq_body s4)
                else cons_opt (8 * (e - 48) + (o2 - 48)) (bq_body s3)
              | [] => cons_opt (8 * (e - 48) + (o2 - 48)) (bq_body s3)
              end
            else cons_opt (e - 48) (bq_body s2)
          | [] => cons_opt (e - 48) (bq_body s2)
          end
        else if N.eqb e 0 || N.eqb e 13 || (128 <=? e) then None
        else cons_opt 92 (cons_opt e (bq_body s2))
      end
    else if 128 <=? c then None                                   (* bytes can only contain ASCII literal characters *)
    else cons_opt c (bq_body s1)
  end.

Definition read_bq (s : text) : option text :=
  match s with
  | 98 :: 39 :: body => bq_body body
  | _ => None
  end.
