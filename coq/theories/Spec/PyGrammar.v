(* Spec/PyGrammar.v -- what the displayed tokens MEAN: a reader for Python expressions (the part of the grammar
   over operators, displays, calls, subscripts, attributes, starred items), written from the language reference
   (section 6 Expressions / the PEG grammar), not from pydoctor's printer.

   Operator levels, lowest binding first (reference 6.17 Operator precedence):
     1 or   2 and   3 not x   4 comparisons   5 |   6 ^   7 &   8 << >>   9 + -   10 * @ / // %   11 +x -x ~x   12 **
   `**` binds less tightly than a unary operator on its right (power: primary ["**" u_expr]) and is right
   associative; `not` may not be an operand of a tighter operator (a + not b is a syntax error); boolean operators
   are n-ary in the tree (a or b or c is one BoolOp).  Literals and delegated text are single atoms.
   Lambda, conditional expressions, comparisons, comprehensions, slices never occur as tokens: pydoctor hands them to
   astor, which returns one self-delimiting text (an oracle, validated against CPython by the harness).

   The reader is precedence climbing with explicit fuel (every call consumes one unit and passes the rest on).
   Validated against ast.parse by harness/c15.py (spec validation). *)
From Coq Require Import ZArith NArith List Bool.
From PydoctorVerif Require Import Base.Sexp Base.PyExpr.
Import ListNotations.

Definition L_test := 0%nat.
Definition L_or := 1%nat.
Definition L_and := 2%nat.
Definition L_not := 3%nat.
Definition L_bitor := 5%nat.
Definition L_factor := 11%nat.
Definition L_power := 12%nat.

(* left binding power of a binary operator = its level *)
Definition lbp (b : binop) : nat :=
  match b with
  | BitOr => 5 | BitXor => 6 | BitAnd => 7 | LShift | RShift => 8 | Add | Sub => 9
  | Mult | MatMult | Div | FloorDiv | Mod => 10 | Pow => 12
  end.
(* minimum level of the right operand: one more for the left-associative operators; a u_expr for ** *)
Definition rbp (b : binop) : nat :=
  match b with Pow => L_factor | _ => S (lbp b) end.

Definition infix_of (o : optok) : option binop :=
  match o with
  | OMinus => Some Sub | OPlus => Some Add | OStar => Some Mult | OSlash => Some Div | ODSlash => Some FloorDiv
  | OPercent => Some Mod | ODStar => Some Pow | OLShift => Some LShift | ORShift => Some RShift | OBar => Some BitOr
  | OCaret => Some BitXor | OAmp => Some BitAnd | OAt => Some MatMult | OTilde => None
  end.
Definition prefix_of (o : optok) : option unop :=
  match o with OMinus => Some USub | OPlus => Some UAdd | OTilde => Some UInvert | _ => None end.

Inductive closer := CParen | CBracket | CBrace.
Definition closes (c : closer) (t : token) : bool :=
  match c, t with CParen, TRP | CBracket, TRB | CBrace, TRC => true | _, _ => false end.

Definition is_starred (e : expr) : bool := match e with EStarred _ => true | _ => false end.

Definition res (X : Type) := option (X * list token).
Definition kwarg := (option text * expr)%type.
Definition ditem := (option expr * expr)%type.

(* argument-list state: 0 nothing special yet, 1 a keyword argument was seen, 2 a ** unpacking was seen *)
Definition arg_state := nat.

Fixpoint rd (f : nat) (m : nat) (ts : list token) {struct f} : res expr :=
  match f with
  | O => None
  | S f' =>
    match rd_prefix f' m ts with
    | Some (lhs, r) => climb f' m lhs r
    | None => None
    end
  end

(* not_test / u_expr / primary *)
with rd_prefix (f : nat) (m : nat) (ts : list token) {struct f} : res expr :=
  match f with
  | O => None
  | S f' =>
    match ts with
    | TNot :: r =>
      if Nat.leb m L_not
      then match rd f' L_not r with Some (x, r') => Some (EUn UNot x, r') | None => None end
      else None
    | TOp o :: r =>
      match prefix_of o with
      | Some u =>
        if Nat.leb m L_factor
        then match rd f' L_factor r with Some (x, r') => Some (EUn u x, r') | None => None end
        else None
      | None => None
      end
    | _ =>
      match rd_atom f' ts with
      | Some (a, r) => rd_trailers f' a r
      | None => None
      end
    end
  end

(* the operators that may continue an expression whose operands so far form lhs, at minimum level m *)
with climb (f : nat) (m : nat) (lhs : expr) (ts : list token) {struct f} : res expr :=
  match f with
  | O => None
  | S f' =>
    match ts with
    | TOp o :: r =>
      match infix_of o with
      | Some b =>
        if Nat.leb m (lbp b)
        then match rd f' (rbp b) r with
             | Some (rhs, r') => climb f' m (EBin b lhs rhs) r'
             | None => None
             end
        else Some (lhs, ts)
      | None => Some (lhs, ts)
      end
    | TAnd :: r =>
      if Nat.leb m L_and
      then match rd_chain f' true r with
           | Some (xs, r') => climb f' m (EBool And (lhs :: xs)) r'
           | None => None
           end
      else Some (lhs, ts)
    | TOr :: r =>
      if Nat.leb m L_or
      then match rd_chain f' false r with
           | Some (xs, r') => climb f' m (EBool Or (lhs :: xs)) r'
           | None => None
           end
      else Some (lhs, ts)
    | _ => Some (lhs, ts)
    end
  end

(* and_test: not_test ("and" not_test)*   /   or_test: and_test ("or" and_test)*  -- the operands after the first *)
with rd_chain (f : nat) (is_and : bool) (ts : list token) {struct f} : res (list expr) :=
  match f with
  | O => None
  | S f' =>
    match rd f' (if is_and then L_not else L_and) ts with
    | Some (x, r) =>
      match is_and, r with
      | true, TAnd :: r2 | false, TOr :: r2 =>
        match rd_chain f' is_and r2 with
        | Some (xs, r3) => Some (x :: xs, r3)
        | None => None
        end
      | _, _ => Some ([x], r)
      end
    | None => None
    end
  end

with rd_atom (f : nat) (ts : list token) {struct f} : res expr :=
  match f with
  | O => None
  | S f' =>
    match ts with
    | TLeaf l :: r => Some (ELeaf l, r)
    | TName s :: r => Some (EName s, r)
    | TLP :: TRP :: r => Some (ETuple [], r)
    | TLP :: r =>
      match rd_star f' false r with
      | Some (x, TRP :: r2) => if is_starred x then None else Some (x, r2)      (* parenthesised form: transparent *)
      | Some (x, TComma :: r2) =>
        match rd_elts f' false CParen r2 with
        | Some (xs, r3) => Some (ETuple (x :: xs), r3)
        | None => None
        end
      | _ => None
      end
    | TLB :: r =>
      match rd_elts f' false CBracket r with
      | Some (xs, r2) => Some (EList xs, r2)
      | None => None
      end
    | TLC :: TRC :: r => Some (EDict [], r)
    | TLC :: TOp ODStar :: r =>
      match rd_dict f' (TOp ODStar :: r) with
      | Some (items, r2) => Some (EDict items, r2)
      | None => None
      end
    | TLC :: r =>
      match rd_star f' false r with
      | Some (k, TColon :: r2) =>
        if is_starred k then None else
        match rd f' L_test r2 with
        | Some (v, TRC :: r3) => Some (EDict [(Some k, v)], r3)
        | Some (v, TComma :: r3) =>
          match rd_dict f' r3 with
          | Some (items, r4) => Some (EDict ((Some k, v) :: items), r4)
          | None => None
          end
        | _ => None
        end
      | Some (x, TRC :: r2) => Some (ESet [x], r2)
      | Some (x, TComma :: r2) =>
        match rd_elts f' false CBrace r2 with
        | Some (xs, r3) => Some (ESet (x :: xs), r3)
        | None => None
        end
      | _ => None
      end
    | _ => None
    end
  end

(* primary: atom followed by .name  (args)  [slices] *)
with rd_trailers (f : nat) (a : expr) (ts : list token) {struct f} : res expr :=
  match f with
  | O => None
  | S f' =>
    match ts with
    | TDot :: TName s :: r => rd_trailers f' (EAttr a s []) r
    | TLP :: r =>
      match rd_args f' 0%nat r with
      | Some ((args, kws), r2) => rd_trailers f' (ECall a args kws) r2
      | None => None
      end
    | TLB :: r =>
      match rd_star f' true r with
      | Some (x, TRB :: r2) => rd_trailers f' (ESub a (if is_starred x then ETuple [x] else x)) r2
      | Some (x, TComma :: r2) =>
        match rd_elts f' true CBracket r2 with
        | Some (xs, r3) => rd_trailers f' (ESub a (ETuple (x :: xs))) r3
        | None => None
        end
      | _ => None
      end
    | _ => Some (a, ts)
    end
  end

(* star_named_expression: "*" bitwise_or | expression   (displays);
   in a subscript (sl): slice | starred_expression, where starred_expression is "*" expression *)
with rd_star (f : nat) (sl : bool) (ts : list token) {struct f} : res expr :=
  match f with
  | O => None
  | S f' =>
    match ts with
    | TOp OStar :: r =>
      match rd f' (if sl then L_test else L_bitor) r with Some (x, r') => Some (EStarred x, r') | None => None end
    | _ => rd f' L_test ts
    end
  end

(* [star_named_expression ("," star_named_expression)* [","]] closer *)
with rd_elts (f : nat) (sl : bool) (c : closer) (ts : list token) {struct f} : res (list expr) :=
  match f with
  | O => None
  | S f' =>
    match ts with
    | [] => None
    | t :: r =>
      if closes c t then Some ([], r) else
      match rd_star f' sl ts with
      | Some (x, t2 :: r2) =>
        if closes c t2 then Some ([x], r2) else
        match t2 with
        | TComma => match rd_elts f' sl c r2 with Some (xs, r3) => Some (x :: xs, r3) | None => None end
        | _ => None
        end
      | _ => None
      end
    end
  end

(* the items of a dict display up to and including the closing brace *)
with rd_dict (f : nat) (ts : list token) {struct f} : res (list ditem) :=
  match f with
  | O => None
  | S f' =>
    match ts with
    | TRC :: r => Some ([], r)
    | TOp ODStar :: r =>
      match rd f' L_bitor r with
      | Some (v, TRC :: r2) => Some ([(None, v)], r2)
      | Some (v, TComma :: r2) =>
        match rd_dict f' r2 with Some (items, r3) => Some ((None, v) :: items, r3) | None => None end
      | _ => None
      end
    | _ =>
      match rd f' L_test ts with
      | Some (k, TColon :: r2) =>
        match rd f' L_test r2 with
        | Some (v, TRC :: r3) => Some ([(Some k, v)], r3)
        | Some (v, TComma :: r3) =>
          match rd_dict f' r3 with Some (items, r4) => Some ((Some k, v) :: items, r4) | None => None end
        | _ => None
        end
      | _ => None
      end
    end
  end

(* arguments up to and including the closing parenthesis.  Positional arguments may not follow keyword arguments
   or ** unpacking; * unpacking may not follow ** unpacking. *)
with rd_args (f : nat) (stt : arg_state) (ts : list token) {struct f} : res (list expr * list kwarg) :=
  match f with
  | O => None
  | S f' =>
    match ts with
    | TRP :: r => Some (([], []), r)
    | TOp OStar :: r =>
      match stt with
      | 2%nat => None
      | _ =>
        match rd f' L_test r with
        | Some (x, TRP :: r2) => Some (([EStarred x], []), r2)
        | Some (x, TComma :: r2) =>
          match rd_args f' stt r2 with
          | Some ((a, k), r3) => Some ((EStarred x :: a, k), r3)
          | None => None
          end
        | _ => None
        end
      end
    | TOp ODStar :: r =>
      match rd f' L_test r with
      | Some (x, TRP :: r2) => Some (([], [(None, x)]), r2)
      | Some (x, TComma :: r2) =>
        match rd_args f' 2%nat r2 with
        | Some ((a, k), r3) => Some ((a, (None, x) :: k), r3)
        | None => None
        end
      | _ => None
      end
    | TName s :: TEq :: r =>
      match rd f' L_test r with
      | Some (x, TRP :: r2) => Some (([], [(Some s, x)]), r2)
      | Some (x, TComma :: r2) =>
        match rd_args f' (Nat.max stt 1) r2 with
        | Some ((a, k), r3) => Some ((a, (Some s, x) :: k), r3)
        | None => None
        end
      | _ => None
      end
    | _ =>
      match stt with
      | O =>
        match rd f' L_test ts with
        | Some (x, TRP :: r2) => Some (([x], []), r2)
        | Some (x, TComma :: r2) =>
          match rd_args f' 0%nat r2 with
          | Some ((a, k), r3) => Some ((x :: a, k), r3)
          | None => None
          end
        | _ => None
        end
      | _ => None
      end
    end
  end.

Definition read_fuel (ts : list token) : nat := (8 * length ts + 8)%nat.

(* the whole text must be one expression *)
Definition read (ts : list token) : option expr :=
  match rd (read_fuel ts) L_test ts with
  | Some (e, []) => Some e
  | _ => None
  end.

(* ---- the documented spelling changes, as a map on trees:
     * a set display is shown as set([...])
     * a dotted name is kept; an attribute of anything else is shown by astor as opaque text (as are all delegated forms)
   Quote style and number formatting live inside the leaves. ---- *)
Fixpoint name_chain (e : expr) : bool :=
  match e with
  | EName _ => true
  | EAttr v _ _ => name_chain v
  | _ => false
  end.

Definition T_set : text := [115%N; 101%N; 116%N].

Fixpoint norm (e : expr) : expr :=
  match e with
  | ELeaf l => ELeaf l
  | EName s => EName s
  | EAttr v a g => if name_chain v then EAttr (norm v) a [] else ELeaf (LGen g)
  | EUn u x => EUn u (norm x)
  | EBin b l r => EBin b (norm l) (norm r)
  | EBool o es => EBool o (map norm es)
  | ETuple es => ETuple (map norm es)
  | EList es => EList (map norm es)
  | ESet es => ECall (EName T_set) [EList (map norm es)] []
  | EDict items => EDict (map (fun kv : ditem => (match fst kv with Some k => Some (norm k) | None => None end, norm (snd kv))) items)
  | ESub v sl => ESub (norm v) (norm sl)
  | ECall f args kws => ECall (norm f) (map norm args) (map (fun kw : kwarg => (fst kw, norm (snd kw))) kws)
  | EStarred x => EStarred (norm x)
  end.

(* ---- decidable equality of trees (used by the executable check `read (pp e) = Some (norm e)`) ---- *)
Fixpoint text_eqb (a b : text) : bool :=
  match a, b with
  | [], [] => true
  | x :: a', y :: b' => N.eqb x y && text_eqb a' b'
  | _, _ => false
  end.

Definition const_eqb (a b : const) : bool :=
  match a, b with
  | KNum x, KNum y | KStr x, KStr y | KBytes x, KBytes y => text_eqb x y
  | KNone, KNone | KTrue, KTrue | KFalse, KFalse | KEllipsis, KEllipsis => true
  | _, _ => false
  end.
Definition leaf_eqb (a b : leaf) : bool :=
  match a, b with
  | LConst x, LConst y => const_eqb x y
  | LGen x, LGen y => text_eqb x y
  | _, _ => false
  end.
Definition unop_eqb (a b : unop) : bool := N.eqb (unop_idx a) (unop_idx b).
Definition binop_eqb (a b : binop) : bool := N.eqb (binop_idx a) (binop_idx b).
Definition boolop_eqb (a b : boolop) : bool := N.eqb (boolop_idx a) (boolop_idx b).

Fixpoint expr_eqb (a b : expr) {struct a} : bool :=
  let list_eqb :=
      (fix go (xs ys : list expr) : bool :=
         match xs, ys with
         | [], [] => true
         | x :: xs', y :: ys' => expr_eqb x y && go xs' ys'
         | _, _ => false
         end) in
  match a, b with
  | ELeaf x, ELeaf y => leaf_eqb x y
  | EName x, EName y => text_eqb x y
  | EAttr v a1 g1, EAttr w a2 g2 => expr_eqb v w && text_eqb a1 a2 && text_eqb g1 g2
  | EUn u x, EUn v y => unop_eqb u v && expr_eqb x y
  | EBin o l r, EBin o' l' r' => binop_eqb o o' && expr_eqb l l' && expr_eqb r r'
  | EBool o xs, EBool o' ys => boolop_eqb o o' && list_eqb xs ys
  | ETuple xs, ETuple ys | EList xs, EList ys | ESet xs, ESet ys => list_eqb xs ys
  | EDict xs, EDict ys =>
    (fix go (xs ys : list ditem) : bool :=
       match xs, ys with
       | [], [] => true
       | (k, v) :: xs', (k', v') :: ys' =>
         match k, k' with
         | Some k1, Some k2 => expr_eqb k1 k2
         | None, None => true
         | _, _ => false
         end && expr_eqb v v' && go xs' ys'
       | _, _ => false
       end) xs ys
  | ESub v s, ESub v' s' => expr_eqb v v' && expr_eqb s s'
  | ECall f xs ks, ECall f' ys ks' =>
    expr_eqb f f' && list_eqb xs ys &&
    (fix go (xs ys : list kwarg) : bool :=
       match xs, ys with
       | [], [] => true
       | (k, v) :: xs', (k', v') :: ys' =>
         match k, k' with
         | Some k1, Some k2 => text_eqb k1 k2
         | None, None => true
         | _, _ => false
         end && expr_eqb v v' && go xs' ys'
       | _, _ => false
       end) ks ks'
  | EStarred x, EStarred y => expr_eqb x y
  | _, _ => false
  end.

(* ---- source trees CPython's parser can produce (over these forms): a BoolOp has at least two values, Starred stands
   only as an element of a tuple/list/set display, of a subscript tuple or of a call's positional arguments ---- *)
Definition wf_elt (wf : expr -> bool) (e : expr) : bool :=
  match e with
  | EStarred y => wf y && negb (is_starred y)
  | _ => wf e
  end.

Fixpoint wf_source (e : expr) : bool :=
  let plain := fun x => wf_source x && negb (is_starred x) in
  match e with
  | ELeaf _ | EName _ => true
  | EAttr v _ _ => plain v
  | EUn _ x => plain x
  | EBin _ l r => plain l && plain r
  | EBool _ es => Nat.leb 2 (length es) && forallb plain es
  | ETuple es | EList es | ESet es => forallb (wf_elt wf_source) es
  | EDict items =>
    forallb (fun kv : ditem => match fst kv with Some k => plain k | None => true end && plain (snd kv)) items
  | ESub v sl =>
    plain v && match sl with
               | ETuple es => forallb (wf_elt wf_source) es
               | _ => plain sl
               end
  | ECall f args kws => plain f && forallb (wf_elt wf_source) args && forallb (fun kw : kwarg => plain (snd kw)) kws
  | EStarred x => plain x
  end.

(* the guard of C15_read_print: no tuple display with exactly one element, except as the index of a subscript
   (x[1,] is displayed with its comma) -- the recorded defect C15-one-tuple *)
Fixpoint no_one_tuple (e : expr) : bool :=
  match e with
  | ELeaf _ | EName _ => true
  | EAttr v _ _ => no_one_tuple v
  | EUn _ x => no_one_tuple x
  | EBin _ l r => no_one_tuple l && no_one_tuple r
  | EBool _ es | EList es | ESet es => forallb no_one_tuple es
  | ETuple es => negb (Nat.eqb (length es) 1) && forallb no_one_tuple es
  | EDict items =>
    forallb (fun kv : ditem => match fst kv with Some k => no_one_tuple k | None => true end && no_one_tuple (snd kv)) items
  | ESub v sl =>
    no_one_tuple v && match sl with
                      | ETuple es => forallb no_one_tuple es
                      | _ => no_one_tuple sl
                      end
  | ECall f args kws => no_one_tuple f && forallb no_one_tuple args && forallb (fun kw : kwarg => no_one_tuple (snd kw)) kws
  | EStarred x => no_one_tuple x
  end.
