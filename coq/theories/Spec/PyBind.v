(* Spec/PyBind.v -- what CPython 3.12 binds when it executes a module or class body of the MiniPy subset.
   Written from the language reference (name binding, class definitions, function definitions, decorators),
   NOT from pydoctor: this file does not import Model/Builder.v.

   py_exec returns None when the program leaves the agreed subset (or would raise at import time):
     * a name bound to a function or class is rebound by a plain assignment (except the old-style
       `x = staticmethod(x)` / `x = classmethod(x)` wrapping of a (possibly already wrapped) method of the same class body)
     * an alias `x = y` (bare name on the right), an annotation without value, `x = property(..)`
     * an assignment to __all__ / __docformat__ (module metadata)
     * `self.x = ..` outside a function body, an augmented assignment to a name that is not bound to a data value
     * a binding statement in an `else:`/`except`/`finally:` suite or in the body of an `if` that is false at import
       time (pydoctor walks `.body` suites only: outside the agreed subset, see C03_orelse_not_walked_observation)
     * decorators other than one of staticmethod/classmethod/property (class bodies only) plus transparent ones
     * an import or a loop variable re-using a name that is bound to a definition
     * a base class expression that is not a name (or module.Name for an imported module) evaluating to a class: looked up
       as Python does (the namespace executing the class statement, then the module globals, then the builtins); a name
       that an ENCLOSING class body binds, assigns through self or is itself being defined under is outside the subset
       (Python does not see those scopes, pydoctor's expandName does)
     * class decorators other than transparent ones.
   Names bound by `import` and by `for` are auxiliary bindings (VAux): they are in the namespace but are not
   definitions; `defs` drops them.  What an import binds (a class of another module with its exception flag and members,
   a module with its classes, anything else) is part of the Import statement (a resolved-bases oracle, see Model/MiniPy.v).
   Guards (record `guards`): g_shadow rejects a class-level assignment that would shadow an inherited method (known
   finding C03-inherited-method-shadowed); g_unpack rejects tuple unpacking into a name holding a literal value (known
   finding C03-type-after-tuple-unpacking).  py_exec has both off; the theorems say which they need.

   The spec is validated against CPython itself (adapter 2 of harness/c03.py imports the generated package in a
   subprocess and compares vars(module)/vars(class) with py_exec). *)
From Coq Require Import ZArith NArith List Bool.
From PydoctorVerif Require Import Base.Sexp Model.MiniPy.
Import ListNotations.

Inductive wrap := WNone | WStatic | WClassM | WProp.

Inductive pyval : Type :=
| VFun (async : bool) (w : wrap) (doc : option text)      (* a function object, possibly inside staticmethod/classmethod/property *)
| VClass (exc : bool) (doc : option text) (ns : list (name * pyval)) (mro : list (list (name * pyval))) (ivs : list name)
      (* exc: issubclass(cls, BaseException); ns: vars(cls); mro: the namespaces of the base classes, depth first;
         ivs: the names the methods of the class assign through self (class_ivars of its body) *)
| VData (v : option value)                                (* any other object; Some v: the value of a literal *)
| VAux (i : impinfo).                                     (* module object / imported object / loop variable *)

Definition env := list (name * pyval).
Inductive pscope := PModule | PClass.

Fixpoint alookup {X} (n : name) (l : list (name * X)) : option X :=
  match l with
  | [] => None
  | (m, v) :: r => if text_eqb n m then Some v else alookup n r
  end.

Definition plookup (n : name) (e : env) : option pyval := alookup n e.

(* namespace[n] = v : a dict keeps the position of an existing key *)
Fixpoint bind (n : name) (v : pyval) (e : env) : env :=
  match e with
  | [] => [(n, v)]
  | (m, w) :: r => if text_eqb n m then (m, v) :: r else (m, w) :: bind n v r
  end.

Definition is_aux (v : pyval) : bool := match v with VAux _ => true | _ => false end.
Definition defs (e : env) : env := filter (fun p => negb (is_aux (snd p))) e.
Definition pkeys (e : env) : list name := map fst e.

(* a data attribute (variable or property) as opposed to a function / class: what pydoctor calls an Attribute *)
Definition is_data (v : pyval) : bool :=
  match v with VData _ => true | VFun _ WProp _ => true | _ => false end.

(* attribute lookup along the base classes: the first namespace that binds the name to a definition *)
Fixpoint pfirst (n : name) (envs : list env) : option bool :=
  match envs with
  | [] => None
  | e :: r => match plookup n e with
              | Some v => if is_aux v then pfirst n r else Some (is_data v)
              | None => pfirst n r
              end
  end.

Record guards := mkGuards { g_shadow : bool; g_unpack : bool }.

(* ---- builtins ------------------------------------------------------------------------------- *)
(* every builtin class that is a subclass of BaseException (CPython 3.12, Lib/test/exception_hierarchy.txt) *)
Definition py_builtin_exceptions : list name := [
    [65;114;105;116;104;109;101;116;105;99;69;114;114;111;114] (* ArithmeticError *);
    [65;115;115;101;114;116;105;111;110;69;114;114;111;114] (* AssertionError *);
    [65;116;116;114;105;98;117;116;101;69;114;114;111;114] (* AttributeError *);
    [66;97;115;101;69;120;99;101;112;116;105;111;110] (* BaseException *);
    [66;97;115;101;69;120;99;101;112;116;105;111;110;71;114;111;117;112] (* BaseExceptionGroup *);
    [66;108;111;99;107;105;110;103;73;79;69;114;114;111;114] (* BlockingIOError *);
    [66;114;111;107;101;110;80;105;112;101;69;114;114;111;114] (* BrokenPipeError *);
    [66;117;102;102;101;114;69;114;114;111;114] (* BufferError *);
    [66;121;116;101;115;87;97;114;110;105;110;103] (* BytesWarning *);
    [67;104;105;108;100;80;114;111;99;101;115;115;69;114;114;111;114] (* ChildProcessError *);
    [67;111;110;110;101;99;116;105;111;110;65;98;111;114;116;101;100;69;114;114;111;114] (* ConnectionAbortedError *);
    [67;111;110;110;101;99;116;105;111;110;69;114;114;111;114] (* ConnectionError *);
    [67;111;110;110;101;99;116;105;111;110;82;101;102;117;115;101;100;69;114;114;111;114] (* ConnectionRefusedError *);
    [67;111;110;110;101;99;116;105;111;110;82;101;115;101;116;69;114;114;111;114] (* ConnectionResetError *);
    [68;101;112;114;101;99;97;116;105;111;110;87;97;114;110;105;110;103] (* DeprecationWarning *);
    [69;79;70;69;114;114;111;114] (* EOFError *);
    [69;110;99;111;100;105;110;103;87;97;114;110;105;110;103] (* EncodingWarning *);
    [69;110;118;105;114;111;110;109;101;110;116;69;114;114;111;114] (* EnvironmentError *);
    [69;120;99;101;112;116;105;111;110] (* Exception *);
    [69;120;99;101;112;116;105;111;110;71;114;111;117;112] (* ExceptionGroup *);
    [70;105;108;101;69;120;105;115;116;115;69;114;114;111;114] (* FileExistsError *);
    [70;105;108;101;78;111;116;70;111;117;110;100;69;114;114;111;114] (* FileNotFoundError *);
    [70;108;111;97;116;105;110;103;80;111;105;110;116;69;114;114;111;114] (* FloatingPointError *);
    [70;117;116;117;114;101;87;97;114;110;105;110;103] (* FutureWarning *);
    [71;101;110;101;114;97;116;111;114;69;120;105;116] (* GeneratorExit *);
    [73;79;69;114;114;111;114] (* IOError *);
    [73;109;112;111;114;116;69;114;114;111;114] (* ImportError *);
    [73;109;112;111;114;116;87;97;114;110;105;110;103] (* ImportWarning *);
    [73;110;100;101;110;116;97;116;105;111;110;69;114;114;111;114] (* IndentationError *);
    [73;110;100;101;120;69;114;114;111;114] (* IndexError *);
    [73;110;116;101;114;114;117;112;116;101;100;69;114;114;111;114] (* InterruptedError *);
    [73;115;65;68;105;114;101;99;116;111;114;121;69;114;114;111;114] (* IsADirectoryError *);
    [75;101;121;69;114;114;111;114] (* KeyError *);
    [75;101;121;98;111;97;114;100;73;110;116;101;114;114;117;112;116] (* KeyboardInterrupt *);
    [76;111;111;107;117;112;69;114;114;111;114] (* LookupError *);
    [77;101;109;111;114;121;69;114;114;111;114] (* MemoryError *);
    [77;111;100;117;108;101;78;111;116;70;111;117;110;100;69;114;114;111;114] (* ModuleNotFoundError *);
    [78;97;109;101;69;114;114;111;114] (* NameError *);
    [78;111;116;65;68;105;114;101;99;116;111;114;121;69;114;114;111;114] (* NotADirectoryError *);
    [78;111;116;73;109;112;108;101;109;101;110;116;101;100;69;114;114;111;114] (* NotImplementedError *);
    [79;83;69;114;114;111;114] (* OSError *);
    [79;118;101;114;102;108;111;119;69;114;114;111;114] (* OverflowError *);
    [80;101;110;100;105;110;103;68;101;112;114;101;99;97;116;105;111;110;87;97;114;110;105;110;103] (* PendingDeprecationWarning *);
    [80;101;114;109;105;115;115;105;111;110;69;114;114;111;114] (* PermissionError *);
    [80;114;111;99;101;115;115;76;111;111;107;117;112;69;114;114;111;114] (* ProcessLookupError *);
    [82;101;99;117;114;115;105;111;110;69;114;114;111;114] (* RecursionError *);
    [82;101;102;101;114;101;110;99;101;69;114;114;111;114] (* ReferenceError *);
    [82;101;115;111;117;114;99;101;87;97;114;110;105;110;103] (* ResourceWarning *);
    [82;117;110;116;105;109;101;69;114;114;111;114] (* RuntimeError *);
    [82;117;110;116;105;109;101;87;97;114;110;105;110;103] (* RuntimeWarning *);
    [83;116;111;112;65;115;121;110;99;73;116;101;114;97;116;105;111;110] (* StopAsyncIteration *);
    [83;116;111;112;73;116;101;114;97;116;105;111;110] (* StopIteration *);
    [83;121;110;116;97;120;69;114;114;111;114] (* SyntaxError *);
    [83;121;110;116;97;120;87;97;114;110;105;110;103] (* SyntaxWarning *);
    [83;121;115;116;101;109;69;114;114;111;114] (* SystemError *);
    [83;121;115;116;101;109;69;120;105;116] (* SystemExit *);
    [84;97;98;69;114;114;111;114] (* TabError *);
    [84;105;109;101;111;117;116;69;114;114;111;114] (* TimeoutError *);
    [84;121;112;101;69;114;114;111;114] (* TypeError *);
    [85;110;98;111;117;110;100;76;111;99;97;108;69;114;114;111;114] (* UnboundLocalError *);
    [85;110;105;99;111;100;101;68;101;99;111;100;101;69;114;114;111;114] (* UnicodeDecodeError *);
    [85;110;105;99;111;100;101;69;110;99;111;100;101;69;114;114;111;114] (* UnicodeEncodeError *);
    [85;110;105;99;111;100;101;69;114;114;111;114] (* UnicodeError *);
    [85;110;105;99;111;100;101;84;114;97;110;115;108;97;116;101;69;114;114;111;114] (* UnicodeTranslateError *);
    [85;110;105;99;111;100;101;87;97;114;110;105;110;103] (* UnicodeWarning *);
    [85;115;101;114;87;97;114;110;105;110;103] (* UserWarning *);
    [86;97;108;117;101;69;114;114;111;114] (* ValueError *);
    [87;97;114;110;105;110;103] (* Warning *);
    [90;101;114;111;68;105;118;105;115;105;111;110;69;114;114;111;114] (* ZeroDivisionError *)]%N.

(* a few builtin classes that are not exceptions: object int str bytes float dict list tuple set *)
Definition py_builtin_plain : list name := [
    [111;98;106;101;99;116]; [105;110;116]; [115;116;114]; [98;121;116;101;115]; [102;108;111;97;116];
    [100;105;99;116]; [108;105;115;116]; [116;117;112;108;101]; [115;101;116]]%N.

Definition py_builtin_class (b : name) : option bool :=
  if mem b py_builtin_exceptions then Some true
  else if mem b py_builtin_plain then Some false
  else None.                                    (* NameError *)

(* ---- decorators -------------------------------------------------------------------------------- *)
Definition p_staticmethod : text := [115;116;97;116;105;99;109;101;116;104;111;100]%N.
Definition p_classmethod : text := [99;108;97;115;115;109;101;116;104;111;100]%N.
Definition p_property : text := [112;114;111;112;101;114;116;121]%N.
Definition p_roperty : text := [114;111;112;101;114;116;121]%N.            (* "roperty" *)
Definition p_overload : text := [111;118;101;114;108;111;97;100]%N.

Fixpoint has_suffix (suffix t : text) : bool :=
  text_eqb suffix t || match t with [] => false | _ :: r => has_suffix suffix r end.

(* a decorator the subset treats as returning its argument unchanged: a single name that is none of the three
   builtin wrappers, does not look like a property decorator (`...property` / `...Property`) and is not `overload` *)
Definition transparent_name (n : name) : bool :=
  negb (text_eqb n p_staticmethod) && negb (text_eqb n p_classmethod) && negb (has_suffix p_roperty n)
  && negb (text_eqb n p_overload).

(* None: outside the subset; Some None: transparent; Some (Some w): one of the builtin wrappers *)
Definition deco_wrap (d : deco) : option (option wrap) :=
  match d with
  | DName [n] =>
      if text_eqb n p_staticmethod then Some (Some WStatic)
      else if text_eqb n p_classmethod then Some (Some WClassM)
      else if text_eqb n p_property then Some (Some WProp)
      else if transparent_name n then Some None else None
  | DCall [n] => if transparent_name n then Some None else None
  | _ => None
  end.

(* decorators are applied bottom-up; with transparent ones around it the single wrapper decides what is bound *)
Fixpoint def_wrap (sc : pscope) (ds : list deco) (acc : wrap) : option wrap :=
  match ds with
  | [] => Some acc
  | d :: r =>
      match deco_wrap d with
      | None => None
      | Some None => def_wrap sc r acc
      | Some (Some w) =>
          match sc, acc with
          | PClass, WNone => def_wrap sc r w
          | _, _ => None           (* a wrapper at module level, or two wrappers *)
          end
      end
  end.

(* ---- suites that bind nothing ---------------------------------------------------------------------- *)
Fixpoint nonbinding (x : stmt) : bool :=
  match x with
  | ExprStr _ | Other => true
  | If TMain _ orelse => forallb nonbinding orelse
  | If _ body orelse => forallb nonbinding body && forallb nonbinding orelse
  | Try body h o f => forallb nonbinding body && forallb nonbinding h && forallb nonbinding o && forallb nonbinding f
  | With body => forallb nonbinding body
  | While body orelse => forallb nonbinding body && forallb nonbinding orelse
  | _ => false
  end.
Definition nonbinding_suite (l : list stmt) : bool := forallb nonbinding l.

(* ---- option fold ----------------------------------------------------------------------------------- *)
Section OFold.
  Context {S X : Type}.
  Variable f : X -> S -> option S.
  Fixpoint ofold (l : list X) (s : S) : option S :=
    match l with
    | [] => Some s
    | x :: r => match f x s with Some s' => ofold r s' | None => None end
    end.
End OFold.

(* ---- bindings -------------------------------------------------------------------------------------- *)
(* __all__ and __docformat__ are module metadata, not variables to document: outside the subset *)
Definition py_meta_names : list name :=
  [[95;95;97;108;108;95;95]; [95;95;100;111;99;102;111;114;109;97;116;95;95]]%N.

(* a plain assignment must not rebind a function or class; under g_shadow it must not give a class a new variable
   whose name the base classes bind to a function or class *)
Definition bind_data (g : guards) (pinh : list env) (n : name) (v : pyval) (e : env) : option env :=
  if mem n py_meta_names then None else
  match plookup n e with
  | Some (VFun _ _ _) | Some (VClass _ _ _ _ _) => None
  | Some (VData _) => Some (bind n v e)
  | _ => match pfirst n pinh with
         | Some false => if g_shadow g then None else Some (bind n v e)
         | _ => Some (bind n v e)
         end
  end.

(* import / for: must not take over the name of a definition *)
Definition bind_aux (n : name) (i : impinfo) (e : env) : option env :=
  match plookup n e with
  | None | Some (VAux _) => Some (bind n (VAux i) e)
  | Some _ => None
  end.

(* ---- base classes -------------------------------------------------------------------------------------- *)
(* an enclosing scope while a class body executes: its namespace so far, the names its methods assign through self,
   and the name of the class being defined in it *)
Record frame := mkFrame { f_env : env; f_ivs : list name; f_pending : name }.

Inductive nres := NReject | NUnbound | NVal (v : pyval).

(* a name a class body assigns through self but does not bind (or only binds to an import / loop variable) is not
   visible to Python, but pydoctor documents it: outside the subset as a base-class name *)
Definition own_lookup (e : env) (ivs : list name) (b : name) : nres :=
  match plookup b e with
  | Some v => if is_aux v && mem b ivs then NReject else NVal v
  | None => if mem b ivs then NReject else NUnbound
  end.

Fixpoint outer_lookup (fr : list frame) (b : name) : nres :=
  match fr with
  | [] => NUnbound
  | f :: rest =>
      if text_eqb b (f_pending f) then NReject else
      match rest with
      | [] => own_lookup (f_env f) (f_ivs f) b          (* the module: globals *)
      | _ :: _ =>        (* an enclosing class body: not visible to Python, but searched by pydoctor *)
          if mem b (f_ivs f) || (match plookup b (f_env f) with Some _ => true | None => false end)
          then NReject else outer_lookup rest b
      end
  end.

Definition name_lookup (e : env) (ivs : list name) (fr : list frame) (b : name) : nres :=
  match own_lookup e ivs b with NUnbound => outer_lookup fr b | r => r end.

(* imported members as a namespace *)
Definition members_env (ms : members_t) : env :=
  map (fun p => (fst p, match snd p with MNonAttr => VFun false WNone None | MAttr _ => VData None end)) ms.

Definition class_info (v : pyval) : option (bool * list env) :=
  match v with
  | VClass x _ ns mro _ => Some (x, ns :: mro)
  | VAux (IClass x ms) => Some (x, [members_env ms])
  | _ => None
  end.

Definition base_info (e : env) (ivs : list name) (fr : list frame) (b : list name) : option (bool * list env) :=
  match b with
  | [x] => match name_lookup e ivs fr x with
           | NVal v => class_info v
           | NUnbound => match py_builtin_class x with Some exc => Some (exc, []) | None => None end
           | NReject => None
           end
  | [m; x] => match name_lookup e ivs fr m with
              | NVal (VAux (IModule cls)) =>
                  match alookup x cls with Some (exc, ms) => Some (exc, [members_env ms]) | None => None end
              | _ => None
              end
  | _ => None
  end.

Fixpoint bases_info (e : env) (ivs : list name) (fr : list frame) (bs : list (list name)) : option (bool * list env) :=
  match bs with
  | [] => Some (false, [])
  | b :: r => match base_info e ivs fr b, bases_info e ivs fr r with
              | Some (x, m1), Some (y, m2) => Some (x || y, m1 ++ m2)
              | _, _ => None
              end
  end.

(* the instance variables of a class: the `self.x = ...` / `self.x: T [= ...]` targets of assignment statements that are
   statements of a method of the class -- a def in the class body (also inside the body of an if/try/with/for/while there)
   that is not a property -- or of the body (not else/except/finally) of an if/try/with/for/while inside it, at any depth,
   but not inside a nested def or class and not under `if __name__ == '__main__':` *)
Definition self_attr (t : target) : list name := match t with TSelf a => [a] | _ => [] end.

Fixpoint method_ivars (x : stmt) : list name :=
  match x with
  | Assign ts _ => flat_map self_attr ts
  | AnnAssign t _ _ => self_attr t
  | If TMain _ _ => []
  | If _ b _ => flat_map method_ivars b
  | Try b _ _ _ => flat_map method_ivars b
  | With b => flat_map method_ivars b
  | For _ b _ => flat_map method_ivars b
  | While b _ => flat_map method_ivars b
  | _ => []
  end.

Fixpoint stmt_ivars (x : stmt) : list name :=
  match x with
  | Def _ ds _ body => match def_wrap PClass ds WNone with Some WProp | None => [] | Some _ => flat_map method_ivars body end
  | If TMain _ _ => []
  | If _ b _ => flat_map stmt_ivars b
  | Try b _ _ _ => flat_map stmt_ivars b
  | With b => flat_map stmt_ivars b
  | For _ b _ => flat_map stmt_ivars b
  | While b _ => flat_map stmt_ivars b
  | _ => []
  end.
Definition class_ivars (body : list stmt) : list name := flat_map stmt_ivars body.

(* the object an assignment statement `targets = r` stores *)
Definition assign_value (sc : pscope) (e : env) (ts : list target) (r : rhs) : option pyval :=
  match r with
  | RLit v => Some (VData (Some v))
  | ROther => Some (VData None)
  | RName _ => None
  | RCall f args =>
      if text_eqb f p_staticmethod || text_eqb f p_classmethod then
        match sc, ts, args with
        | PClass, [TName n], [a] =>
            if text_eqb n a then
              match plookup n e with
              | Some (VFun asy WProp d) => None
              | Some (VFun asy _ d) =>      (* a plain function or one already inside staticmethod/classmethod: the outer wrapper decides *)
                  Some (VFun asy (if text_eqb f p_staticmethod then WStatic else WClassM) d)
              | _ => None
              end
            else None
        | _, _, _ => None
        end
      else if text_eqb f p_property then None
      else Some (VData None)             (* any other call yields a plain data value (assumption of the subset) *)
  end.

Definition literal_bound (n : name) (e : env) : bool :=
  match plookup n e with Some (VData (Some _)) => true | _ => false end.

(* g_unpack: unpacking into a name that currently holds the value of a literal is outside the guarded subset
   (pydoctor keeps the type inferred from that literal, see C03_infer_stale_after_unpacking_refuted) *)
Definition bind_unpacked (g : guards) (pinh : list env) (n : name) (e : env) : option env :=
  if g_unpack g && literal_bound n e then None else bind_data g pinh n (VData None) e.

Definition bind_target (g : guards) (pinh : list env) (v : pyval) (t : target) (e : env) : option env :=
  match t with
  | TName n => match v with
               | VFun _ _ _ => Some (bind n v e)        (* only produced by the old-style wrapping of n itself *)
               | _ => bind_data g pinh n v e
               end
  | TTuple ns => ofold (bind_unpacked g pinh) ns e
  | TSelf _ => None                                     (* NameError: self is not defined in a module/class body *)
  end.

Definition transparent_deco (d : deco) : bool := match deco_wrap d with Some None => true | _ => false end.

(* py_stmt g x sc pinh ivs fr e : execute x in namespace e of a module / class body;
   pinh: the namespaces of the base classes of the class whose body this is; ivs: the names its methods assign through
   self; fr: the enclosing scopes (innermost first, the module last) *)
Fixpoint py_stmt (g : guards) (x : stmt) (sc : pscope) (pinh : list env) (ivs : list name) (fr : list frame) (e : env)
         {struct x} : option env :=
  match x with
  | Def nm decos asy body =>
      match def_wrap sc decos WNone with
      | Some w => Some (bind nm (VFun asy w (docstring_of body)) e)
      | None => None
      end
  | Class nm bases cdecos body =>
      if forallb transparent_deco cdecos then
        match bases_info e ivs fr bases with
        | Some (exc, mro) =>
            match ofold (fun y e' => py_stmt g y PClass mro (class_ivars body) (mkFrame e ivs nm :: fr) e') body [] with
            | Some ns => Some (bind nm (VClass exc (docstring_of body) ns mro (class_ivars body)) e)
            | None => None
            end
        | None => None
        end
      else None
  | Assign ts r =>
      match assign_value sc e ts r with
      | Some v => ofold (bind_target g pinh v) ts e
      | None => None
      end
  | AnnAssign (TName n) _ (Some r) =>
      match assign_value sc e [TName n] r with
      | Some v => bind_target g pinh v (TName n) e
      | None => None
      end
  | AnnAssign _ _ _ => None
  | AugAssign (TName n) _ =>
      if mem n py_meta_names then None else
      match plookup n e with
      | Some (VData _) => Some (bind n (VData None) e)
      | _ => None
      end
  | AugAssign _ _ => None
  | ExprStr _ => Some e
  | Other => Some e
  | If TMain _ orelse => if nonbinding_suite orelse then Some e else None          (* body not executed on import *)
  | If TTrue body orelse => if nonbinding_suite orelse then ofold (fun y e' => py_stmt g y sc pinh ivs fr e') body e else None
  | If TFalse body orelse => if nonbinding_suite body && nonbinding_suite orelse then Some e else None
  | Try body h o f =>
      if nonbinding_suite h && nonbinding_suite o && nonbinding_suite f
      then ofold (fun y e' => py_stmt g y sc pinh ivs fr e') body e else None
  | With body => ofold (fun y e' => py_stmt g y sc pinh ivs fr e') body e
  | For tgt body orelse =>
      if nonbinding_suite orelse then
        match bind_aux tgt IOther e with
        | Some e1 => ofold (fun y e' => py_stmt g y sc pinh ivs fr e') body e1
        | None => None
        end
      else None
  | While body orelse => if nonbinding_suite orelse then ofold (fun y e' => py_stmt g y sc pinh ivs fr e') body e else None
  | Import ns => ofold (fun p e' => bind_aux (fst p) (snd p) e') ns e
  end.

Definition py_body (g : guards) (sc : pscope) (pinh : list env) (ivs : list name) (fr : list frame)
           (body : list stmt) (e : env) : option env :=
  ofold (fun y e' => py_stmt g y sc pinh ivs fr e') body e.

(* py_exec: the agreed subset (no guard).  py_exec_names: minus class variables shadowing an inherited method.
   py_exec_strict: minus, also, tuple unpacking into a name holding a literal.  Each is a restriction of the previous one. *)
Definition py_exec_g (g : guards) (prog : list stmt) : option env := py_body g PModule [] [] [] prog [].
Definition py_exec (prog : list stmt) : option env := py_exec_g (mkGuards false false) prog.
Definition py_exec_names (prog : list stmt) : option env := py_exec_g (mkGuards true false) prog.
Definition py_exec_strict (prog : list stmt) : option env := py_exec_g (mkGuards true true) prog.

(* ---- the type of a literal value ---------------------------------------------------------------------- *)
Definition py_type_name (v : value) : text :=
  match v with
  | LInt _ => [105;110;116] | LBool _ => [98;111;111;108] | LStr _ => [115;116;114] | LBytes _ => [98;121;116;101;115]
  | LFloat _ => [102;108;111;97;116] | LNone => [78;111;110;101;84;121;112;101] | LList _ => [108;105;115;116]
  | LTuple _ => [116;117;112;108;101] | LSet _ => [115;101;116] | LDict _ _ => [100;105;99;116]
  end%N.

Definition py_elems (v : value) : list value :=
  match v with LList l | LTuple l | LSet l => l | LDict ks _ => ks | _ => [] end.
Definition py_dict_values (v : value) : list value := match v with LDict _ vs => vs | _ => [] end.

(* "annotation t describes value v": the container name is type(v).__name__ and every element (key, value)
   has exactly the named type -- so `list[int]` does not describe [True, 1] *)
Definition denotes (t : annot) (v : value) : Prop :=
  match t with
  | AName n => py_type_name v = n
  | ASub1 c e => py_type_name v = c /\ (exists l, v = LList l \/ v = LSet l) /\ Forall (fun x => py_type_name x = e) (py_elems v)
  | ATupleOf e => (exists l, v = LTuple l) /\ Forall (fun x => py_type_name x = e) (py_elems v)
  | ADict k w => (exists ks vs, v = LDict ks vs) /\ Forall (fun x => py_type_name x = k) (py_elems v)
                 /\ Forall (fun x => py_type_name x = w) (py_dict_values v)
  end.

(* ---- wire encoding -------------------------------------------------------------------------------------
   val    : (0 async wrap doc) | (1 exc doc (entries)) | (2 ty) | (3)      wrap: 0 none 1 static 2 classm 3 property
   ty     : () | ((name (elem type names) (dict value type names)))
   result : (0) | (1 (entries))                                                                            *)
Definition wrap_Z (w : wrap) : Z := match w with WNone => 0 | WStatic => 1 | WClassM => 2 | WProp => 3 end.

Definition ty_sexp (v : value) : sexp :=
  L [of_text (py_type_name v); L (map (fun x => of_text (py_type_name x)) (py_elems v));
     L (map (fun x => of_text (py_type_name x)) (py_dict_values v))].

Fixpoint pyval_sexp (v : pyval) : sexp :=
  match v with
  | VFun a w d => L [A 0; of_bool a; A (wrap_Z w); of_option of_text d]
  | VClass e d ns _ _ => L [A 1; of_bool e; of_option of_text d; L (map (fun p => L [of_text (fst p); pyval_sexp (snd p)]) ns)]
  | VData t => L [A 2; of_option ty_sexp t]
  | VAux _ => L [A 3]
  end.

Definition env_sexp (e : env) : sexp := L (map (fun p => L [of_text (fst p); pyval_sexp (snd p)]) e).

Definition py_result_sexp (r : option env) : sexp :=
  match r with None => L [A 0] | Some e => L [A 1; env_sexp e] end.
