(* Spec/Walk.v -- the documented contract of Visitor.walkabout / walk, written without looking at the
   control flow of the implementation: which part of the tree is traversed under a pruning assignment
   (docstrings of SkipChildren / SkipSiblings / SkipNode / SkipDeparture), and what each participant
   must see of it (documentation of When.BEFORE / AFTER / INNER / OUTTER). *)
From Coq Require Import ZArith NArith List Bool.
From PydoctorVerif Require Import Base.Sexp Model.Visitor.
Import ListNotations.

Section Spec.
  Variable prune : N -> option action.

  Definition skips_kids (n : N) : bool :=
    match prune n with Some SkipChildren | Some SkipNode => true | _ => false end.
  Definition skips_siblings (n : N) : bool :=
    match prune n with Some SkipSiblings => true | _ => false end.
  Definition main_departs (n : N) : bool :=
    match prune n with Some SkipNode | Some SkipDeparture => false | _ => true end.

  (* The part of the tree that is traversed: children dropped under SkipChildren/SkipNode, later
     siblings dropped after a SkipSiblings node (whose own children and departure are unaffected). *)
  Fixpoint traversed (t : tree) : tree :=
    match t with
    | Node n kids =>
      Node n (if skips_kids n then []
              else (fix go (ks : list tree) : list tree :=
                      match ks with
                      | [] => []
                      | (Node m _ as k) :: ks' => traversed k :: (if skips_siblings m then [] else go ks')
                      end) kids)
    end.

  (* walk(): as above, except that a SkipSiblings node also loses its children (the exception leaves
     walk() before they are iterated) -- this is what the unchanged walk() does and C19 does not
     constrain it; stated so the theorem about walk is exact. *)
  Fixpoint traversed_walk (t : tree) : tree :=
    match t with
    | Node n kids =>
      Node n (if skips_kids n || skips_siblings n then []
              else (fix go (ks : list tree) : list tree :=
                      match ks with
                      | [] => []
                      | (Node m _ as k) :: ks' => traversed_walk k :: (if skips_siblings m then [] else go ks')
                      end) kids)
    end.

  (* What one participant must see of a traversed tree: enter, the children in order, leave
     (leave only where `leaves n`). Balanced and nested like the tree by construction. *)
  Fixpoint dfs (p : N) (leaves : N -> bool) (t : tree) : list event :=
    match t with
    | Node n kids =>
      [Ev p Enter n] ++ flat_map (dfs p leaves) kids ++ (if leaves n then [Ev p Leave n] else [])
    end.

  Fixpoint preorder (t : tree) : list N :=
    match t with Node n kids => n :: flat_map preorder kids end.
  Fixpoint postorder (t : tree) : list N :=
    match t with Node n kids => flat_map postorder kids ++ [n] end.
End Spec.

(* documented relative order of the participants *)
Definition enter_order (exts : list ext) : list N :=
  (before_ exts ++ outter_ exts) ++ [main_id] ++ (after_ exts ++ inner_ exts).
Definition leave_order (exts : list ext) : list N :=
  (before_ exts ++ inner_ exts) ++ [main_id] ++ (after_ exts ++ outter_ exts).

Definition leaves_of (prune : N -> option action) (p : N) : N -> bool :=
  if N.eqb p main_id then main_departs prune else fun _ => true.

Definition who_is (p : N) (e : event) : bool := N.eqb (who e) p.
Definition is_enter (e : event) : bool := match edir e with Enter => true | Leave => false end.
Definition is_leave (e : event) : bool := negb (is_enter e).
