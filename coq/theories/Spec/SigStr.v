(* Spec/SigStr.v -- what CPython 3.12 does with a parameter list, written after CPython, not after pydoctor:

     * the parameter class of inspect / inspect.Signature.__init__ (validation), the __str__ of a parameter /
       Signature.__str__  ->  signature_init, param_str, sig_str
     * the `def` parameter grammar (Grammar/python.gram: parameters, star_etc, kwds)  ->  lex, read_sig
     * how the parser stores defaults in ast.arguments (right-aligned `defaults`, per-parameter
       `kw_defaults`)  ->  src_sig, to_ast_defaults ...   (see Model/Sig.v for ast_args itself)

   Default values and annotations are expressions; their text is not this file's business (C15):
   sig_str produces text with holes (`PE e`) where Signature.__str__ calls repr() on the object that
   pydoctor put there.  Every definition here is validated against the installed CPython by
   harness/c14.py (str(inspect.Signature(...)), inspect's ValueError, ast.parse of the printed text). *)
From Coq Require Import ZArith NArith List Bool.
From PydoctorVerif Require Import Base.Sexp.
Import ListNotations.
Local Open Scope N_scope.

(* ---- expressions ---------------------------------------------------------------------------- *)
(* Just enough structure for what C14 depends on: the constant None, string constants (with the result
   of CPython's ast.parse on their value, an oracle: None = SyntaxError / not one expression),
   subscripts, names and attributes (for the Literal[...] test); every other node is a tag + its fields
   that hold nodes, in ast.iter_fields order (a field holding a list of nodes is an EList). *)
Inductive expr : Type :=
| ENoneLit
| EStr (sid : N) (parse : option expr)
| ESub (v s : expr)
| EName (id : text)
| EAttr (v : expr) (attr : text)
| ENode (tag : N) (kids : list expr)     (* kids: the node-valued fields, in order; a list-valued field is one EList kid *)
| EList (l : list expr).                 (* not a node: the value of a list-valued field *)

Fixpoint text_eqb (a b : text) : bool :=
  match a, b with
  | [], [] => true
  | x :: a', y :: b' => N.eqb x y && text_eqb a' b'
  | _, _ => false
  end.
Definition mem_text (x : text) (l : list text) : bool := existsb (text_eqb x) l.

(* ---- inspect: parameter / Signature ---------------------------------------------------- *)
Inductive kind := POSITIONAL_ONLY | POSITIONAL_OR_KEYWORD | VAR_POSITIONAL | KEYWORD_ONLY | VAR_KEYWORD.
Definition kind_rank (k : kind) : N :=
  match k with
  | POSITIONAL_ONLY => 0 | POSITIONAL_OR_KEYWORD => 1 | VAR_POSITIONAL => 2 | KEYWORD_ONLY => 3 | VAR_KEYWORD => 4
  end.
Definition kind_eqb (a b : kind) : bool := N.eqb (kind_rank a) (kind_rank b).
Definition is_positional (k : kind) : bool :=
  match k with POSITIONAL_ONLY | POSITIONAL_OR_KEYWORD => true | _ => false end.

Record param := mkParam { pname : text; pkind : kind; pdefault : option expr; pannot : option expr }.
Record signature := mkSig { sig_params : list param; sig_ret : option expr }.

Inductive sig_error := WrongOrder | NonDefaultAfterDefault | DuplicateName.

(* the loop of Signature.__init__ (with __validate_parameters__): top_kind, seen_default, params *)
Fixpoint sig_validate (top : kind) (seen_default : bool) (seen : list text) (ps : list param) : option sig_error :=
  match ps with
  | [] => None
  | p :: r =>
    let k := pkind p in
    if kind_rank k <? kind_rank top then Some WrongOrder else
    let top' := if kind_rank top <? kind_rank k then k else top in
    let chk := if is_positional k then
                 match pdefault p with
                 | None => if seen_default then None else Some seen_default
                 | Some _ => Some true
                 end
               else Some seen_default in
    match chk with
    | None => Some NonDefaultAfterDefault
    | Some sd' =>
      if mem_text (pname p) seen then Some DuplicateName
      else sig_validate top' sd' (pname p :: seen) r
    end
  end.

Definition signature_init (ps : list param) (ret : option expr) : sig_error + signature :=
  match sig_validate POSITIONAL_ONLY false [] ps with
  | Some e => inl e
  | None => inr (mkSig ps ret)
  end.

(* text with holes *)
Inductive piece := PC (c : N) | PE (e : expr).
Definition pcs (t : text) : list piece := map PC t.

(* __str__ of one parameter *)
Definition param_str (p : param) : list piece :=
  let f0 := pcs (pname p) in
  let f1 := match pannot p with
            | Some a => f0 ++ pcs [58; 32] ++ [PE a]                       (* '{}: {}' *)
            | None => f0
            end in
  let f2 := match pdefault p with
            | Some d =>
              match pannot p with
              | Some _ => f1 ++ pcs [32; 61; 32] ++ [PE d]                 (* '{} = {}' *)
              | None => f1 ++ pcs [61] ++ [PE d]                           (* '{}={}' *)
              end
            | None => f1
            end in
  match pkind p with
  | VAR_POSITIONAL => PC 42 :: f2
  | VAR_KEYWORD => PC 42 :: PC 42 :: f2
  | _ => f2
  end.

(* the loop of Signature.__str__: the entries appended to `result`, in order.
   rp = render_pos_only_separator, rk = render_kw_only_separator *)
Fixpoint sig_loop (rp rk : bool) (ps : list param) : list (list piece) :=
  match ps with
  | [] => if rp then [[PC 47]] else []
  | p :: r =>
    let k := pkind p in
    let is_po := kind_eqb k POSITIONAL_ONLY in
    let sep1 := if is_po then [] else if rp then [[PC 47]] else [] in
    let rp' := is_po in
    let sep2 := if kind_eqb k VAR_POSITIONAL then []
                else if kind_eqb k KEYWORD_ONLY && rk then [[PC 42]] else [] in
    let rk' := if kind_eqb k VAR_POSITIONAL then false
               else if kind_eqb k KEYWORD_ONLY && rk then false else rk in
    sep1 ++ sep2 ++ [param_str p] ++ sig_loop rp' rk' r
  end.

Fixpoint join (sep : list piece) (l : list (list piece)) : list piece :=
  match l with
  | [] => []
  | [x] => x
  | x :: r => x ++ sep ++ join sep r
  end.

Definition ret_str (ret : option expr) : list piece :=
  match ret with Some a => pcs [32; 45; 62; 32] ++ [PE a] | None => [] end.   (* ' -> {}' *)

Definition sig_str (s : signature) : list piece :=
  PC 40 :: join [PC 44; PC 32] (sig_loop false true (sig_params s)) ++ [PC 41] ++ ret_str (sig_ret s).

(* ---- reading a parameter list back: the `def` grammar ------------------------------------------ *)
Inductive token :=
| TL | TR | TComma | TSlash | TStar | TDStar | TColon | TEq | TArrow
| TName (n : text) | TExpr (e : expr) | TBad (c : N).

(* identifier characters: ASCII letters, digits, underscore, and everything non-ASCII *)
Definition is_ident_char (c : N) : bool :=
  ((48 <=? c) && (c <=? 57)) || ((65 <=? c) && (c <=? 90)) || ((97 <=? c) && (c <=? 122)) || (c =? 95) || (128 <=? c).

Inductive lstate := LS0 | LSId (acc : text) | LSStar | LSMinus.

Definition flush_st (st : lstate) : list token :=
  match st with LS0 => [] | LSId a => [TName a] | LSStar => [TStar] | LSMinus => [TBad 45] end.

Definition punct (c : N) : token :=
  match c with
  | 40 => TL | 41 => TR | 44 => TComma | 47 => TSlash | 58 => TColon | 61 => TEq
  | _ => TBad c
  end.

Fixpoint lex (st : lstate) (l : list piece) : list token :=
  match l with
  | [] => flush_st st
  | PE e :: r => flush_st st ++ TExpr e :: lex LS0 r
  | PC c :: r =>
    if is_ident_char c then
      match st with
      | LSId a => lex (LSId (a ++ [c])) r
      | _ => flush_st st ++ lex (LSId [c]) r
      end
    else if c =? 42 then
      match st with
      | LSStar => TDStar :: lex LS0 r
      | _ => flush_st st ++ lex LSStar r
      end
    else if c =? 45 then flush_st st ++ lex LSMinus r
    else if c =? 62 then
      match st with
      | LSMinus => TArrow :: lex LS0 r
      | _ => flush_st st ++ TBad 62 :: lex LS0 r
      end
    else if c =? 32 then flush_st st ++ lex LS0 r
    else flush_st st ++ punct c :: lex LS0 r
  end.

(* one comma-separated entry of a parameter list *)
Inductive item :=
| ISlash | IStar
| IVar (n : text) (a : option expr)                      (* *name[: a] *)
| IKwargs (n : text) (a : option expr)                   (* **name[: a] *)
| IPlain (n : text) (a : option expr) (d : option expr). (* name[: a][= d] *)

Definition is_comma (t : token) : bool := match t with TComma => true | _ => false end.
Definition is_rpar (t : token) : bool := match t with TR => true | _ => false end.

(* always at least one segment *)
Fixpoint split_commas (l : list token) : list (list token) :=
  match l with
  | [] => [[]]
  | t :: r =>
    if is_comma t then [] :: split_commas r
    else match split_commas r with
         | s :: ss => (t :: s) :: ss
         | [] => [[t]]
         end
  end.

(* tokens before the first ')' and those after it *)
Fixpoint break_rpar (l : list token) : option (list token * list token) :=
  match l with
  | [] => None
  | t :: r =>
    if is_rpar t then Some ([], r)
    else match break_rpar r with
         | Some (b, a) => Some (t :: b, a)
         | None => None
         end
  end.

Definition parse_item (seg : list token) : option item :=
  match seg with
  | [TSlash] => Some ISlash
  | [TStar] => Some IStar
  | [TStar; TName n] => Some (IVar n None)
  | [TStar; TName n; TColon; TExpr a] => Some (IVar n (Some a))
  | [TDStar; TName n] => Some (IKwargs n None)
  | [TDStar; TName n; TColon; TExpr a] => Some (IKwargs n (Some a))
  | [TName n] => Some (IPlain n None None)
  | [TName n; TColon; TExpr a] => Some (IPlain n (Some a) None)
  | [TName n; TEq; TExpr d] => Some (IPlain n None (Some d))
  | [TName n; TColon; TExpr a; TEq; TExpr d] => Some (IPlain n (Some a) (Some d))
  | _ => None
  end.

Fixpoint parse_items (segs : list (list token)) : option (list item) :=
  match segs with
  | [] => Some []
  | s :: r =>
    match parse_item s, parse_items r with
    | Some i, Some is_ => Some (i :: is_)
    | _, _ => None
    end
  end.

(* items before the first '/', and the items after it if there is one *)
Fixpoint split_slash (its : list item) : list item * option (list item) :=
  match its with
  | [] => ([], None)
  | ISlash :: r => ([], Some r)
  | i :: r => let '(b, a) := split_slash r in (i :: b, a)
  end.

(* a run of plain parameters of one kind; a parameter without default after one with default is an error.
   Returns the parameters and the new seen-default flag *)
Fixpoint plain_params (k : kind) (sd : bool) (its : list item) : option (list param * bool) :=
  match its with
  | [] => Some ([], sd)
  | IPlain n a d :: r =>
    let sd' := match d with Some _ => Some true | None => if sd then None else Some false end in
    match sd' with
    | None => None
    | Some sd2 =>
      match plain_params k sd2 r with
      | Some (ps, sd3) => Some (mkParam n k d a :: ps, sd3)
      | None => None
      end
    end
  | _ => None
  end.

Inductive phase := PhPos | PhStar | PhKw | PhDone.

(* everything after the optional '/' *)
Fixpoint classify (ph : phase) (sd : bool) (its : list item) : option (list param) :=
  match its with
  | [] => match ph with PhStar => None | _ => Some [] end
  | it :: r =>
    match ph, it with
    | PhPos, IPlain n a d =>
      match d with
      | Some _ => option_map (cons (mkParam n POSITIONAL_OR_KEYWORD d a)) (classify PhPos true r)
      | None => if sd then None
                else option_map (cons (mkParam n POSITIONAL_OR_KEYWORD d a)) (classify PhPos false r)
      end
    | PhPos, IStar => classify PhStar sd r
    | PhPos, IVar n a => option_map (cons (mkParam n VAR_POSITIONAL None a)) (classify PhKw sd r)
    | PhPos, IKwargs n a => option_map (cons (mkParam n VAR_KEYWORD None a)) (classify PhDone sd r)
    | PhStar, IPlain n a d => option_map (cons (mkParam n KEYWORD_ONLY d a)) (classify PhKw sd r)
    | PhKw, IPlain n a d => option_map (cons (mkParam n KEYWORD_ONLY d a)) (classify PhKw sd r)
    | PhKw, IKwargs n a => option_map (cons (mkParam n VAR_KEYWORD None a)) (classify PhDone sd r)
    | _, _ => None
    end
  end.

Definition read_items (its : list item) : option (list param) :=
  match split_slash its with
  | (before, Some after) =>
    match before with
    | [] => None
    | _ =>
      match plain_params POSITIONAL_ONLY false before with
      | Some (po, sd) => option_map (app po) (classify PhPos sd after)
      | None => None
      end
    end
  | (_, None) => classify PhPos false its
  end.

Definition read_ret (after : list token) : option (option expr) :=
  match after with
  | [] => Some None
  | [TArrow; TExpr a] => Some (Some a)
  | _ => None
  end.

(* '(' [items] ')' ['->' expr] *)
Definition read_sig (toks : list token) : option signature :=
  match toks with
  | TL :: r =>
    match break_rpar r with
    | Some (body, after) =>
      match read_ret after with
      | Some ret =>
        match body with
        | [] => Some (mkSig [] ret)
        | _ =>
          match parse_items (split_commas body) with
          | Some its =>
            match read_items its with
            | Some ps => Some (mkSig ps ret)
            | None => None
            end
          | None => None
          end
        end
      | None => None
      end
    | None => None
    end
  | _ => None
  end.

(* ---- how the parser stores what was written ---------------------------------------------------- *)
(* A parameter as written: name [: annotation] [= default] *)
Record sparam := mkSparam { sp_name : text; sp_annot : option expr; sp_default : option expr }.
(* *name[: annotation] -- the grammar allows no default here *)
Record svar := mkSvar { sv_name : text; sv_annot : option expr }.

Record src_sig := mkSrc {
  s_posonly : list sparam;        (* before '/' *)
  s_args : list sparam;           (* up to '*' / '*args' *)
  s_vararg : option svar;
  s_kwonly : list sparam;
  s_kwarg : option svar;
  s_returns : option expr }.

(* "parameter without a default follows parameter with a default" is a SyntaxError for the positional
   parameters (posonly ++ args); keyword-only parameters may mix freely. *)
Fixpoint defaults_monotone (seen : bool) (l : list sparam) : bool :=
  match l with
  | [] => true
  | p :: r =>
    match sp_default p with
    | Some _ => defaults_monotone true r
    | None => negb seen && defaults_monotone false r
    end
  end.

(* a bare '*' must be followed by a keyword-only parameter: nothing to state here, s_vararg = None and
   s_kwonly = [] simply means no '*' was written *)
Definition valid_src (s : src_sig) : Prop := defaults_monotone false (s_posonly s ++ s_args s) = true.

(* ast.arguments.defaults: the defaults of the positional parameters that have one, in order *)
Definition src_defaults (s : src_sig) : list expr :=
  flat_map (fun p => match sp_default p with Some d => [d] | None => [] end) (s_posonly s ++ s_args s).
(* ast.arguments.kw_defaults: one entry per keyword-only parameter *)
Definition src_kw_defaults (s : src_sig) : list (option expr) := map sp_default (s_kwonly s).

(* the parameters as written, with their kinds *)
Definition params_of_src (s : src_sig) : list param :=
  map (fun p => mkParam (sp_name p) POSITIONAL_ONLY (sp_default p) (sp_annot p)) (s_posonly s)
  ++ map (fun p => mkParam (sp_name p) POSITIONAL_OR_KEYWORD (sp_default p) (sp_annot p)) (s_args s)
  ++ match s_vararg s with Some v => [mkParam (sv_name v) VAR_POSITIONAL None (sv_annot v)] | None => [] end
  ++ map (fun p => mkParam (sp_name p) KEYWORD_ONLY (sp_default p) (sp_annot p)) (s_kwonly s)
  ++ match s_kwarg s with Some v => [mkParam (sv_name v) VAR_KEYWORD None (sv_annot v)] | None => [] end.

(* ---- unstringing, as a relation (PEP 484 forward references; typing.Literal arguments are data) ---- *)
Definition lit_name : text := [76; 105; 116; 101; 114; 97; 108].   (* "Literal" *)
Definition is_literal_head (e : expr) : bool :=
  match e with
  | EName id => text_eqb id lit_name
  | EAttr _ attr => text_eqb attr lit_name
  | _ => false
  end.

(* unstrung e e' : e' is e with every string constant replaced by the expression it spells (recursively),
   except inside the slice of a subscript whose (unstrung) value is Literal / x.Literal *)
Inductive unstrung : expr -> expr -> Prop :=
| U_none : unstrung ENoneLit ENoneLit
| U_str : forall sid p p', unstrung p p' -> unstrung (EStr sid (Some p)) p'
| U_name : forall id, unstrung (EName id) (EName id)
| U_attr : forall v v' a, unstrung v v' -> unstrung (EAttr v a) (EAttr v' a)
| U_sub_lit : forall v v' s, unstrung v v' -> is_literal_head v' = true -> unstrung (ESub v s) (ESub v' s)
| U_sub : forall v v' s s', unstrung v v' -> is_literal_head v' = false -> unstrung s s' ->
                            unstrung (ESub v s) (ESub v' s')
| U_node : forall t ks ks', Forall2 unstrung ks ks' -> unstrung (ENode t ks) (ENode t ks')
| U_list : forall l l', Forall2 unstrung l l' -> unstrung (EList l) (EList l').

(* bad_string e : some string constant that would have to be replaced does not spell one expression *)
Inductive bad_string : expr -> Prop :=
| B_str : forall sid, bad_string (EStr sid None)
| B_str_in : forall sid p, bad_string p -> bad_string (EStr sid (Some p))
| B_attr : forall v a, bad_string v -> bad_string (EAttr v a)
| B_sub_v : forall v s, bad_string v -> bad_string (ESub v s)
| B_sub_s : forall v v' s, unstrung v v' -> is_literal_head v' = false -> bad_string s -> bad_string (ESub v s)
| B_node : forall t ks, Exists bad_string ks -> bad_string (ENode t ks)
| B_list : forall l, Exists bad_string l -> bad_string (EList l).

(* partly e e' : e' is e with SOME of its string constants replaced (each completely, by what `unstrung` gives
   for it), never inside the slice of a Literal[...] subscript. What is displayed for an annotation that
   cannot be unstrung completely must at least be this. *)
Inductive partly : expr -> expr -> Prop :=
| P_keep : forall e, partly e e
| P_full : forall e e', unstrung e e' -> partly e e'
| P_sub : forall v v' s s', partly v v' -> partly s s' ->
                            (forall v2, unstrung v v2 -> is_literal_head v2 = true -> s' = s) ->
                            partly (ESub v s) (ESub v' s')
| P_attr : forall v v' a, partly v v' -> partly (EAttr v a) (EAttr v' a)
| P_node : forall t ks ks', Forall2 partly ks ks' -> partly (ENode t ks) (ENode t ks')
| P_list : forall l l', Forall2 partly l l' -> partly (EList l) (EList l').
