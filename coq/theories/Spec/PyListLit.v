(* Spec/PyListLit.v -- ast.literal_eval(text) followed by [str(i) for i in l], for a text that is a
   Python list display whose items are un-prefixed string literals or plain decimal integers:

       [ ws* ( item ws* ( , ws* item ws* )* ( , ws* )? )? ] ws*        ws = space, TAB, LF, FF

   Everything else (comments, nested displays, names, floats, operators, implicit concatenation,
   prefixes, underscores in numbers) is LsUnsup: "not decided by this spec".  LsErr is only claimed
   where CPython certainly raises: an unterminated display or an item that is a malformed string
   literal.  Written without looking at pydoctor; validated against CPython by harness/c20.py. *)
From Coq Require Import ZArith NArith List Bool.
From PydoctorVerif Require Import Base.Sexp Spec.PyStrLit.
Import ListNotations.
Local Open Scope N_scope.

Inductive lres : Type :=
| LsOk (l : list text)
| LsErr
| LsUnsup.

Fixpoint skip_ws (s : text) : text :=
  match s with
  | [] => []
  | c :: r => if is_blank c then skip_ws r else s
  end.

Definition is_digit (c : N) : bool := (48 <=? c) && (c <=? 57).

Fixpoint take_digits (s : text) : text * text :=
  match s with
  | [] => ([], [])
  | c :: r => if is_digit c then let (d, rest) := take_digits r in (c :: d, rest) else ([], s)
  end.

Inductive item_res : Type :=
| ItOk (t rest : text)
| ItErr
| ItUnsup.

(* str(int literal): the digits themselves when there is no leading zero; a minus sign in front of a
   non-zero number stays *)
Definition read_int (s : text) : item_res :=
  let (neg, s1) := match s with c :: r => if c =? 45 then (true, r) else (false, s) | [] => (false, s) end in
  match take_digits s1 with
  | ([], _) => ItUnsup
  | (d :: ds, rest) =>
      if (d =? 48) then (if neg then ItUnsup else match ds with [] => ItOk [48] rest | _ => ItUnsup end)
      else
        match rest with
        | c :: _ => if (c =? 95) || (c =? 46) || (c =? 101) || (c =? 69) || (c =? 106) || (c =? 74)
                    then ItUnsup
                    else ItOk (if neg then 45 :: d :: ds else d :: ds) rest
        | [] => ItOk (if neg then 45 :: d :: ds else d :: ds) rest
        end
  end.

Definition read_item (s : text) : item_res :=
  match s with
  | [] => ItUnsup
  | q :: r =>
      if is_quote q then
        let (triple, r') := open_quote q r in
        match body q triple r' with
        | LOk t rest => ItOk t rest
        | LErr => ItErr
        | LUnsup => ItUnsup
        end
      else read_int s
  end.

(* s: the text after `[` or after a comma.  fuel: one unit per item. *)
Fixpoint list_items (fuel : nat) (s : text) (acc : list text) : lres :=
  match fuel with
  | O => LsUnsup
  | S f =>
    match skip_ws s with
    | [] => LsErr                                            (* `[` was never closed *)
    | c :: r =>
      if c =? 93 then (if blank_tail r then LsOk (rev acc) else LsUnsup)
      else
        match read_item (c :: r) with
        | ItErr => LsErr
        | ItUnsup => LsUnsup
        | ItOk t rest =>
          match skip_ws rest with
          | [] => LsErr
          | d :: r2 =>
            if d =? 44 then list_items f r2 (t :: acc)
            else if d =? 93 then (if blank_tail r2 then LsOk (rev (t :: acc)) else LsUnsup)
            else LsUnsup
          end
        end
    end
  end.

Definition py_list_literal_eval (s0 : text) : lres :=
  if existsb bad_source_char s0 then LsErr
  else
    match normalize_newlines s0 with
    | c :: r => if c =? 91 then list_items (S (length r)) r [] else LsUnsup
    | [] => LsUnsup
    end.

(* how a list of texts is written as a list display by a quoting function `quote` *)
Fixpoint join_with (sep : text) (l : list text) : text :=
  match l with
  | [] => []
  | [x] => x
  | x :: r => x ++ sep ++ join_with sep r
  end.

Definition list_display (quote : text -> text) (l : list text) : text :=
  91 :: join_with [44; 32] (map quote l) ++ [93].
