(* Spec/C03Rel.v -- the vocabulary in which the C03 theorems are stated: when a documented namespace
   (Model.Builder contents) agrees with a namespace CPython built (Spec.PyBind env). *)
From Coq Require Import ZArith NArith List Bool.
From PydoctorVerif Require Import Base.Sexp Model.MiniPy Model.Infer Model.Builder Spec.PyBind.
Import ListNotations.

Definition pscope_of (sc : scope) : pscope := match sc with ScModule => PModule | ScClass => PClass end.

(* n is bound to a definition (not an auxiliary import / loop-variable binding) *)
Definition pdef (n : name) (e : env) : bool :=
  match plookup n e with Some v => negb (is_aux v) | None => false end.

(* a documented name is a definition Python binds there, or one of the instance variables *)
Definition iv_ok (ivs : list name) (c : contents_t) (e : env) : Prop :=
  forall n o, lookup n c = Some o -> pdef n e = true \/ In n ivs.

Definition is_ivar_obj (o : obj) : bool := match o with OAttr KInstanceVar _ _ _ => true | _ => false end.

(* the kind pydoctor must give a function object found in a module / class namespace *)
Definition fkind_of (sc : scope) (w : wrap) : option fkind :=
  match sc, w with
  | ScModule, WNone => Some KFunction
  | ScClass, WNone => Some KMethod
  | ScClass, WStatic => Some KStaticMethod
  | ScClass, WClassM => Some KClassMethod
  | _, _ => None
  end.

(* pydoctor's summary of the members a class has or inherits (own first, then the bases depth first: the order
   Class.find searches) against the namespaces Python's attribute lookup searches: where pydoctor finds a function or
   class first, so does Python; where pydoctor finds nothing, neither does Python *)
Definition mem_rel (l : list (name * summary)) (envs : list env) : Prop :=
  (forall n, lookup n l = Some SNonAttr -> pfirst n envs = Some false) /\
  (forall n, lookup n l = None -> pfirst n envs = None).

Section Rel.
  Variable clean : text -> text.         (* inspect.cleandoc *)
  Variable vals : bool.                  (* also relate the stored right-hand side with the bound value (strict subset) *)

  (* the literal pydoctor remembers for a variable (Attribute.value) is the literal whose value Python has bound --
     not claimed for instance variables, whose value is set in methods *)
  Definition val_rel (k : akind) (va : option aval) (v : option value) : Prop :=
    k = KInstanceVar \/ forall l, va = Some (AvLit l) -> v = Some l.

  (* agree_obj sc o v : the documentable o describes the Python object v found in a namespace of kind sc
     agree_ns sc c e  : the documented contents c are the definitions of namespace e:
        nothing twice, nothing missing, nothing invented (instance variables of a class excepted), and
        every documented name describes what Python bound to it (recursively for classes) *)
  Inductive agree_obj : scope -> obj -> pyval -> Prop :=
  | AgFun : forall sc k a d w d',
      fkind_of sc w = Some k -> d = option_map clean d' -> agree_obj sc (OFun k a d) (VFun a w d')
  | AgProp : forall d an va a d', d = option_map clean d' -> agree_obj ScClass (OAttr KProperty d an va) (VFun a WProp d')
  | AgClass : forall sc x d c oo ih x' d' ns mro ivs,
      d = option_map clean d' -> agree_ns ScClass c ns ->
      x = x' ->                            (* EXCEPTION iff issubclass(cls, BaseException) *)
      mem_rel ih mro ->                    (* the inherited members pydoctor's Class.find sees are the ones Python inherits *)
      iv_ok ivs c ns ->                    (* what is documented beyond Python's bindings are instance variables ... *)
      (forall n, In n ivs -> lookup n ih <> Some SNonAttr -> lookup n c <> None) ->   (* ... and all of them are documented,
                                              unless the name is an inherited method/class (_maybeAttribute) *)
      agree_obj sc (OClass x d c oo ih) (VClass x' d' ns mro ivs)
  | AgData : forall sc k d an va v, k <> KProperty -> (vals = true -> val_rel k va v) -> agree_obj sc (OAttr k d an va) (VData v)
  with agree_ns : scope -> contents_t -> env -> Prop :=
  | AgNs : forall sc c e,
      NoDup (keys c) ->
      (forall n, pdef n e = true -> lookup n c <> None) ->
      (forall n o, lookup n c = Some o -> pdef n e = true \/ (sc = ScClass /\ is_ivar_obj o = true)) ->
      (forall n o v, lookup n c = Some o -> plookup n e = Some v -> is_aux v = false -> agree_obj sc o v) ->
      agree_ns sc c e.
End Rel.

(* ---- the namespaces of a module: the module itself and, recursively, every class that is documented under the
   name Python binds it to ------------------------------------------------------------------------------- *)
Inductive ns_at (c : contents_t) (e : env) : scope -> contents_t -> env -> Prop :=
| ns_root : ns_at c e ScModule c e
| ns_class : forall sc c1 e1 n x d c2 oo ih x' d' e2 mro ivs,
    ns_at c e sc c1 e1 -> lookup n c1 = Some (OClass x d c2 oo ih) -> plookup n e1 = Some (VClass x' d' e2 mro ivs) ->
    ns_at c e ScClass c2 e2.

(* the kind pydoctor gives to an entry against what `inspect` says about the object Python bound *)
Definition kind_ok (sc : scope) (o : obj) (v : pyval) : Prop :=
  match o, v with
  | OFun k a _, VFun a' w _ => a = a' /\ fkind_of sc w = Some k       (* function/method/classmethod/staticmethod, coroutine *)
  | OAttr KProperty _ _ _, VFun _ WProp _ => sc = ScClass              (* property *)
  | OClass x _ _ _ _, VClass x' _ _ _ _ => x = x'                        (* a class; EXCEPTION iff subclass of BaseException *)
  | OAttr k _ _ _, VData _ => k <> KProperty                           (* a variable of some kind *)
  | _, _ => False
  end.

(* the docstring pydoctor attaches to a function, property or class against __doc__ (before cleaning) *)
Definition doc_ok (clean : text -> text) (o : obj) (v : pyval) : Prop :=
  match o, v with
  | OFun _ _ d, VFun _ _ d' => d = option_map clean d'
  | OClass _ d _ _ _, VClass _ d' _ _ _ => d = option_map clean d'
  | OAttr KProperty d _ _, VFun _ WProp d' => d = option_map clean d'      (* a property: the getter's docstring *)
  | _, _ => True
  end.
