(* Spec/C03Rel.v -- the vocabulary in which the C03 theorems are stated: when a documented namespace
   (Model.Builder contents) agrees with a namespace CPython built (Spec.PyBind env), and the syntactic guard
   that excludes the one class of programs on which pydoctor itself departs from the property
   (a class variable shadowing an inherited method, known finding C03-inherited-method-shadowed). *)
From Coq Require Import ZArith NArith List Bool.
From PydoctorVerif Require Import Base.Sexp Model.MiniPy Model.Builder Spec.PyBind.
Import ListNotations.

Definition pscope_of (sc : scope) : pscope := match sc with ScModule => PModule | ScClass => PClass end.

(* n is bound to a definition (not an auxiliary import / loop-variable binding) *)
Definition pdef (n : name) (e : env) : bool :=
  match plookup n e with Some v => negb (is_aux v) | None => false end.

Definition is_ivar_obj (o : obj) : bool := match o with OAttr KInstanceVar _ _ _ => true | _ => false end.

(* the kind pydoctor must give a function object found in a module / class namespace *)
Definition fkind_of (sc : scope) (w : wrap) : option fkind :=
  match sc, w with
  | ScModule, WNone => Some KFunction
  | ScClass, WNone => Some KMethod
  | ScClass, WStatic => Some KStaticMethod
  | ScClass, WClassM => Some KClassMethod
  | _, _ => None
  end.

Section Rel.
  Variable clean : text -> text.         (* inspect.cleandoc *)
  Variable vals : bool.                  (* also relate the stored right-hand side with the bound value (strict subset) *)

  (* the literal pydoctor remembers for a variable (Attribute.value) is the literal whose value Python has bound --
     not claimed for instance variables, whose value is set in methods *)
  Definition val_rel (k : akind) (va : option aval) (v : option value) : Prop :=
    k = KInstanceVar \/ forall l, va = Some (AvLit l) -> v = Some l.

  (* agree_obj sc o v : the documentable o describes the Python object v found in a namespace of kind sc
     agree_ns sc c e  : the documented contents c are the definitions of namespace e:
        nothing twice, nothing missing, nothing invented (instance variables of a class excepted), and
        every documented name describes what Python bound to it (recursively for classes) *)
  Inductive agree_obj : scope -> obj -> pyval -> Prop :=
  | AgFun : forall sc k a d w d',
      fkind_of sc w = Some k -> d = option_map clean d' -> agree_obj sc (OFun k a d) (VFun a w d')
  | AgProp : forall d an va a d', d = option_map clean d' -> agree_obj ScClass (OAttr KProperty d an va) (VFun a WProp d')
  | AgClass : forall sc x d c oo ih x' d' ns,
      d = option_map clean d' -> agree_ns ScClass c ns ->
      (sc = ScModule -> x = x') ->        (* EXCEPTION iff issubclass(cls, BaseException): for classes bound at module level *)
      agree_obj sc (OClass x d c oo ih) (VClass x' d' ns)
  | AgData : forall sc k d an va v, k <> KProperty -> (vals = true -> val_rel k va v) -> agree_obj sc (OAttr k d an va) (VData v)
  with agree_ns : scope -> contents_t -> env -> Prop :=
  | AgNs : forall sc c e,
      NoDup (keys c) ->
      (forall n, pdef n e = true -> lookup n c <> None) ->
      (forall n o, lookup n c = Some o -> pdef n e = true \/ (sc = ScClass /\ is_ivar_obj o = true)) ->
      (forall n o v, lookup n c = Some o -> plookup n e = Some v -> is_aux v = false -> agree_obj sc o v) ->
      agree_ns sc c e.
End Rel.

(* ---- the guard of the _partial theorems ------------------------------------------------------------- *)
(* every name a def or class statement binds, anywhere in the program *)
Fixpoint def_names (x : stmt) : list name :=
  match x with
  | Def nm _ _ body => nm :: flat_map def_names body
  | Class nm _ body => nm :: flat_map def_names body
  | If _ b o => flat_map def_names b ++ flat_map def_names o
  | Try b h o f => flat_map def_names b ++ flat_map def_names h ++ flat_map def_names o ++ flat_map def_names f
  | With b => flat_map def_names b
  | For _ b o => flat_map def_names b ++ flat_map def_names o
  | While b o => flat_map def_names b ++ flat_map def_names o
  | _ => []
  end.

(* the names a suite assigns at its own level (not inside nested def / class bodies; the old-style wrapping of a
   method does not count: it re-binds the method) *)
Definition target_names (t : target) : list name :=
  match t with TName n => [n] | TTuple ns => ns | TSelf _ => [] end.

(* the old-style decoration `x = staticmethod(x)` / `x = classmethod(x)` *)
Definition is_wrapping (ts : list target) (r : rhs) : bool :=
  match r with
  | RCall f [a] =>
      match ts with
      | [TName n] => text_eqb n a && (text_eqb f p_staticmethod || text_eqb f p_classmethod)
      | _ => false
      end
  | _ => false
  end.

Fixpoint assigned_names (x : stmt) : list name :=
  match x with
  | Assign ts r => if is_wrapping ts r then [] else flat_map target_names ts
  | AnnAssign t _ _ => target_names t
  | AugAssign t _ => target_names t
  | If _ b o => flat_map assigned_names b ++ flat_map assigned_names o
  | Try b h o f => flat_map assigned_names b ++ flat_map assigned_names h ++ flat_map assigned_names o ++ flat_map assigned_names f
  | With b => flat_map assigned_names b
  | For _ b o => flat_map assigned_names b ++ flat_map assigned_names o
  | While b o => flat_map assigned_names b ++ flat_map assigned_names o
  | _ => []
  end.

(* no_inherited_shadow DN x: every class statement in x that has base classes assigns, in its own body, no name
   that some def/class statement of the program (DN) binds -- so a class variable cannot shadow an inherited method *)
Fixpoint no_inherited_shadow (DN : list name) (x : stmt) : bool :=
  match x with
  | Def _ _ _ body => forallb (no_inherited_shadow DN) body
  | Class _ bases body =>
      (match bases with [] => true | _ => forallb (fun n => negb (mem n DN)) (flat_map assigned_names body) end)
      && forallb (no_inherited_shadow DN) body
  | If _ b o => forallb (no_inherited_shadow DN) b && forallb (no_inherited_shadow DN) o
  | Try b h o f => forallb (no_inherited_shadow DN) b && forallb (no_inherited_shadow DN) h
                   && forallb (no_inherited_shadow DN) o && forallb (no_inherited_shadow DN) f
  | With b => forallb (no_inherited_shadow DN) b
  | For _ b o => forallb (no_inherited_shadow DN) b && forallb (no_inherited_shadow DN) o
  | While b o => forallb (no_inherited_shadow DN) b && forallb (no_inherited_shadow DN) o
  | _ => true
  end.

Definition shadow_guard (prog : list stmt) : bool :=
  forallb (no_inherited_shadow (flat_map def_names prog)) prog.

(* ---- the namespaces of a module: the module itself and, recursively, every class that is documented under the
   name Python binds it to ------------------------------------------------------------------------------- *)
Inductive ns_at (c : contents_t) (e : env) : scope -> contents_t -> env -> Prop :=
| ns_root : ns_at c e ScModule c e
| ns_class : forall sc c1 e1 n x d c2 oo ih x' d' e2,
    ns_at c e sc c1 e1 -> lookup n c1 = Some (OClass x d c2 oo ih) -> plookup n e1 = Some (VClass x' d' e2) ->
    ns_at c e ScClass c2 e2.

(* the kind pydoctor gives to an entry against what `inspect` says about the object Python bound *)
Definition kind_ok (sc : scope) (o : obj) (v : pyval) : Prop :=
  match o, v with
  | OFun k a _, VFun a' w _ => a = a' /\ fkind_of sc w = Some k       (* function/method/classmethod/staticmethod, coroutine *)
  | OAttr KProperty _ _ _, VFun _ WProp _ => sc = ScClass              (* property *)
  | OClass x _ _ _ _, VClass x' _ _ => sc = ScModule -> x = x'         (* a class; at module level: EXCEPTION iff exception class *)
  | OAttr k _ _ _, VData _ => k <> KProperty                           (* a variable of some kind *)
  | _, _ => False
  end.

(* the docstring pydoctor attaches to a function, property or class against __doc__ (before cleaning) *)
Definition doc_ok (clean : text -> text) (o : obj) (v : pyval) : Prop :=
  match o, v with
  | OFun _ _ d, VFun _ _ d' => d = option_map clean d'
  | OClass _ d _ _ _, VClass _ d' _ => d = option_map clean d'
  | OAttr KProperty d _ _, VFun _ WProp d' => d = option_map clean d'      (* a property: the getter's docstring *)
  | _, _ => True
  end.
