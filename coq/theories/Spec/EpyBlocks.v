(* Spec/EpyBlocks.v -- what "the startline of a token is the index of the first line of its block" means,
   stated on the lines alone: the blocks come in order, between two blocks (and before the first, after the
   last) there are only blank lines, every block is non-empty and -- except a literal block, which by
   construction begins right where its introducing `::` paragraph ended, possibly on a blank line -- begins
   on a non-blank line.  Hence every non-blank line belongs to exactly one block and the block's start is
   the first line of that block. *)
From Coq Require Import List Bool Arith.
From PydoctorVerif Require Import Base.Sexp Model.EpyLines.
Import ListNotations.

Definition blank_at (lines : list eline) (j : nat) : Prop :=
  match nth_error lines j with Some l => blank l = true | None => True end.

Definition is_lblock (b : block) : bool :=
  match b_tags b with [LBLOCK] => true | _ => false end.

Fixpoint blocks_ok (lines : list eline) (pos : nat) (bs : list block) : Prop :=
  match bs with
  | [] => forall j, pos <= j -> blank_at lines j
  | b :: r =>
    pos <= b_start b /\
    (forall j, pos <= j < b_start b -> blank_at lines j) /\
    b_start b < b_stop b /\
    b_tags b <> [] /\
    (is_lblock b = false ->
       b_stop b <= length lines /\
       exists l, nth_error lines (b_start b) = Some l /\ blank l = false) /\
    blocks_ok lines (b_stop b) r
  end.
