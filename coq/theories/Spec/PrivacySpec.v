(* Spec/PrivacySpec.v -- what docs/source/customize.rst says about privacy (C13), stated without
   looking at System.privacyClass:

     - PRIVATE: by default for objects whose name starts with an underscore and are not a dunder;
       PUBLIC: by default everything else; nothing is hidden by default.
     - "--privacy=<PRIVACY>:<PATTERN>" ... "The order of arguments matters. Pattern added last have
       priority over a pattern added before, but an exact match wins over a fnmatch."

   Rules are kept in command-line order; "last wins" is defined on that order directly. *)
From Coq Require Import NArith List Bool.
From PydoctorVerif Require Import Base.Sexp.
Import ListNotations.
Local Open Scope N_scope.

Inductive priv : Type := HIDDEN | PRIVATE | PUBLIC.

Definition rule : Type := (priv * text)%type.     (* (level, pattern text) *)

Definition underscore : N := 95.

Definition leading_underscore (n : text) : Prop := exists m, n = underscore :: m.
Definition dunder (n : text) : Prop :=
  (exists m, n = underscore :: underscore :: m) /\ (exists m, n = m ++ [underscore; underscore]).
Definition private_by_default (n : text) : Prop := leading_underscore n /\ ~ dunder n.

(* the level of the LAST rule (in command-line order) whose pattern text satisfies `test` *)
Fixpoint last_rule (test : text -> bool) (rules : list rule) : option priv :=
  match rules with
  | [] => None
  | (p, m) :: r =>
    match last_rule test r with
    | Some q => Some q
    | None => if test m then Some p else None
    end
  end.

(* exact rules first, then pattern rules, then the default *)
Definition documented_privacy (is_exact matches_name : text -> bool) (rules : list rule) (default : priv) : priv :=
  match last_rule is_exact rules with
  | Some p => p
  | None =>
    match last_rule matches_name rules with
    | Some p => p
    | None => default
    end
  end.

(* ---- total version: patterns may be meaningless ------------------------------------------------
   A pattern holding a range whose end is below its start has no meaning (Spec.Glob.wf_pattern = false).
   pydoctor looks at the rules newest first; the first rule that DECIDES is the newest one that is either
   meaningless (the run aborts there: re.error) or matches the name.  Exact rules are looked at before. *)
Inductive verdict : Type :=
| Level (p : priv)
| Aborts.

(* the LAST rule (command-line order) whose pattern satisfies `test`, as a rule *)
Fixpoint last_entry (test : text -> bool) (rules : list rule) : option rule :=
  match rules with
  | [] => None
  | (p, m) :: r =>
    match last_entry test r with
    | Some q => Some q
    | None => if test m then Some (p, m) else None
    end
  end.

Definition documented_verdict (is_exact meaningful matches_name : text -> bool) (rules : list rule) (default : priv)
  : verdict :=
  match last_rule is_exact rules with
  | Some p => Level p
  | None =>
    match last_entry (fun m => negb (meaningful m) || matches_name m) rules with
    | Some (p, m) => if meaningful m then Level p else Aborts
    | None => Level default
    end
  end.
