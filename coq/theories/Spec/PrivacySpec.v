(* Spec/PrivacySpec.v -- what docs/source/customize.rst says about privacy (C13), stated without
   looking at System.privacyClass:

     - PRIVATE: by default for objects whose name starts with an underscore and are not a dunder;
       PUBLIC: by default everything else; nothing is hidden by default.
     - "--privacy=<PRIVACY>:<PATTERN>" ... "The order of arguments matters. Pattern added last have
       priority over a pattern added before, but an exact match wins over a fnmatch."

   Rules are kept in command-line order; "last wins" is defined on that order directly. *)
From Coq Require Import NArith List Bool.
From PydoctorVerif Require Import Base.Sexp.
Import ListNotations.
Local Open Scope N_scope.

Inductive priv : Type := HIDDEN | PRIVATE | PUBLIC.

Definition rule : Type := (priv * text)%type.     (* (level, pattern text) *)

Definition underscore : N := 95.

Definition leading_underscore (n : text) : Prop := exists m, n = underscore :: m.
Definition dunder (n : text) : Prop :=
  (exists m, n = underscore :: underscore :: m) /\ (exists m, n = m ++ [underscore; underscore]).
Definition private_by_default (n : text) : Prop := leading_underscore n /\ ~ dunder n.

(* the level of the LAST rule (in command-line order) whose pattern text satisfies `test` *)
Fixpoint last_rule (test : text -> bool) (rules : list rule) : option priv :=
  match rules with
  | [] => None
  | (p, m) :: r =>
    match last_rule test r with
    | Some q => Some q
    | None => if test m then Some p else None
    end
  end.

(* exact rules first, then pattern rules, then the default *)
Definition documented_privacy (is_exact matches_name : text -> bool) (rules : list rule) (default : priv) : priv :=
  match last_rule is_exact rules with
  | Some p => p
  | None =>
    match last_rule matches_name rules with
    | Some p => p
    | None => default
    end
  end.
