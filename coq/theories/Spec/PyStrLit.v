(* Spec/PyStrLit.v -- what Python does, written without looking at pydoctor:

   * py_str_literal_eval : ast.literal_eval(text) for a text that is ONE un-prefixed string literal
     (single or triple quoted, either quote character), followed by blanks only.  CPython 3.12:
     universal-newline translation of the source, NUL and lone surrogates are rejected, then the
     escape sequences of the language reference (2.4.1.1).  `\N{name}` needs the Unicode name
     database and is reported as RUnsup ("not decided by this spec"), never as a value.
   * py_repr : repr(str) as Objects/unicodeobject.c:unicode_repr computes it, for an arbitrary
     "printable" predicate on the non-ASCII code points (CPython: Py_UNICODE_ISPRINTABLE).
   * dq_quote / dq_quote_full : the two double-quote quoting functions of DESIGN.md 5.C20.

   Validated against the running CPython by harness/c20.py (spec validation, DESIGN.md 2.4):
   a disagreement there is a defect of the verification, not of pydoctor. *)
From Coq Require Import ZArith NArith List Bool.
From PydoctorVerif Require Import Base.Sexp.
Import ListNotations.
Local Open Scope N_scope.

Definition is_surrogate (c : N) : bool := (55296 <=? c) && (c <=? 57343).
Definition bad_source_char (c : N) : bool := (c =? 0) || is_surrogate c || (1114112 <=? c).

(* the tokenizer reads the source with universal newlines: CR LF -> LF, CR -> LF *)
Fixpoint normalize_newlines (s : text) : text :=
  match s with
  | [] => []
  | c :: r =>
      if c =? 13 then
        match r with
        | d :: r' => if d =? 10 then 10 :: normalize_newlines r' else 10 :: normalize_newlines r
        | [] => [10]
        end
      else c :: normalize_newlines r
  end.

Definition hex_val (c : N) : option N :=
  if (48 <=? c) && (c <=? 57) then Some (c - 48)
  else if (97 <=? c) && (c <=? 102) then Some (c - 87)
  else if (65 <=? c) && (c <=? 70) then Some (c - 55)
  else None.

Fixpoint hex_num (l : text) (acc : N) : option N :=
  match l with
  | [] => Some acc
  | c :: r => match hex_val c with
              | Some d => hex_num r (16 * acc + d)
              | None => None
              end
  end.

Definition is_oct (c : N) : bool := (48 <=? c) && (c <=? 55).

(* result of reading a literal body: the value and the source text after the closing quote(s) *)
Inductive lit : Type :=
| LOk (t rest : text)
| LErr                      (* SyntaxError *)
| LUnsup.                   (* \N{...} *)

Definition push (c : N) (r : lit) : lit :=
  match r with
  | LOk t rest => LOk (c :: t) rest
  | LErr => LErr
  | LUnsup => LUnsup
  end.

Definition hex_escape (digits : text) (limit : N) (k : lit) : lit :=
  match hex_num digits 0 with
  | Some v => if v <? limit then push v k else LErr
  | None => LErr
  end.

(* the text after the opening quote(s); q = quote character, triple = opened by qqq *)
Fixpoint body (q : N) (triple : bool) (s : text) : lit :=
  match s with
  | [] => LErr                                        (* unterminated *)
  | c :: r =>
    if c =? q then
      if triple then
        match r with
        | c2 :: c3 :: r' => if (c2 =? q) && (c3 =? q) then LOk [] r' else push c (body q triple r)
        | _ => push c (body q triple r)
        end
      else LOk [] r
    else if c =? 10 then
      if triple then push 10 (body q triple r) else LErr   (* EOL inside a single-quoted literal *)
    else if c =? 92 then
      match r with
      | [] => LErr
      | d :: r1 =>
        if d =? 10 then body q triple r1                    (* backslash-newline: line continuation *)
        else if (d =? 92) || (d =? 39) || (d =? 34) then push d (body q triple r1)
        else if d =? 97 then push 7 (body q triple r1)      (* \a *)
        else if d =? 98 then push 8 (body q triple r1)      (* \b *)
        else if d =? 102 then push 12 (body q triple r1)    (* \f *)
        else if d =? 110 then push 10 (body q triple r1)    (* \n *)
        else if d =? 114 then push 13 (body q triple r1)    (* \r *)
        else if d =? 116 then push 9 (body q triple r1)     (* \t *)
        else if d =? 118 then push 11 (body q triple r1)    (* \v *)
        else if is_oct d then                               (* \o \oo \ooo *)
          match r1 with
          | d2 :: r2 =>
            if is_oct d2 then
              match r2 with
              | d3 :: r3 =>
                if is_oct d3 then push (64 * (d - 48) + 8 * (d2 - 48) + (d3 - 48)) (body q triple r3)
                else push (8 * (d - 48) + (d2 - 48)) (body q triple r2)
              | [] => push (8 * (d - 48) + (d2 - 48)) (body q triple r2)
              end
            else push (d - 48) (body q triple r1)
          | [] => push (d - 48) (body q triple r1)
          end
        else if d =? 120 then                               (* \xHH *)
          match r1 with
          | h1 :: h2 :: r' => hex_escape [h1; h2] 256 (body q triple r')
          | _ => LErr
          end
        else if d =? 117 then                               (* \uHHHH *)
          match r1 with
          | h1 :: h2 :: h3 :: h4 :: r' => hex_escape [h1; h2; h3; h4] 65536 (body q triple r')
          | _ => LErr
          end
        else if d =? 85 then                                (* \UHHHHHHHH, at most 0x10FFFF *)
          match r1 with
          | h1 :: h2 :: h3 :: h4 :: h5 :: h6 :: h7 :: h8 :: r' =>
              hex_escape [h1; h2; h3; h4; h5; h6; h7; h8] 1114112 (body q triple r')
          | _ => LErr
          end
        else if d =? 78 then LUnsup                         (* \N{name} *)
        else push 92 (push d (body q triple r1))            (* unknown escape: both characters stay *)
      end
    else push c (body q triple r)
  end.

Definition is_blank (c : N) : bool := (c =? 32) || (c =? 9) || (c =? 10) || (c =? 12).

(* what may follow the literal: blanks on its line, then empty lines only (a blank line with spaces on it is
   an IndentationError for the tokenizer) *)
Fixpoint blank_tail (s : text) : bool :=
  match s with
  | [] => true
  | c :: r =>
      if c =? 10 then forallb (N.eqb 10) r
      else if (c =? 32) || (c =? 9) || (c =? 12) then blank_tail r
      else false
  end.

Inductive res : Type :=
| ROk (t : text)
| RErr                      (* literal_eval raises *)
| RUnsup.                   (* outside this spec: \N{...}, not a lone string literal *)

Definition is_quote (c : N) : bool := (c =? 39) || (c =? 34).

Definition open_quote (q : N) (r : text) : bool * text :=
  match r with
  | c2 :: c3 :: r2 => if (c2 =? q) && (c3 =? q) then (true, r2) else (false, r)
  | _ => (false, r)
  end.

Definition py_str_literal_eval (s0 : text) : res :=
  if existsb bad_source_char s0 then RErr
  else
    match normalize_newlines s0 with
    | [] => RUnsup
    | q :: r =>
      if is_quote q then
        let (triple, r') := open_quote q r in
        match body q triple r' with
        | LOk t rest => if blank_tail rest then ROk t else RUnsup
        | LErr => RErr
        | LUnsup => RUnsup
        end
      else RUnsup
    end.

(* ---------------------------------------------------------------- the quoting functions *)
Definition hex_digit (n : N) : N := if n <? 10 then 48 + n else 87 + n.

Fixpoint hex_digits (k : nat) (c : N) : text :=
  match k with
  | O => []
  | S k' => hex_digits k' (c / 16) ++ [hex_digit (c mod 16)]
  end.

Section Repr.
  (* Py_UNICODE_ISPRINTABLE on the code points >= 128; any predicate will do for the theorems *)
  Variable printable : N -> bool.

  Definition repr_char (q c : N) : text :=
    if (c =? q) || (c =? 92) then [92; c]
    else if c =? 9 then [92; 116]
    else if c =? 10 then [92; 110]
    else if c =? 13 then [92; 114]
    else if (c <? 32) || (c =? 127) then 92 :: 120 :: hex_digits 2 c
    else if c <? 127 then [c]
    else if printable c then [c]
    else if c <? 256 then 92 :: 120 :: hex_digits 2 c
    else if c <? 65536 then 92 :: 117 :: hex_digits 4 c
    else 92 :: 85 :: hex_digits 8 c.

  (* single quotes unless the text has a single quote and no double quote *)
  Definition repr_quote (s : text) : N :=
    if existsb (N.eqb 39) s && negb (existsb (N.eqb 34) s) then 34 else 39.

  Definition py_repr (s : text) : text :=
    let q := repr_quote s in q :: flat_map (repr_char q) s ++ [q].
End Repr.

(* double quotes; backslash, double quote and LF escaped -- DESIGN.md 5.C20 *)
Definition dq_char (c : N) : text :=
  if c =? 92 then [92; 92]
  else if c =? 34 then [92; 34]
  else if c =? 10 then [92; 110]
  else [c].
Definition dq_quote (s : text) : text := 34 :: flat_map dq_char s ++ [34].

(* the same, and every character that cannot stand in a one-line literal is escaped too *)
Definition dq_char_full (c : N) : text :=
  if c =? 92 then [92; 92]
  else if c =? 34 then [92; 34]
  else if c =? 10 then [92; 110]
  else if c =? 13 then [92; 114]
  else if c =? 0 then 92 :: 120 :: hex_digits 2 c
  else if is_surrogate c then 92 :: 117 :: hex_digits 4 c
  else [c].
Definition dq_quote_full (s : text) : text := 34 :: flat_map dq_char_full s ++ [34].

(* what may stand verbatim between quotes on one line *)
Definition raw_ok (c : N) : bool := negb (c =? 13) && negb (bad_source_char c).
