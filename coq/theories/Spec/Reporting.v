(* Spec/Reporting.v -- what C16 asks of the reporting machinery, stated without following the
   control flow of System.msg / Documentable.report / driver.main:
     - which calls of msg() are "problems the user is told about" and how many there are,
     - the exit status rule of the property text,
     - what "moving a definition down by k lines" does to an object's line bases. *)
From Coq Require Import ZArith NArith List Bool.
From PydoctorVerif Require Import Base.Sexp Model.Msg Model.Lines.
Import ListNotations.
Local Open Scope Z_scope.

(* a problem report: negative threshold ("Using negative thresh will count this message as a violation") *)
Definition is_problem (c : call) : bool := c_thresh c <? 0.

(* A call is suppressed exactly when it was made with once=True and an EARLIER call with once=True
   carried the same (section, message). *)
Definition same_once (c p : call) : bool := c_once p && key_eqb (call_key c) (call_key p).
Definition suppressed (earlier : list call) (c : call) : bool := c_once c && existsb (same_once c) earlier.

(* the calls that are not suppressed, in order; `earlier` = the calls made before *)
Fixpoint effective (earlier : list call) (cs : list call) : list call :=
  match cs with
  | [] => []
  | c :: r => (if suppressed earlier c then [] else [c]) ++ effective (earlier ++ [c]) r
  end.

Definition problems (cs : list call) : list call := filter is_problem (effective [] cs).

(* what reaches stdout at a given verbosity *)
Definition visible (verbosity : Z) (c : call) : bool :=
  (c_thresh c <=? verbosity) && (verbosity <=? c_topthresh c).

(* the rule of the property text *)
Definition exit_status_spec (warnings_as_errors : bool) (n_problems : N) (some_parse_error : bool) : Z :=
  if warnings_as_errors && negb (N.eqb n_problems 0) then 3
  else if some_parse_error then 2 else 0.

Definition some_parse_error (pe : parse_errors) : bool := existsb (fun e => nonempty (snd e)) pe.

(* moving the definition down by k lines: every line base that is set moves by k, an unset one (0) stays unset *)
Definition shift_base (k : Z) (b : Z) : Z := if b =? 0 then 0 else b + k.
Definition shift_val (k : Z) (v : lineno_val) : lineno_val :=
  match v with Num z => Num (z + k) | Unknown => Unknown end.

(* which base report() is documented to use *)
Definition base_of (section : text) (docstring_lineno linenumber : Z) : Z :=
  if uses_docstring_base section then (if docstring_lineno =? 0 then linenumber else docstring_lineno)
  else linenumber.

(* ---- once ------------------------------------------------------------------------------------------- *)
(* messages with the same (section, text) that are sent once-only are either all problems or all not: true of
   pydoctor, where every once=True call site has its own section string and a fixed threshold *)
Definition once_consistent (cs : list call) : Prop :=
  forall c d, In c cs -> In d cs -> c_once c = true -> c_once d = true ->
    key_eqb (call_key c) (call_key d) = true -> is_problem c = is_problem d.

(* the abstract view: how often a (section, message) pair should be counted *)
Definition has_key (k : key) (c : call) : bool := key_eqb k (call_key c).
Definition plain_problems (k : key) (cs : list call) : nat :=
  length (filter (fun c => has_key k c && negb (c_once c) && is_problem c) cs).
Definition once_problem (k : key) (cs : list call) : bool :=
  existsb (fun c => has_key k c && c_once c && is_problem c) cs.
Definition abstract_count (k : key) (cs : list call) : nat :=
  plain_problems k cs + (if once_problem k cs then 1 else 0).
