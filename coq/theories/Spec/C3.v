(* Spec/C3.v -- what "Python's method resolution order" means: CPython's own algorithm, written after
   Objects/typeobject.c (3.12): tail_contains, pmerge (array of tuples `to_merge` + array of indices
   `remain`, "skip" when the candidate is in some tail, error when a full scan finds no candidate
   and not every sequence is used up), check_duplicates, mro_implementation (single-base fast path,
   to_merge = MROs of the bases followed by the tuple of bases).  Independent of Model/Mro.v: nothing
   is imported from it.  Validated against CPython itself (type(name, bases, {}).__mro__ / TypeError)
   by the harness through the extracted `run` below.

   `object` is left out: every CPython class has it as its last MRO entry and pydoctor does not
   list it, so a class statement without bases has the MRO [type].

   Also: Spec.lookup (attribute lookup along an MRO: the first class whose namespace has the name)
   and Spec.getdoc (the docstring a member without a docstring inherits: the first class along
   the MRO whose namespace has the name with a __doc__ that is not None), both as relations. *)
From Coq Require Import ZArith NArith List Bool.
From PydoctorVerif Require Import Base.Sexp.
Import ListNotations.

Definition tuple := list N.
Definition GET_SIZE (t : tuple) : nat := length t.
Definition GET_ITEM (t : tuple) (i : nat) : N := nth i t 0%N.

Inductive cres : Type := COk (l : list N) | CTypeError | COutOfFuel.

(* for (j = whence+1; j < size; j++) if (PyTuple_GET_ITEM(tuple, j) == o) return 1;  return 0; *)
Definition tail_contains (t : tuple) (whence : nat) (o : N) : bool :=
  existsb (fun j => N.eqb (GET_ITEM t j) o) (seq (S whence) (GET_SIZE t - S whence)).

Inductive scan_res : Type := Candidate (c : N) | NoCandidate (empty_cnt : nat).

(* the body of `for (i = 0; i < to_merge_size; i++)`; `rows` are the (to_merge[i], remain[i]) still to visit *)
Fixpoint scan (to_merge : list tuple) (remain : list nat) (rows : list (tuple * nat)) (empty_cnt : nat)
  : scan_res :=
  match rows with
  | [] => NoCandidate empty_cnt
  | (cur_tuple, r) :: rows' =>
    if Nat.leb (GET_SIZE cur_tuple) r then scan to_merge remain rows' (S empty_cnt)   (* empty_cnt++; continue *)
    else
      let candidate := GET_ITEM cur_tuple r in
      if existsb (fun jr => tail_contains (fst jr) (snd jr) candidate) (combine to_merge remain)
      then scan to_merge remain rows' empty_cnt                                       (* goto skip *)
      else Candidate candidate
  end.

(* for (j...) if (remain[j] < size(j_lst) && j_lst[remain[j]] == candidate) remain[j]++; *)
Definition advance (to_merge : list tuple) (remain : list nat) (candidate : N) : list nat :=
  map (fun jr => let j_lst := fst jr in let r := snd jr in
                 if Nat.ltb r (GET_SIZE j_lst) && N.eqb (GET_ITEM j_lst r) candidate then S r else r)
      (combine to_merge remain).

(* `again:` one unit of fuel per pass *)
Fixpoint pmerge_loop (fuel : nat) (to_merge : list tuple) (remain : list nat) (acc : list N) : cres :=
  match fuel with
  | O => COutOfFuel
  | S f =>
    match scan to_merge remain (combine to_merge remain) 0 with
    | Candidate c => pmerge_loop f to_merge (advance to_merge remain c) (acc ++ [c])   (* goto again *)
    | NoCandidate empty_cnt =>
      if Nat.eqb empty_cnt (length to_merge) then COk acc else CTypeError            (* set_mro_error *)
    end
  end.

Definition total_size (to_merge : list tuple) : nat :=
  fold_right (fun t n => GET_SIZE t + n) 0 to_merge.

Definition pmerge (acc : list N) (to_merge : list tuple) : cres :=
  pmerge_loop (S (total_size to_merge)) to_merge (repeat 0 (length to_merge)) acc.

(* check_duplicates: for i, for j > i: if bases[i] == bases[j]: TypeError("duplicate base class") *)
Fixpoint has_duplicates (bases : tuple) : bool :=
  match bases with
  | [] => false
  | b :: rest => existsb (N.eqb b) rest || has_duplicates rest
  end.

Definition chier := list (N * tuple).
Fixpoint tp_bases (h : chier) (type : N) : tuple :=
  match h with
  | [] => []
  | (k, bs) :: h' => if N.eqb k type then bs else tp_bases h' type
  end.

(* the tp_mro of every base; a base whose own class statement raised does not exist, so the class
   statement that names it cannot be executed either *)
Fixpoint lookup_tp_mros (tp_mro : N -> cres) (bases : tuple) : list tuple + cres :=
  match bases with
  | [] => inl []
  | b :: rest =>
    match tp_mro b with
    | COk m => match lookup_tp_mros tp_mro rest with inl ms => inl (m :: ms) | e => e end
    | e => inr e
    end
  end.

(* mro_implementation *)
Fixpoint cpython_mro (fuel : nat) (h : chier) (type : N) : cres :=
  match fuel with
  | O => COutOfFuel
  | S f =>
    let bases := tp_bases h type in
    match lookup_tp_mros (cpython_mro f h) bases with
    | inr e => e
    | inl mros =>
      match bases, mros with
      | [], _ => COk [type]                                   (* bases = (object,) *)
      | [_], [base_mro] => COk (type :: base_mro)             (* n == 1 fast path *)
      | _, _ =>
        if has_duplicates bases then CTypeError
        else pmerge [type] (mros ++ [bases])
      end
    end
  end.

(* ---- what a C3 linearisation promises (used for the independent sanity theorem) ---------------- *)
(* l1 is l2 with some elements left out, order kept *)
Inductive subseq : list N -> list N -> Prop :=
| sub_nil : forall l, subseq [] l
| sub_take : forall x l1 l2, subseq l1 l2 -> subseq (x :: l1) (x :: l2)
| sub_skip : forall x l1 l2, subseq l1 l2 -> subseq l1 (x :: l2).

(* x is type itself or a base of a base ... of type *)
Inductive ancestor (h : chier) : N -> N -> Prop :=
| anc_self : forall c, ancestor h c c
| anc_base : forall c b x, In b (tp_bases h c) -> ancestor h b x -> ancestor h c x.

(* no class is its own proper ancestor: some rank strictly decreases from a class to each of its bases *)
Definition acyclic (h : chier) (rank : N -> nat) : Prop :=
  forall c b, In b (tp_bases h c) -> rank b < rank c.

(* ---- attribute lookup and docstring inheritance along an MRO ----------------------------------- *)
Section Lookup.
  Variable defines : N -> N -> bool.            (* `name in vars(cls)` *)
  Variable doc : N -> N -> option N.            (* vars(cls)[name].__doc__ ; None = None *)

  (* getattr(type, name) finds the attribute in the first class of type.__mro__ whose namespace has it *)
  Definition lookup (mro : list N) (name : N) (definer : N) : Prop :=
    exists before after, mro = before ++ definer :: after /\ defines definer name = true /\
                         forall x, In x before -> defines x name = false.
  Definition lookup_fails (mro : list N) (name : N) : Prop :=
    forall x, In x mro -> defines x name = false.

  (* the docstring used for `name` of the first class of the MRO: that of the first class along the
     MRO whose namespace has the name with a __doc__ that is not None *)
  Definition getdoc (mro : list N) (name : N) (source : N) (d : N) : Prop :=
    exists before after, mro = before ++ source :: after /\
      defines source name = true /\ doc source name = Some d /\
      forall x, In x before -> defines x name = false \/ doc x name = None.
  Definition getdoc_none (mro : list N) (name : N) : Prop :=
    forall x, In x mro -> defines x name = false \/ doc x name = None.
End Lookup.

(* ---- wire codec (spec validation against CPython) ----------------------------------------------- *)
(* input := ( fn payload )   fn 0: payload = sequences -> pmerge [] ; fn 1: payload = hierarchy -> MRO of every key
   output status: 0 ok | 1 TypeError | 2 out of fuel *)
Definition cres_sexp (r : cres) : sexp :=
  match r with
  | COk l => L [A 0; of_list of_N l]
  | CTypeError => L [A 1; L []]
  | COutOfFuel => L [A 2; L []]
  end.

Definition to_tuple (s : sexp) : tuple := map to_N (to_list s).
Definition to_chier (s : sexp) : chier :=
  map (fun e => (to_N (nth_s 0 e), to_tuple (nth_s 1 e))) (to_list s).

Definition run (s : sexp) : sexp :=
  let payload := nth_s 1 s in
  match to_Z (nth_s 0 s) with
  | 0%Z => cres_sexp (pmerge [] (map to_tuple (to_list payload)))
  | 1%Z => let h := to_chier payload in
           L (map (fun e => L [of_N (fst e); cres_sexp (cpython_mro (S (length h)) h (fst e))]) h)
  | _ => bad_input
  end.
