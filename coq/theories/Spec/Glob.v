(* Spec/Glob.v -- the documented meaning of a --privacy pattern (C13), written from
   docs/source/customize.rst ("fnmatch-like pattern matching objects fullName") and the
   docstring of pydoctor/qnmatch.py:

       **      matches everything (recursive)
       *       matches everything except "." (one level only)
       ?       matches any single character
       [seq]   matches any character in seq
       [!seq]  matches any char not in seq

   "fnmatch-like" fixes what the five lines leave open (Lib/fnmatch.py):
     - the pattern matches the WHOLE name;
     - inside [...] a "]" that comes first (after the optional "!") is a member; the set ends at the
       next "]"; a "[" with no such "]" is an ordinary character;
     - x-y inside a set is the range of code points x..y ; a "-" that is first or last is a member;
       a range with y < x is NOT a meaningful pattern (`wf_pattern` is false for it);
     - there is no quoting: a backslash is an ordinary character, also inside a set.

   Nothing here mentions regular expressions.  The matcher is a direct reading of the sentences above:
   a star matches iff the name can be split so that the first part is a run (without dot for a single
   star) and the rest of the pattern matches the rest of the name. *)
From Coq Require Import NArith List Bool.
From PydoctorVerif Require Import Base.Sexp.
Import ListNotations.
Local Open Scope N_scope.

Definition g_bang : N := 33.   (* ! *)
Definition g_star : N := 42.   (* * *)
Definition g_dash : N := 45.   (* - *)
Definition g_dot : N := 46.    (* . *)
Definition g_qm : N := 63.     (* ? *)
Definition g_lbr : N := 91.    (* [ *)
Definition g_rbr : N := 93.    (* ] *)

Inductive gtok : Type :=
| GStar                            (* *   *)
| GStarStar                        (* **  *)
| GAny                             (* ?   *)
| GSet (neg : bool) (seq : text)   (* [seq] / [!seq] ; seq is never empty *)
| GLit (c : N).

(* s = a ++ "]" ++ b with no "]" in a *)
Fixpoint split_close (s : text) : option (text * text) :=
  match s with
  | [] => None
  | c :: r =>
    if c =? g_rbr then Some ([], r)
    else match split_close r with
         | Some (a, b) => Some (c :: a, b)
         | None => None
         end
  end.

(* r = what follows a "[" ; Some (negated, seq, rest after the closing "]") when the set is closed *)
Definition bracket (r : text) : option (bool * text * text) :=
  let '(neg, r1) := match r with
                    | c :: r' => if c =? g_bang then (true, r') else (false, r)
                    | [] => (false, r)
                    end in
  match r1 with
  | [] => None
  | c :: r2 =>                          (* the first member, whatever it is -- also "]" *)
    match split_close r2 with
    | Some (s, rest) => Some (neg, c :: s, rest)
    | None => None
    end
  end.

Fixpoint lex_fuel (fuel : nat) (p : text) : list gtok :=
  match fuel with
  | O => []
  | S f =>
    match p with
    | [] => []
    | c :: r =>
      if c =? g_star then
        match r with
        | c2 :: r2 => if c2 =? g_star then GStarStar :: lex_fuel f r2 else GStar :: lex_fuel f r
        | [] => GStar :: lex_fuel f r
        end
      else if c =? g_qm then GAny :: lex_fuel f r
      else if c =? g_lbr then
        match bracket r with
        | Some (neg, seq, rest) => GSet neg seq :: lex_fuel f rest
        | None => GLit c :: lex_fuel f r
        end
      else GLit c :: lex_fuel f r
    end
  end.

(* every step consumes at least one character, so length p steps are enough *)
Definition lex (p : text) : list gtok := lex_fuel (length p) p.

(* membership in seq: x-y is a range, everything else is itself *)
Fixpoint in_seq (x : N) (seq : text) : bool :=
  match seq with
  | [] => false
  | lo :: r1 =>
    match r1 with
    | d :: hi :: r =>
      if d =? g_dash then ((lo <=? x) && (x <=? hi)) || in_seq x r
      else (x =? lo) || in_seq x r1
    | _ => (x =? lo) || in_seq x r1
    end
  end.

(* no range y < x *)
Fixpoint seq_wf (seq : text) : bool :=
  match seq with
  | [] => true
  | lo :: r1 =>
    match r1 with
    | d :: hi :: r =>
      if d =? g_dash then (lo <=? hi) && seq_wf r
      else seq_wf r1
    | _ => seq_wf r1
    end
  end.

Definition tok_wf (t : gtok) : bool :=
  match t with GSet _ seq => seq_wf seq | _ => true end.

Definition no_dot (u : text) : bool := forallb (fun c => negb (c =? g_dot)) u.

(* all the ways of cutting n in two: (firstn k n, skipn k n) for k = 0 .. length n *)
Definition cuts (n : text) : list (text * text) :=
  map (fun k => (firstn k n, skipn k n)) (seq 0 (S (length n))).

(* does the token sequence match the whole of n? *)
Fixpoint gmatch (ts : list gtok) (n : text) : bool :=
  match ts with
  | [] => match n with [] => true | _ => false end
  | GStar :: r => existsb (fun uv => no_dot (fst uv) && gmatch r (snd uv)) (cuts n)
  | GStarStar :: r => existsb (fun uv => gmatch r (snd uv)) (cuts n)
  | GAny :: r => match n with [] => false | _ :: n' => gmatch r n' end
  | GSet neg seq :: r =>
    match n with
    | [] => false
    | x :: n' => xorb neg (in_seq x seq) && gmatch r n'
    end
  | GLit c :: r =>
    match n with
    | [] => false
    | x :: n' => (x =? c) && gmatch r n'
    end
  end.

Definition wf_pattern (p : text) : bool := forallb tok_wf (lex p).

Definition matches (p n : text) : bool := gmatch (lex p) n.

(* The same meaning as a relation (no computation, no fuel, no index): the reading of the manual. *)
Inductive Matches : list gtok -> text -> Prop :=
| M_nil : Matches [] []
| M_star : forall r u v, no_dot u = true -> Matches r v -> Matches (GStar :: r) (u ++ v)
| M_starstar : forall r u v, Matches r v -> Matches (GStarStar :: r) (u ++ v)
| M_any : forall r x v, Matches r v -> Matches (GAny :: r) (x :: v)
| M_set : forall r neg seq x v, xorb neg (in_seq x seq) = true -> Matches r v -> Matches (GSet neg seq :: r) (x :: v)
| M_lit : forall r c v, Matches r v -> Matches (GLit c :: r) (c :: v).
