(* Spec/Extract.v -- what extract_fields owes the author of a class / module docstring: the text of every
   @ivar / @cvar / @var x field is the docstring of exactly one attribute, the one named x, and of nothing else; the text
   of every @type x field is the type of exactly one attribute, the one named x; a field without a name is reported.
   From the input alone: the fields that are replaced by a later field for the same name and the same slot. *)
From Coq Require Import ZArith NArith List Bool Arith.
From PydoctorVerif Require Import Base.Sexp Model.FieldTypes Gen.TablesC09 Model.Fields Model.ExtractFields.
Import ListNotations.

Definition slot_occ (i : nat) (o : option nat) : nat := match o with Some j => if Nat.eqb j i then 1 else 0 | None => 0 end.
Definition attr_occ (i : nat) (a : xattr) : nat := slot_occ i (xa_doc a) + slot_occ i (xa_type a).
Definition attrs_occ (i : nat) (attrs : list xattr) : nat := list_sum (map (attr_occ i) attrs).

Definition is_type_field (f : field) : bool := text_eqb (f_tag f) extract_type_tag.

(* field i sits on the attribute called `name`, in the slot its tag designates, and nowhere else *)
Definition lands_on (i : nat) (f : field) (name : text) (attrs : list xattr) : Prop :=
  (exists a, In a attrs /\ xa_name a = name /\ (if is_type_field f then xa_type a else xa_doc a) = Some i) /\
  attrs_occ i attrs = 1.

Definition xrouted (i : nat) (f : field) (attrs : list xattr) (reps : list nat) : Prop :=
  match f_arg f with
  | None => In i reps
  | Some name => lands_on i f name attrs
  end.

Definition same_target (f g : field) : bool :=
  is_extract_tag (f_tag g) && Bool.eqb (is_type_field f) (is_type_field g) &&
  match f_arg f, f_arg g with Some a, Some b => text_eqb a b | _, _ => false end.

Definition xreplaced (fs : list field) (i : nat) (f : field) : bool := existsb (same_target f) (skipn (S i) fs).
