(* Spec/CleanDoc.v -- what CPython does to a docstring: str.isspace, str.expandtabs (tabsize 8),
   str.split('\n'), str.lstrip and inspect.cleandoc, written after CPython 3.12's Lib/inspect.py
   (cleandoc) and Objects/unicodeobject.c (expandtabs).  These are EXTERNAL to pydoctor:
   pydoctor.astutils.extract_docstring calls inspect.cleandoc.  The harness validates every definition
   here against the installed CPython (isspace over all code points, expandtabs / cleandoc on the
   exhaustive small-alphabet enumeration and the random stream).

   def cleandoc(doc):
       lines = doc.expandtabs().split('\n')
       margin = sys.maxsize
       for line in lines[1:]:
           content = len(line.lstrip())
           if content:
               indent = len(line) - content
               margin = min(margin, indent)
       if lines: lines[0] = lines[0].lstrip()
       if margin < sys.maxsize:
           for i in range(1, len(lines)): lines[i] = lines[i][margin:]
       while lines and not lines[-1]: lines.pop()
       while lines and not lines[0]: lines.pop(0)
       return '\n'.join(lines)

   sys.maxsize as "no margin yet" is `None` here (a line with 2^63-1 leading blanks does not exist). *)
From Coq Require Import ZArith NArith List Bool Arith.
From PydoctorVerif Require Import Base.Sexp.
Import ListNotations.
Local Open Scope N_scope.

(* str.isspace() of a single code point (Unicode 15, as CPython 3.12: bidirectional class WS/B/S or category Zs) *)
Definition isspace (c : N) : bool :=
  ((9 <=? c) && (c <=? 13)) || ((28 <=? c) && (c <=? 32)) || (c =? 133) || (c =? 160) || (c =? 5760)
  || ((8192 <=? c) && (c <=? 8202)) || (c =? 8232) || (c =? 8233) || (c =? 8239) || (c =? 8287)
  || (c =? 12288).

Definition is_nl (c : N) : bool := c =? 10.

(* str.expandtabs(8): the column restarts after '\n' and '\r' *)
Fixpoint expandtabs_from (col : nat) (s : text) : text :=
  match s with
  | [] => []
  | c :: r =>
    if c =? 9 then
      let incr := (8 - (col mod 8))%nat in
      repeat 32 incr ++ expandtabs_from (col + incr) r
    else if (c =? 10) || (c =? 13) then c :: expandtabs_from 0 r
    else c :: expandtabs_from (S col) r
  end.
Definition expandtabs (s : text) : text := expandtabs_from 0 s.

(* str.split('\n'): never empty *)
Fixpoint split_nl (s : text) : list text :=
  match s with
  | [] => [[]]
  | c :: r =>
    if is_nl c then [] :: split_nl r
    else match split_nl r with
         | l :: ls => (c :: l) :: ls
         | [] => [[c]]
         end
  end.

Fixpoint join_nl (ls : list text) : text :=
  match ls with
  | [] => []
  | [l] => l
  | l :: ls' => l ++ 10 :: join_nl ls'
  end.

Fixpoint lstrip (s : text) : text :=
  match s with
  | [] => []
  | c :: r => if isspace c then lstrip r else s
  end.

(* the indentation of a line that has content, None for a whitespace-only line *)
Definition indent_of (line : text) : option nat :=
  let content := length (lstrip line) in
  if (content =? 0)%nat then None else Some (length line - content)%nat.

Definition min_opt (m : option nat) (i : nat) : option nat :=
  match m with None => Some i | Some m' => Some (Nat.min m' i) end.

(* the `for line in lines[1:]` loop *)
Definition margin_step (m : option nat) (line : text) : option nat :=
  match indent_of line with Some i => min_opt m i | None => m end.
Definition margin_of (rest : list text) : option nat := fold_left margin_step rest None.

Definition dedent (lines : list text) : list text :=
  match lines with
  | [] => []
  | first :: rest =>
    lstrip first :: match margin_of rest with Some m => map (skipn m) rest | None => rest end
  end.

Fixpoint drop_leading_empty (ls : list text) : list text :=
  match ls with
  | [] :: r => drop_leading_empty r
  | _ => ls
  end.
(* `while lines and not lines[-1]: lines.pop()` : the longest prefix that does not end in an empty line *)
Definition drop_trailing_empty (ls : list text) : list text :=
  fold_right (fun l acc => match l, acc with [], [] => [] | _, _ => l :: acc end) [] ls.

Definition cleandoc_lines (s : text) : list text :=
  drop_leading_empty (drop_trailing_empty (dedent (split_nl (expandtabs s)))).

Definition cleandoc (s : text) : text := join_nl (cleandoc_lines s).

(* ---- vocabulary for the alignment statement (C16) -------------------------------------- *)

(* a whitespace-only line (no '\n' inside a line, so this is `not line.strip()`) *)
Definition blank (line : text) : bool := forallb isspace line.

Definition has_content (s : text) : bool := existsb (fun c => negb (isspace c)) s.

Fixpoint take_while {X} (p : X -> bool) (l : list X) : list X :=
  match l with
  | [] => []
  | x :: r => if p x then x :: take_while p r else []
  end.

(* the margin cleandoc computes for s *)
Definition doc_margin (s : text) : option nat := margin_of (tl (split_nl (expandtabs s))).

(* what cleandoc makes of line number idx of the value (after expandtabs), if it keeps that line *)
Definition dedent_line (margin : option nat) (idx : nat) (line : text) : text :=
  match idx with
  | O => lstrip line
  | S _ => match margin with Some m => skipn m line | None => line end
  end.

Definition clean_line_of_value_line (s : text) (j : nat) : option text :=
  option_map (fun l => dedent_line (doc_margin s) j (expandtabs l)) (nth_error (split_nl s) j).

(* "the leading whitespace-only lines of the docstring are all no longer than the margin":
   only lines 2.. matter (the first is lstripped), and only when the first line is blank too
   (otherwise there are no leading blank lines at all). Lengths are taken after expandtabs, as
   cleandoc does. *)
Definition leading_ws_fit (s : text) : bool :=
  match split_nl (expandtabs s) with
  | [] => true
  | first :: rest =>
    if blank first then
      match margin_of rest with
      | Some m => forallb (fun l => (length l <=? m)%nat) (take_while blank rest)
      | None => forallb (fun l => (length l =? 0)%nat) (take_while blank rest)
      end
    else true
  end.

(* ---- how many lines are dropped at the top ---------------------------------------------------------- *)
Definition is_empty (l : text) : bool := match l with [] => true | _ => false end.
Definition lead_blank (ls : list text) : nat := length (take_while blank ls).
Definition lead_empty (ls : list text) : nat := length (take_while is_empty ls).

(* the number of leading whitespace-only lines of the value: what a reader of the source sees above the text *)
Definition top_dropped (s : text) : nat := lead_blank (split_nl (expandtabs s)).
(* the number of lines cleandoc really removes at the top (when the docstring has text) *)
Definition top_kept (s : text) : nat := lead_empty (dedent (split_nl (expandtabs s))).
