(* Spec/SortSpec.v -- what Python's `sorted(iterable, key=f)` guarantees, stated without looking at any sorting
   algorithm (docs.python.org, "Sorting HOW TO": the result is a permutation of the input, ascending by key, and
   the sort is STABLE: items with equal keys keep their input order), and what a POSIX directory guarantees
   (the names listed for one directory are pairwise distinct). Keys are flattened tuples, compared
   lexicographically (see Model/Determinism.v). *)
From Coq Require Import ZArith List Bool Sorting.Permutation Sorting.Sorted.
From PydoctorVerif Require Import Base.Sexp Model.DetTypes Model.Determinism.
Import ListNotations.

Definition key_le (a b : list Z) : Prop := lex_leb a b = true.
Definition key_equiv (a b : list Z) : bool := lex_leb a b && lex_leb b a.

Section SortSpec.
  Context {A : Type} (key : A -> list Z).

  Definition ascending (l : list A) : Prop := StronglySorted (fun a b => key_le (key a) (key b)) l.

  (* out is what `sorted(inp, key=key)` may return *)
  Definition stable_sort_of (inp out : list A) : Prop :=
    Permutation inp out /\ ascending out /\
    forall k, filter (fun a => key_equiv (key a) k) out = filter (fun a => key_equiv (key a) k) inp.
End SortSpec.

(* an iteration-order oracle (directory listing, set iteration): some permutation of the elements *)
Definition perm_oracle {X} (pi : list X -> list X) : Prop := forall l, Permutation (pi l) l.

(* a directory tree as a file system can hold it: entry names of one directory are pairwise distinct *)
Fixpoint fs_wf (n : fsnode) : Prop :=
  match n with
  | FFile _ => True
  | FDir _ es =>
      NoDup (map fs_name es) /\
      (fix all (l : list fsnode) : Prop := match l with [] => True | x :: r => fs_wf x /\ all r end) es
  end.

Fixpoint fs_depth (n : fsnode) : nat :=
  match n with
  | FFile _ => 0
  | FDir _ es => S (fold_right (fun e acc => Nat.max (fs_depth e) acc) 0 es)
  end.

(* map equality of two directory states *)
Definition same_dir (d1 d2 : fsmap) : Prop := forall n, lookup n d1 = lookup n d2.
