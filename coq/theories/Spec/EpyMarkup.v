(* Spec/EpyMarkup.v -- epytext inline markup as its manual describes it (pydoctor docs, "Inline markup"):
   a paragraph is a sequence of characters, marked-up regions  X{...}  (X a capital letter), literal brace groups
   {...}, escapes  E{lb} E{rb} E{c}  and symbols  S{name}.  `show` is how an author writes it, `shown` what the
   reader must see: the delimiters go away, escapes and symbols become their character, everything else stays,
   in order.  `well_formed` is what the manual requires of the author: no stray braces, a known region letter,
   a valid escape / symbol code, and no literal brace group right after a capital letter (it would be a region). *)
From Coq Require Import ZArith NArith List Bool Arith.
From PydoctorVerif Require Import Base.Sexp Model.FieldTypes Gen.TablesC09 Model.EpyInline.
Import ListNotations.

Inductive mk :=
| MC (c : N)                      (* one character *)
| MT (u : N) (body : list mk)     (* u{body}: code / math / italic / bold *)
| MB (body : list mk)             (* {body}: literal braces *)
| ME (code : text)                (* E{code} *)
| MS (name : text)                (* S{name} *)
| ML (u : N) (label : list mk) (tail ws tgt : text)   (* L{label tail <tgt>} / U{label tail <tgt>}: tail = the plain text
                                                         after the last marked-up region of the label, ws = blanks *)
| MN (u : N) (name : text).       (* L{name} / U{name}: the target is the text itself *)

Fixpoint show1 (m : mk) : text :=
  match m with
  | MC c => [c]
  | MT u body => u :: LB :: flat_map show1 body ++ [RB]
  | MB body => LB :: flat_map show1 body ++ [RB]
  | ME code => 69%N :: LB :: code ++ [RB]
  | MS name => 83%N :: LB :: name ++ [RB]
  | ML u label tail ws tgt => u :: LB :: flat_map show1 label ++ tail ++ ws ++ 60%N :: tgt ++ [62%N; RB]
  | MN u name => u :: LB :: name ++ [RB]
  end.
Definition show (items : list mk) : text := flat_map show1 items.

Definition escape_char (code : text) : option N :=
  match assoc_text code epy_escapes with
  | Some c => Some c
  | None => match code with [c] => Some c | _ => None end
  end.

Fixpoint shown1 (m : mk) : text :=
  match m with
  | MC c => [c]
  | MT _ body => flat_map shown1 body
  | MB body => LB :: flat_map shown1 body ++ [RB]
  | ME code => match escape_char code with Some c => [c] | None => [] end
  | MS name => match assoc_text name epy_symbols with Some c => [c] | None => [] end
  | ML _ label tail _ _ => flat_map shown1 label ++ tail        (* the label; the target is not shown *)
  | MN _ name => name
  end.
Definition shown (items : list mk) : text := flat_map shown1 items.

Definition no_brace (t : text) : bool := forallb (fun c => negb (N.eqb c LB) && negb (N.eqb c RB)) t.

Definition plain_region (u : N) : bool :=
  match assoc_N u colorizing_tags with
  | Some ECode | Some EMath | Some EItalic | Some EBold => is_upper u
  | _ => false
  end.

Definition is_ws (c : N) : bool := N.eqb c 32 || N.eqb c 9 || N.eqb c 10 || N.eqb c 13 || N.eqb c 11 || N.eqb c 12.

Definition ends_upper (m : mk) : bool := match m with MC c => is_upper c | _ => false end.

Definition valid_escape (code : text) : bool :=
  no_brace code && (match escape_char code with Some _ => true | None => false end) && (match code with [] => false | _ => true end).
Definition valid_symbol (name : text) : bool :=
  no_brace name && (match assoc_text name epy_symbols with Some _ => true | None => false end) &&
  (match name with [] => false | _ => true end).

Definition link_region (u : N) : bool :=
  match assoc_N u colorizing_tags with
  | Some ELink | Some EUri => is_upper u
  | _ => false
  end.
Definition link_tag (u : N) : etag :=
  match assoc_N u colorizing_tags with Some e => etag_of e | None => TgUnknown end.

Definition no_angle (t : text) : bool := forallb (fun c => negb (N.eqb c 60) && negb (N.eqb c 62)) t.
Definition spaces (t : text) : bool := forallb (N.eqb 32) t.
(* the plain text in front of <target>: no brace, no angle bracket, no white space at its end *)
Definition tail_ok (t : text) : bool :=
  no_brace t && no_angle t && match rev t with c :: _ => negb (is_ws c) | [] => true end.

(* a label ends "closed" when its last item is not a plain character (those belong to `tail`) *)
Definition ends_closed (items : list mk) : bool :=
  match rev items with MC _ :: _ => false | _ => true end.

Section WellFormed.
(* which targets / names the regular expressions of _colorize_link accept is left to the oracle contract *)
Variable good_target : etag -> text -> bool.
Variable good_name : etag -> text -> bool.

(* after_upper: the character written just before is a capital letter *)
Fixpoint wf1 (after_upper : bool) (m : mk) {struct m} : bool :=
  match m with
  | MC c => no_brace [c]
  | MT u body =>
    plain_region u &&
    (fix go (p : bool) (l : list mk) : bool :=
       match l with [] => true | x :: r => wf1 p x && go (ends_upper x) r end) false body
  | MB body =>
    negb after_upper &&
    (fix go (p : bool) (l : list mk) : bool :=
       match l with [] => true | x :: r => wf1 p x && go (ends_upper x) r end) false body
  | ME code => valid_escape code
  | MS name => valid_symbol name
  | ML u label tail ws tgt =>
    link_region u &&
    (fix go (p : bool) (l : list mk) : bool :=
       match l with [] => true | x :: r => wf1 p x && go (ends_upper x) r end) false label &&
    ends_closed label && tail_ok tail && spaces ws && no_brace tgt && good_target (link_tag u) tgt
  | MN u name => link_region u && no_brace name && (match name with [] => false | _ => true end) && good_name (link_tag u) name
  end.

Fixpoint well_formed (after_upper : bool) (items : list mk) : bool :=
  match items with
  | [] => true
  | x :: r => wf1 after_upper x && well_formed (ends_upper x) r
  end.

End WellFormed.

Fixpoint mk_size (m : mk) : nat :=
  match m with
  | MT _ body | MB body | ML _ body _ _ _ =>
    S ((fix go (l : list mk) : nat := match l with [] => 0 | x :: r => mk_size x + go r end) body)
  | _ => 1
  end.
Fixpoint mks_size (l : list mk) : nat := match l with [] => 0 | x :: r => mk_size x + mks_size r end.
