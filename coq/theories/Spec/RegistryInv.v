(* Spec/RegistryInv.v -- what C02 means on a state of Model/Registry.v: the invariant Inv (I1-I5 of DESIGN.md 5.C02),
   the relations it is stated with, and the guards of the operations.  Definitions only.

   "documented objects" = the registered ones (values of allobjects); Inv says that this set is closed under
   parent, contents and rootobjects, so that every object of the tree is the value of its own full name. *)
From Coq Require Import ZArith NArith List Bool.
From PydoctorVerif Require Import Base.Sexp Model.Registry.
Import ListNotations.
Local Open Scope N_scope.

(* a is x or an ancestor of x (through Documentable.parent) *)
Inductive anc (st : id -> obj) (a : id) : id -> Prop :=
| anc_refl : anc st a a
| anc_step : forall x q, oparent (st x) = Some q -> anc st a q -> anc st a x.

(* x is a or reachable from a through Documentable.contents *)
Inductive desc (st : id -> obj) (a : id) : id -> Prop :=
| desc_refl : desc st a a
| desc_step : forall y n c, desc st a y -> In (n, c) (ocont (st y)) -> desc st a c.

Definition reg (s : state) (o : id) : Prop := exists p, rget p (allobj s) = Some o.

Record Inv (s : state) : Prop := mkInv {
  (* the dicts are dicts *)
  inv_keys : NoDup (map fst (allobj s));
  inv_ckeys : forall o, reg s o -> NoDup (map fst (ocont (store s o)));
  inv_lt : forall p o, rget p (allobj s) = Some o -> o < next s;
  (* I1: registered under exactly its current qualified name (and fullName terminates with the fuel at hand) *)
  inv_I1 : forall p o, rget p (allobj s) = Some o -> fullpath s o = Some p;
  (* I2: the registered set is closed under parent, contents and rootobjects: every object of the tree is
         registered, hence (I1) the value of its own full name *)
  inv_par : forall o q, reg s o -> oparent (store s o) = Some q -> reg s q;
  inv_cont : forall o n c, reg s o -> In (n, c) (ocont (store s o)) ->
                           reg s c /\ oparent (store s c) = Some o /\ oname (store s c) = n;
  inv_roots : forall r, In r (roots s) -> reg s r /\ oparent (store s r) = None;
  (* I3: it is its parent's entry of its name, unless it is an older definition superseded by a later one *)
  inv_I3 : forall o q, reg s o -> oparent (store s o) = Some q ->
                       cget (oname (store s o)) (ocont (store s q)) = Some o \/ osup (store s o) = true;
  (* I4: the walk up ends in a member of rootobjects (that it ends at all is in I1) *)
  inv_top : forall o, reg s o -> oparent (store s o) = None -> In o (roots s);
  (* I5: the kind fits the place *)
  inv_I5a : forall o q, reg s o -> oparent (store s o) = Some q -> ocl (store s o) = CFunction ->
                        ocl (store s q) = CClass -> method_like (okind (store s o)) = true;
  inv_I5b : forall o q, reg s o -> oparent (store s o) = Some q -> is_module (ocl (store s o)) = true ->
                        ocl (store s q) = CPackage;
  inv_I5c : forall o, reg s o -> can_contain_imports (ocl (store s o)) = false -> ocont (store s o) = [];
  (* rootobjects lists no module twice *)
  inv_rnodup : NoDup (roots s)
}.

(* the walk down `contents` from a reaches every registered object below a: no superseded duplicate (which is
   not in its parent's contents any more) lies below a *)
Definition covered (s : state) (a : id) : Prop :=
  forall x, reg s x -> anc (store s) a x -> desc (store s) a x.

(* ---- guards ---- *)
Definition guard_add_child (s : state) (c : ocls) (n : name) (q : id) : Prop :=
  is_module c = false /\ reg s q /\ can_contain_imports (ocl (store s q)) = true /\
  (forall pq prev, fullpath s q = Some pq -> rget (pq ++ [n]) (allobj s) = Some prev -> covered s prev).

(* a module under a new name; a module that loses against an existing package of that name ("packages win":
   nothing changes); or a module that replaces the registered module of that name ("the last wins"), top-level or
   inside a package: nothing superseded may lie below the old one. *)
Definition replace_ok (s : state) (pkg : bool) (first : id) : Prop :=
  (ocl (store s first) = CPackage /\ pkg = false) \/
  (is_module (ocl (store s first)) = true /\ ocls_eqb (ocl (store s first)) CPackage && negb pkg = false /\
   covered s first).
Definition guard_add_module (s : state) (pkg : bool) (n : name) (parent : option id) : Prop :=
  match parent with
  | None => forall first, rget [n] (allobj s) = Some first -> replace_ok s pkg first
  | Some q =>
    reg s q /\ ocl (store s q) = CPackage /\
    (forall pq first, fullpath s q = Some pq -> rget (pq ++ [n]) (allobj s) = Some first -> replace_ok s pkg first)
  end.

Definition guard_reparent (s : state) (o np : id) (nn : name) : Prop :=
  reg s o /\ reg s np /\ is_module (ocl (store s np)) = true /\
  (exists oldp, oparent (store s o) = Some oldp /\ can_contain_imports (ocl (store s oldp)) = true /\
                cget (oname (store s o)) (ocont (store s oldp)) = Some o) /\
  ~ anc (store s) o np /\
  (forall pn, fullpath s np = Some pn -> rget (pn ++ [nn]) (allobj s) = None) /\
  covered s o /\
  (is_module (ocl (store s o)) = true -> ocl (store s np) = CPackage).

Definition guard (s : state) (o : op) : Prop :=
  match o with
  | AddModule pkg n parent => guard_add_module s pkg n parent
  | AddChild c n q k => guard_add_child s c n q
  | Reparent o np nn => guard_reparent s o np nn
  | SetBases _ _ => True
  | PostProcess => True
  end.

(* a history all of whose operations satisfy their guard in the state they are applied to and do not raise *)
Inductive guarded_run : state -> list op -> state -> Prop :=
| gr_nil : forall s, guarded_run s [] s
| gr_cons : forall s o s1 t s2, guard s o -> step s o = Some s1 -> guarded_run s1 t s2 -> guarded_run s (o :: t) s2.
