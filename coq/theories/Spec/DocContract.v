(* Spec/DocContract.v -- what C08 MEANS, written without looking at how epydoc2stan is structured:
   the vocabulary in which the theorems of Props/C08.v are stated.

   - "the parser gives up": the markup parser of the docformat, or the type post-processing applied on top of
     it when --process-types is on, raises (ParseError or any other Exception);
   - "the whole text is shown": the body is one <p class="pre"> holding exactly the text;
   - "reported against o": (docstring, o) is in System.parse_errors and a report names o;
   - "o is not affected": nothing that rendering o reads (its caches, its membership in parse_errors) changed;
   - "first fatal error" of an error list. *)
From Coq Require Import NArith List Bool.
From PydoctorVerif Require Import Base.Sexp Model.DocFlow.
Import ListNotations.
Local Open Scope N_scope.

(* the parser pipeline for docformat f gives up on text t *)
Inductive gives_up (O : oracles) (c : config) (f : N) (t : text) : Prop :=
| GU_parser_parse_error errs :
    fmt_known f = true -> f <> F_PLAINTEXT -> parser O f t = PR_parse_error errs -> gives_up O c f t
| GU_parser_exception errs :
    fmt_known f = true -> f <> F_PLAINTEXT -> parser O f t = PR_exception errs -> gives_up O c f t
| GU_types_parse_error p errs w :
    fmt_known f = true -> f <> F_PLAINTEXT -> parser O f t = PR_ok p errs ->
    processtypes_on c = true -> skip_processtypes f = false -> ptypes O p = PT_parse_error w -> gives_up O c f t
| GU_types_exception p errs w :
    fmt_known f = true -> f <> F_PLAINTEXT -> parser O f t = PR_ok p errs ->
    processtypes_on c = true -> skip_processtypes f = false -> ptypes O p = PT_exception w -> gives_up O c f t.

(* the parser contract the reporting theorem needs: a ParseError that is raised has been appended to the list first
   ("this error should already be stored in the errs list", parse_docstring) *)
Definition raised_error_is_recorded (O : oracles) : Prop :=
  (forall f t errs, parser O f t = PR_parse_error errs -> errs <> []) /\
  (forall p w, ptypes O p = PT_parse_error w -> w <> []).

(* the docformat that applies to an object: `plaintext` given on the command line wins, then the module's
   __docformat__, then the command line *)
Definition applicable_format (c : config) (o : oid) : N :=
  if sys_fmt c =? F_PLAINTEXT then F_PLAINTEXT
  else match mod_fmt c o with Some f => f | None => sys_fmt c end.

Definition shows_whole_text (b : body) (t : text) : Prop := b = BStan (SPre t).

Definition in_parse_errors (st : state) (sec : N) (o : oid) : Prop := mem_pe sec o (parse_errors st) = true.

Definition names (o : oid) (r : report) : Prop := fst (fst r) = o.

(* everything rendering o reads from the state *)
Definition same_view (o : oid) (s1 s2 : state) : Prop :=
  pdoc s1 o = pdoc s2 o /\ psum s1 o = psum s2 o /\
  forall sec, mem_pe sec o (parse_errors s1) = mem_pe sec o (parse_errors s2).

(* a transition that touches nothing but o: every other object keeps its view, the report log only grows, and
   only by reports naming o *)
Definition touches_only (o : oid) (s s' : state) : Prop :=
  (forall x, x <> o -> same_view x s s') /\
  exists d, reports s' = reports s ++ d /\ Forall (names o) d.

(* o renders its own docstring: it is not a "split field" (no docstring of its own, parsed_docstring put there by
   its parent's extract_fields) and it does not inherit its documentation from another object *)
Definition renders_own_docstring (c : config) (st : state) (o : oid) : Prop :=
  docstring c o <> None \/ (pdoc st o = None /\ inherits c o = []).

(* first fatal error of a list of (id, is_fatal) *)
Definition first_fatal (errors : list (N * bool)) (e : N * bool) : Prop :=
  exists pre post, errors = pre ++ e :: post /\ snd e = true /\ Forall (fun x => snd x = false) pre.
