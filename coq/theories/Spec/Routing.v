(* Spec/Routing.v -- what "a field is shown under the entry it belongs to, or reported" means.
   Written from the documentation of the supported fields (docs/source/docformat/*.rst, "Fields"), not from
   FieldHandler's code: which entry of the field table a tag belongs to, how often the text of field i
   occurs in a rendered table, what counts as a report for a field, and -- from the INPUT alone -- the
   classes of field that pydoctor is known to drop without a word (the guard of the positive theorem). *)
From Coq Require Import ZArith NArith List Bool Arith String Ascii.
From PydoctorVerif Require Import Base.Sexp Model.FieldTypes Model.Fields.
Import ListNotations.
Local Open Scope string_scope.

Definition T (s : string) : text := map N_of_ascii (list_ascii_of_string s).

(* ---- the entries of a field table ----------------------------------------------------------------- *)
Inductive entry :=
| EnParameters | EnReturns | EnYields | EnRaises | EnWarns | EnSeeAlso | EnNote | EnAuthor | EnSince
| EnUnknown (tag : text).

Definition known_tags : list (string * entry) := [
  ("param", EnParameters); ("arg", EnParameters); ("keyword", EnParameters); ("type", EnParameters);
  ("return", EnReturns); ("returns", EnReturns); ("rtype", EnReturns); ("returntype", EnReturns);
  ("yield", EnYields); ("yields", EnYields); ("ytype", EnYields); ("yieldtype", EnYields);
  ("raise", EnRaises); ("raises", EnRaises); ("except", EnRaises);
  ("warn", EnWarns); ("warns", EnWarns);
  ("see", EnSeeAlso); ("seealso", EnSeeAlso);
  ("note", EnNote); ("author", EnAuthor); ("since", EnSince) ].

(* tags that document a variable of a class / module: they have no entry in a field table *)
Definition var_tags : list string := ["ivar"; "cvar"; "var"].

Fixpoint assoc_tag {X} (tag : text) (l : list (string * X)) : option X :=
  match l with
  | [] => None
  | (k, v) :: l' => if text_eqb (T k) tag then Some v else assoc_tag tag l'
  end.

Definition is_var_tag (tag : text) : bool := existsb (fun k => text_eqb (T k) tag) var_tags.

Definition entry_of_tag (tag : text) : option entry :=
  match assoc_tag tag known_tags with
  | Some e => Some e
  | None => if is_var_tag tag then None else Some (EnUnknown tag)
  end.

Definition labels_of (e : entry) : list text :=
  match e with
  | EnParameters => [T "Parameters"]
  | EnReturns => [T "Returns"]
  | EnYields => [T "Yields"]
  | EnRaises => [T "Raises"]
  | EnWarns => [T "Warns"]
  | EnSeeAlso => [T "See Also"]
  | EnNote => [T "Note"; T "Notes"]
  | EnAuthor => [T "Author"; T "Authors"]
  | EnSince => [T "Present Since"]
  | EnUnknown tag => [(T "Unknown Field: " ++ tag)%list]
  end.

(* ---- how often the text of field i is shown -------------------------------------------------------- *)
Definition body_occ (i : nat) (o : option nat) : nat :=
  match o with Some j => if Nat.eqb j i then 1 else 0 | None => 0 end.
Definition type_occ (i : nat) (o : option tyref) : nat :=
  match o with Some (TyField j) => if Nat.eqb j i then 1 else 0 | _ => 0 end.
Definition row_occ (i : nat) (r : row) : nat := body_occ i (row_body r) + type_occ i (row_type r).
Definition rows_occ (i : nat) (rows : list row) : nat := list_sum (map (row_occ i) rows).

(* occurrences in the sections whose label satisfies p *)
Definition secs_occ (p : text -> bool) (i : nat) (secs : list section) : nat :=
  list_sum (map (fun s => if p (sec_label s) then rows_occ i (sec_rows s) else 0) secs).

Definition occurrences (i : nat) (secs : list section) : nat := secs_occ (fun _ => true) i secs.
Definition occurrences_under (labels : list text) (i : nat) (secs : list section) : nat :=
  secs_occ (fun l => existsb (text_eqb l) labels) i secs.

(* the text of field i is in exactly one row of the whole table, and that row is under entry e *)
Definition shown_once_under (i : nat) (e : entry) (secs : list section) : Prop :=
  occurrences i secs = 1 /\ occurrences_under (labels_of e) i secs = 1.

(* ---- reports ------------------------------------------------------------------------------------------ *)
Fixpoint strip_stars (t : text) : text :=
  match t with
  | 42%N :: t' => strip_stars t'
  | _ => t
  end.

Definition arg_name (f : field) : option text := option_map strip_stars (f_arg f).

Definition is_tag (names : list string) (f : field) : bool := existsb (fun k => text_eqb (T k) (f_tag f)) names.
Definition param_tags : list string := ["param"; "arg"; "keyword"].

(* a warning was issued on the line of field i *)
Definition reported_at (i : nat) (reps : list report) : Prop := exists r, In r reps /\ rp_field r = i.

(* a warning says that the parameter this field documents is documented again further down
   ('Parameter "x" was already documented' / 'Parameter "x" is documented as keyword') *)
Definition rkind_dup (k : rkind) : bool := match k with RAlreadyDoc | RAsKeyword => true | _ => false end.
Definition dup_reportedb (f : field) (reps : list report) : bool :=
  is_tag param_tags f &&
  match arg_name f with
  | Some n => existsb (fun r => rkind_dup (rp_kind r) && text_eqb (rp_name r) n) reps
  | None => false
  end.

Definition routed (i : nat) (f : field) (secs : list section) (reps : list report) : Prop :=
  (exists e, entry_of_tag (f_tag f) = Some e /\ shown_once_under i e secs) \/ reported_at i reps \/ dup_reportedb f reps = true.

(* ---- the fields pydoctor drops without a word (from the input alone) ---------------------------------- *)
Inductive slot := SlReturn | SlRtype | SlYield | SlYtype.
Definition slot_tags : list (string * slot) := [
  ("return", SlReturn); ("returns", SlReturn); ("rtype", SlRtype); ("returntype", SlRtype);
  ("yield", SlYield); ("yields", SlYield); ("ytype", SlYtype); ("yieldtype", SlYtype) ].
Definition slot_eqb (a b : slot) : bool :=
  match a, b with
  | SlReturn, SlReturn | SlRtype, SlRtype | SlYield, SlYield | SlYtype, SlYtype => true
  | _, _ => false
  end.
Definition slot_of (f : field) : option slot := assoc_tag (f_tag f) slot_tags.

Definition same_name (f g : field) : bool :=
  match arg_name f, arg_name g with
  | Some a, Some b => text_eqb a b
  | _, _ => false
  end.

Definition is_function_obj (E : env) : bool := match e_obj E with OFunction _ => true | _ => false end.

(* the first parameter that resolve_types strips when it is not documented with @param *)
Definition stripped_first (E : env) : option text :=
  match e_obj E with
  | OFunction FMethod => Some (T "self")
  | OFunction FClassMethod => Some (T "cls")
  | _ => None
  end.

Definition sig_names (E : env) : list text := map (fun p => pn_text (fst p)) (e_sig E).
Definition in_sig (E : env) (f : field) : bool :=
  match arg_name f with Some n => existsb (text_eqb n) (sig_names E) | None => false end.

(* field j (after field i) documents the same parameter and pydoctor warns about it *)
Definition dup_warned_at (E : env) (fs : list field) (f : field) (j : nat) : bool :=
  match nth_error fs j with
  | Some g => is_tag param_tags g && same_name f g &&
              (negb (is_tag ["keyword"] g) || in_sig E f || existsb (fun h => is_tag ["type"] h && same_name f h) (firstn j fs))
  | None => false
  end.
Definition later_dup_warned (E : env) (fs : list field) (i : nat) (f : field) : bool :=
  existsb (dup_warned_at E fs f) (seq (S i) (List.length fs - S i)).

Definition silently_lost (E : env) (fs : list field) (i : nat) (f : field) : bool :=
  let later := skipn (S i) fs in
  (* (a) @return / @rtype / @yield / @ytype : a later field of the same kind replaces it *)
  match slot_of f with
  | Some s => existsb (fun g => match slot_of g with Some s' => slot_eqb s s' | None => false end) later
  | None => false
  end
  (* (b) @type x : a later @type x replaces it *)
  || (is_tag ["type"] f && existsb (fun g => is_tag ["type"] g && same_name f g) later)
  (* (c) @ivar / @cvar / @var in the docstring of a function *)
  || is_var_tag (f_tag f)
  (* (d) @param/@arg/@keyword x followed by another @param/@arg/@keyword x -- the later one replaces it -- when none of
         the later ones is warned about: a later @param/@arg x always is ('was already documented'); a later @keyword x
         only when x is a parameter of the signature or already has a @type ('is documented as keyword') *)
  || (is_tag param_tags f && existsb (fun g => is_tag param_tags g && same_name f g) later && negb (later_dup_warned E fs i f))
  (* (e) @type self (method) / @type cls (class method) without a @param for it *)
  || (is_tag ["type"] f &&
      match stripped_first E, arg_name f with
      | Some s, Some n => text_eqb s n && negb (existsb (fun g => is_tag param_tags g && same_name f g) fs)
      | _, _ => false
      end).

Definition no_silent_class (E : env) (fs : list field) : Prop :=
  forall i f, nth_error fs i = Some f -> silently_lost E fs i f = false.

(* ---- parameter order (C09_param_order) ---------------------------------------------------------------- *)
(* what the Parameters table of a function must list: the parameters of the signature in signature order
   (minus an undocumented leading self/cls), then the documented names that are not in the signature, in
   the order they were first documented; a `**kwargs` entry comes last (or is left out when explicit
   keywords are documented and it is not). *)
Definition row_names (rows : list pdesc) : list text := map (fun p => pn_text (pd_name p)) rows.

(* decidable form of `routed`, used to exhibit counterexamples by computation *)
Definition routedb (i : nat) (f : field) (secs : list section) (reps : list report) : bool :=
  match entry_of_tag (f_tag f) with
  | Some e => Nat.eqb (occurrences i secs) 1 && Nat.eqb (occurrences_under (labels_of e) i secs) 1
  | None => false
  end || existsb (fun r => Nat.eqb (rp_field r) i) reps || dup_reportedb f reps.

(* ---- order of the parameter rows ------------------------------------------------------------------------ *)
Inductive subseq {X} : list X -> list X -> Prop :=
| subseq_nil : forall l, subseq [] l
| subseq_keep : forall x a b, subseq a b -> subseq (x :: a) (x :: b)
| subseq_skip : forall x a b, subseq a b -> subseq a (x :: b).

Definition key_texts {V} (d : list (pname * V)) : list text := map (fun e => pn_text (fst e)) d.

(* ---- the text of the warnings (field.report(...)) ----------------------------------------------------------------- *)
Definition render_report (r : report) : text :=
  match rp_kind r with
  | RUnexpectedArg => T "Unexpected argument in " ++ rp_name r ++ T " field"
  | RNameMissing => T "Parameter name missing"
  | RNotExist =>
    T "Documented parameter """ ++ rp_name r ++ T """ does not exist" ++
    (match rp_variant r with
     | 0%N => []
     | 1%N => T ", variable keywords should be documented with the " ++ T """Keyword Arguments"" section"
     | _ => T ", variable keywords should be documented with the " ++ T """keyword"" field"
     end)
  | RAlreadyDoc => T "Parameter """ ++ rp_name r ++ T """ was already documented"
  | RAsKeyword => T "Parameter """ ++ rp_name r ++ T """ is documented as keyword"
  | RExcMissing => T "Exception type missing"
  | RUnknownField => T "Unknown field '" ++ rp_name r ++ T "'"
  | RVarName => T "Field in variable docstring should not include a name"
  end%list.
