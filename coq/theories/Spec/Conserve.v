(* Spec/Conserve.v -- what "the highlighter keeps the text" means, and what is assumed of `re`.
   Written without looking at the control flow of doctest.py:

   * the visible text of a list of yielded pieces is their concatenation;
   * `re.finditer` returns matches that lie inside the string, in increasing order, without overlap;
     DOCTEST_RE has an alternative (\Z) that matches at the end of every string, so the last match ends
     at len(s); every alternative but \Z consumes at least one character; a DEFINE match has the
     shape  \b(?:def|class)[ \t]+\w+  i.e. word characters, blanks, word characters;
   * a doctest example match is  source ++ want  inside the string.

   The expected text of a doctest block states the only deviation colorize_doctest_body makes:
   every non-empty expected-output block `want` is shown as  want.rstrip() + '\n'. *)
From Coq Require Import ZArith NArith List Bool Arith.
From PydoctorVerif Require Import Base.Sexp Model.Segments.
Import ListNotations.

Definition text_of (segs : list seg) : text := flat_map snd segs.

(* ---- contract of DOCTEST_RE.finditer(s) --------------------------------------------------------- *)
Fixpoint spans_from (n idx : nat) (ms : list span) : Prop :=
  match ms with
  | [] => idx = n                                   (* the \Z alternative: the last match ends at len(s) *)
  | m :: ms' => idx <= sp_start m /\ sp_start m <= sp_end m /\ sp_end m <= n /\ spans_from n (sp_end m) ms'
  end.

(* without the \Z clause: in range, increasing, not overlapping *)
Fixpoint spans_weak (n idx : nat) (ms : list span) : Prop :=
  match ms with
  | [] => idx <= n
  | m :: ms' => idx <= sp_start m /\ sp_start m <= sp_end m /\ sp_end m <= n /\ spans_weak n (sp_end m) ms'
  end.

Definition all_true (p : N -> bool) (t : text) : Prop := Forall (fun c => p c = true) t.

Definition define_shape (is_word is_space : N -> bool) (t : text) : Prop :=
  exists w sp nm, t = w ++ sp ++ nm /\ w <> [] /\ sp <> [] /\ nm <> [] /\
                  all_true is_word w /\ all_true is_space sp /\ all_true is_word nm.

Definition kind_ok (is_word is_space : N -> bool) (s : text) (m : span) : Prop :=
  match sp_kind m with
  | KEos => sp_start m = sp_end m
  | KDefine => sp_start m < sp_end m /\ define_shape is_word is_space (slice s (sp_start m) (sp_end m))
  | _ => sp_start m < sp_end m
  end.

Definition classes_disjoint (is_word is_space : N -> bool) : Prop :=
  forall c, is_word c = true -> is_space c = false.

Definition finditer_contract (is_word is_space : N -> bool) (s : text) (ms : list span) : Prop :=
  spans_from (length s) 0 ms /\ Forall (kind_ok is_word is_space s) ms.

Definition finditer_contract_weak (is_word is_space : N -> bool) (s : text) (ms : list span) : Prop :=
  spans_weak (length s) 0 ms /\ Forall (kind_ok is_word is_space s) ms.

(* ---- contract of DOCTEST_EXAMPLE_RE.finditer(s) ------------------------------------------------ *)
Fixpoint examples_from (n idx : nat) (exs : list example) : Prop :=
  match exs with
  | [] => idx <= n
  | e :: exs' => idx <= ex_start e /\ ex_start e <= ex_src_end e /\ ex_src_end e <= ex_end e /\ ex_end e <= n /\
                 examples_from n (ex_end e) exs'
  end.

(* ---- the text a doctest block is shown as ------------------------------------------------------- *)
(* r is w without its trailing whitespace *)
Definition is_rstrip_of (w r : text) : Prop :=
  exists ws, w = r ++ ws /\ all_true is_py_space ws /\
             (r = [] \/ exists r' c, r = r' ++ [c] /\ is_py_space c = false).

Definition shown_want (w shown : text) : Prop :=
  match w with
  | [] => shown = []
  | _ => exists r, is_rstrip_of w r /\ shown = r ++ NL
  end.

(* s = pre_1 src_1 want_1 pre_2 src_2 want_2 ... tail   is shown as the same with every want_i replaced *)
Fixpoint doctest_shown (s : text) (idx : nat) (exs : list example) (out : text) : Prop :=
  match exs with
  | [] => out = skipn idx s
  | e :: exs' =>
    exists w rest, shown_want (slice s (ex_src_end e) (ex_end e)) w /\ doctest_shown s (ex_end e) exs' rest /\
                   out = slice s idx (ex_src_end e) ++ w ++ rest
  end.

(* a want block that the deviation leaves alone: empty, or ending in exactly one newline after a
   non-whitespace character (or being just that newline) *)
Definition want_is_normal (w : text) : Prop := shown_want w w.
