(* Spec/ProjectStatic.v -- what a project DEFINES, read off its text alone (no processing order involved):
   which objects exist, their kind, docstring and qualified name, as Python binds them;
   and the syntactic conditions under which the theorems of C06 / C07 are stated.

   Object identities are those of Model/Project.v: (m, 0, 0) is module m, (m, i, 0) the object defined by the i-th
   statement of module m (i >= 1), (m, i, j) the j-th member of that class (j >= 1). *)
From Coq Require Import ZArith NArith List Bool.
From PydoctorVerif Require Import Base.Sexp Model.Project.
Import ListNotations.
Local Open Scope N_scope.

Record sinfo := { s_tag : N; s_kind : N; s_name : N; s_parent : option oid; s_doc : N }.

Section Static.
  Variable p : project.

  Definition stmt_at (m i : N) : option stmt :=
    match modinfo_of p m with
    | Some mi => if N.eqb i 0 then None else nth_error (m_stmts mi) (N.to_nat (i - 1))
    | None => None
    end.

  Definition member_info (m i : N) (mem : N * N * N) : sinfo :=
    let '(mk, name, doc) := mem in
    if N.eqb mk 0
    then {| s_tag := T_FUNCTION; s_kind := K_METHOD; s_name := name; s_parent := Some (m, i, 0); s_doc := doc |}
    else {| s_tag := T_ATTRIBUTE; s_kind := K_CLASS_VARIABLE; s_name := name; s_parent := Some (m, i, 0); s_doc := doc |}.

  Definition stmt_info (m i j : N) (st : stmt) : option sinfo :=
    match st with
    | SClass name doc bases members =>
      if N.eqb j 0
      then Some {| s_tag := T_CLASS; s_kind := K_CLASS; s_name := name; s_parent := Some (m, 0, 0); s_doc := doc |}
      else match nth_error members (N.to_nat (j - 1)) with
           | Some mem => Some (member_info m i mem)
           | None => None
           end
    | SFunc name doc =>
      if N.eqb j 0
      then Some {| s_tag := T_FUNCTION; s_kind := K_FUNCTION; s_name := name; s_parent := Some (m, 0, 0); s_doc := doc |}
      else None
    | SVar name doc =>
      if N.eqb j 0
      then Some {| s_tag := T_ATTRIBUTE; s_kind := K_VARIABLE; s_name := name; s_parent := Some (m, 0, 0); s_doc := doc |}
      else None
    | _ => None
    end.

  (* the object with identity o, as the source text defines it *)
  Definition sobj (o : oid) : option sinfo :=
    let '(m, i, j) := o in
    if N.eqb i 0 then
      if N.eqb j 0 then
        match modinfo_of p m with
        | Some mi =>
          Some {| s_tag := if m_pkg mi then T_PACKAGE else T_MODULE; s_kind := if m_pkg mi then K_PACKAGE else K_MODULE;
                  s_name := m_name mi;
                  s_parent := match m_parent mi with Some q => Some (q, 0, 0) | None => None end;
                  s_doc := m_doc mi |}
        | None => None
        end
      else None
    else
      match stmt_at m i with
      | Some st => stmt_info m i j st
      | None => None
      end.

  Definition sname (o : oid) : N := match sobj o with Some si => s_name si | None => 0 end.
  Definition sparent (o : oid) : option oid := match sobj o with Some si => s_parent si | None => None end.

  (* qualified name: the names along the parent chain (same bound on the chain as Model.Project.full_name) *)
  Fixpoint qname_f (nm : oid -> N) (par : oid -> option oid) (fuel : nat) (o : oid) : path :=
    match fuel with
    | O => []
    | S f => match par o with
             | None => [nm o]
             | Some q => qname_f nm par f q ++ [nm o]
             end
    end.
  Definition depth_fuel : nat := length p + 4.
  Definition skey (o : oid) : path := qname_f sname sparent depth_fuel o.

  (* ---- hypotheses of the theorems ---- *)

  (* "each name is bound once per scope" for definitions: distinct documented objects have distinct qualified names
     (two modules of the same name, two definitions of one name in a module or class, a class named like a
     sub-module of its package are excluded) *)
  Definition keys_distinct : Prop :=
    forall o o', sobj o <> None -> sobj o' <> None -> skey o = skey o' -> o = o'.

  Definition exports_of_mod (mi : modinfo) : list N :=
    match last_all (m_stmts mi) None with Some a => a | None => [] end.

  (* no import statement can re-export: an imported name is never listed in the importing module's __all__,
     and a module that has a star import exports nothing *)
  Definition stmt_no_move (mi : modinfo) (st : stmt) : Prop :=
    match st with
    | SImportFrom _ _ names => forall oa, In oa names -> ~ In (snd oa) (exports_of_mod mi)
    | SImportStar _ _ => exports_of_mod mi = []
    | _ => True
    end.
  Definition no_move : Prop :=
    forall m mi st, modinfo_of p m = Some mi -> In st (m_stmts mi) -> stmt_no_move mi st.

  (* modules are added parents first (SystemBuilder.addModuleString needs the parent package to exist) *)
  Definition parents_first : Prop :=
    forall m mi q, modinfo_of p m = Some mi -> m_parent mi = Some q -> q < m.

  (* the absolute name of the module that `from <level dots><modname> import ...` written in module m refers to *)
  Fixpoint up_static (k : nat) (o : option oid) : option oid :=
    match k with
    | O => o
    | S k' => match o with None => None | Some y => up_static k' (sparent y) end
    end.
  Definition static_modname (m level : N) (modname : path) : option path :=
    if N.eqb level 0 then Some modname
    else
      let lvl := match modinfo_of p m with
                 | Some mi => if m_pkg mi then level - 1 else level
                 | None => level end in
      match up_static (N.to_nat lvl) (Some (m, 0, 0)) with
      | None => None
      | Some q => Some (skey q ++ modname)
      end.

  (* qualified names once the object x = (D, ix, 0) has been re-exported by module R under the name n:
     x is called n and its parent is R; everything below x follows *)
  Definition moved_name (D ix n : N) (o : oid) : N := if oid_eqb o (D, ix, 0) then n else sname o.
  Definition moved_parent (R D ix : N) (o : oid) : option oid :=
    if oid_eqb o (D, ix, 0) then Some (R, 0, 0) else sparent o.
  Definition moved_key (R D ix n : N) (o : oid) : path :=
    qname_f (moved_name D ix n) (moved_parent R D ix) depth_fuel o.

  (* ---- the alias map that the import statements of a module write, read off the text ----
     (local `modname` of visit_ImportFrom, _localNameToFullName_map) after a list of micro-operations of module m *)
  Definition alias_op (m : N) (st : option path * list (N * path)) (op : mop) : option path * list (N * path) :=
    match op with
    | MResolve level modname => (static_modname m level modname, snd st)
    | MImportName orgname asname =>
      match fst st with
      | Some t => (fst st, nset asname (t ++ [orgname]) (snd st))
      | None => st
      end
    | MStmt _ (SImport target asname) =>
      if N.eqb asname 0 then (fst st, nset (hd 0 target) [hd 0 target] (snd st))
      else (fst st, nset asname target (snd st))
    | _ => st
    end.
  Definition alias_ops (m : N) (ops : list mop) : option path * list (N * path) :=
    fold_left (alias_op m) ops (None, []).
  Definition static_alias (m : N) : list (N * path) :=
    match modinfo_of p m with
    | Some mi => snd (alias_ops m (expand_stmts (m_stmts mi)))
    | None => []
    end.

  (* statements whose effect on the alias map is a function of the text: no star import, no `name = dotted.name` *)
  Definition plain_stmt (st : stmt) : bool :=
    match st with
    | SImportStar _ _ | SAlias _ _ => false
    | SImport [] _ => false                       (* `import <nothing>` is not Python *)
    | _ => true
    end.
  Definition plain_imports : Prop :=
    forall m mi st, modinfo_of p m = Some mi -> In st (m_stmts mi) -> plain_stmt st = true.

  (* names that the definitions of module m bind, and the names of its sub-modules *)
  Definition def_name (st : stmt) : list N :=
    match st with SClass n _ _ _ | SFunc n _ | SVar n _ => [n] | _ => [] end.
  Definition def_names (mi : modinfo) : list N := flat_map def_name (m_stmts mi).
  Definition submodule_names (m : N) : list N :=
    flat_map (fun mi' => match m_parent mi' with Some q => if N.eqb q m then [m_name mi'] else [] | None => [] end) p.
  Definition root_names : list N :=
    flat_map (fun mi' => match m_parent mi' with None => [m_name mi'] | Some _ => [] end) p.

  (* the names that the import statements of a module bind, in order, with repetitions *)
  Definition op_import_name (op : mop) : list N :=
    match op with
    | MImportName _ asname => [asname]
    | MStmt _ (SImport target asname) => [if N.eqb asname 0 then hd 0 target else asname]
    | _ => []
    end.
  Definition import_names (mi : modinfo) : list N := flat_map op_import_name (expand_stmts (m_stmts mi)).

  (* "each name is bound once per scope", for imports: the names a module binds by import are pairwise distinct and
     distinct from the names it defines and from the names of its sub-modules *)
  Definition bind_once : Prop :=
    forall m mi, modinfo_of p m = Some mi ->
      NoDup (import_names mi) /\
      (forall a, In a (import_names mi) -> ~ In a (def_names mi) /\ ~ In a (submodule_names m)).

  (* a module does not re-bind the name of a top-level module of the project to something else *)
  Definition no_shadow_roots : Prop :=
    forall m mi r, modinfo_of p m = Some mi -> In r root_names ->
      ~ In r (def_names mi) /\ (forall q, In (r, q) (static_alias m) -> q = [r]).

  (* a schedule: the order of System.unprocessed_modules, a permutation of the module indices *)
  Definition module_ids : list N := map N.of_nat (seq 0 (length p)).
End Static.
