(* Spec/PyImport.v -- what CPython binds (C04's reference semantics), written without looking at pydoctor.

   Final-state semantics of importing every module of a project: the value of a name in a module or
   class namespace once all modules have been imported.  It is adequate for projects that CPython
   imports without error and in which no module reads a name from a partially initialised module
   ("acyclic") and every name is used after it is bound -- the projects of C04's quantifier; on those
   it is validated against a CPython subprocess on every check run (spec validation).

   Values: module objects and class/function objects, the latter identified as CPython does by
   (__module__, __qualname__).

   - `import a.b.c` binds `a` to the top-level package; `import a.b.c as d` binds d to module a.b.c.
   - `from X import n as k` binds k to getattr(X, n); when X is a package whose namespace does not
     bind n but which has a submodule n, that is the submodule (importlib._handle_fromlist); relative
     X is resolved by [resolve_relative] = importlib._bootstrap._resolve_name.
     A package that imports from itself (`from . import sub`) gets the submodule.
   - importing a submodule sets it as an attribute of its package: a package namespace that does not
     bind n itself has attribute n = submodule n.
   - class bodies: a name is looked up in the class namespace, then in the module globals -- never in
     an enclosing class (LOAD_NAME).  getattr on a class: own namespace, then the base (one base at most).
   - `from X import *` (module level only): __all__ of X if present, else X's public names.

   Two presentations: inductive relations (used by the theorems) and a fuelled evaluator [ev] (run by the
   harness, validated against CPython; Proofs/NamesProofs.v proves ev sound w.r.t. the relations). *)
From Coq Require Import NArith List Bool Arith.
From PydoctorVerif Require Import Base.ImportSyntax.
Import ListNotations.

Inductive value := VMod (m : path) | VObj (m : path) (q : path).

(* importlib._bootstrap._resolve_name(name, package, level):
     bits = package.rsplit('.', level - 1); if len(bits) < level: raise ImportError; base = bits[0]
     return f'{base}.{name}' if name else base
   with package = __package__ : the module's own name for a package, its parent's name otherwise
   ('' for a top-level module: "attempted relative import with no known parent package"). *)
Definition resolve_relative (mpath : path) (is_pkg : bool) (level : nat) (modname : path) : option path :=
  match level with
  | O => Some modname
  | S l =>
    let package := if is_pkg then mpath else removelast mpath in
    match package with
    | [] => None
    | _ => if length package <? level then None
           else Some (firstn (length package - l) package ++ modname)
    end
  end.

(* names a module hands out to `from X import *`: __all__ if present, else its public names *)
Definition exported (P : project) (X : path) (n : name) : bool :=
  match find_module P X with
  | Some mx => match m_all mx with
               | Some l => mem_name n l
               | None => negb (is_private n)
               end
  | None => false
  end.

(* ---------------------------------------------------------------- relations *)
Section Rel.
  Variable P : project.

  Inductive py_ns : path -> path -> name -> value -> Prop :=
  | ns_bind : forall m qual body n b v,
      scope_body P m qual = Some body -> binder_of body n = Some b ->
      py_binder m qual n b v -> py_ns m qual n v
  | ns_submod : forall m mm n,
      find_module P m = Some mm -> m_pkg mm = true -> binder_of (m_body mm) n = None ->
      is_module P (m ++ [n]) = true -> py_ns m [] n (VMod (m ++ [n]))
  | ns_star : forall m mm level modname X n v,
      (* `from X import *` at module level binds every exported name that X has *)
      find_module P m = Some mm -> In (SStar level modname) (m_body mm) ->
      resolve_relative m (m_pkg mm) level modname = Some X -> is_module P X = true -> path_eqb X m = false ->
      exported P X n = true -> py_ns X [] n v -> py_ns m [] n v
  with py_binder : path -> path -> name -> binder -> value -> Prop :=
  | pb_class : forall m qual n base body, py_binder m qual n (BClass base body) (VObj m (qual ++ [n]))
  | pb_def : forall m qual n, py_binder m qual n BDef (VObj m (qual ++ [n]))
  | pb_import_top : forall m qual n a, is_module P [a] = true -> py_binder m qual n (BImportTop a) (VMod [a])
  | pb_import_as : forall m qual n t, is_module P t = true -> py_binder m qual n (BImportAs t) (VMod t)
  | pb_from : forall m qual n mm level modname orig X v,
      find_module P m = Some mm -> resolve_relative m (m_pkg mm) level modname = Some X ->
      is_module P X = true -> path_eqb X m = false -> py_ns X [] orig v ->
      py_binder m qual n (BFrom level modname orig) v
  | pb_from_self : forall m qual n mm level modname orig,
      (* a package importing one of its own submodules: `from . import sub` in pkg/__init__.py *)
      find_module P m = Some mm -> resolve_relative m (m_pkg mm) level modname = Some m ->
      is_module P (m ++ [orig]) = true ->
      py_binder m qual n (BFrom level modname orig) (VMod (m ++ [orig]))
  | pb_alias : forall m qual n expr v, py_eval m qual expr v -> py_binder m qual n (BAlias expr) v
  with py_eval : path -> path -> path -> value -> Prop :=
  | pe_dotted : forall m qual d rest v0 v,
      py_name m qual d v0 -> py_attrs v0 rest v -> py_eval m qual (d :: rest) v
  with py_name : path -> path -> name -> value -> Prop :=
  | pn_own : forall m qual d v, py_ns m qual d v -> py_name m qual d v
  | pn_global : forall m qual body d v,
      qual <> [] -> scope_body P m qual = Some body -> binder_of body d = None ->
      py_ns m [] d v -> py_name m qual d v
  with py_attrs : value -> path -> value -> Prop :=
  | pas_nil : forall v, py_attrs v [] v
  | pas_cons : forall v n v1 rest v2, py_attr v n v1 -> py_attrs v1 rest v2 -> py_attrs v (n :: rest) v2
  with py_attr : value -> name -> value -> Prop :=
  | pa_mod : forall X n v, py_ns X [] n v -> py_attr (VMod X) n v
  | pa_own : forall m qual n v, qual <> [] -> py_ns m qual n v -> py_attr (VObj m qual) n v
  | pa_inh : forall m qual body n bexpr m' q' v,
      qual <> [] -> scope_body P m qual = Some body -> binder_of body n = None ->
      class_base P m qual = Some bexpr -> py_eval m (removelast qual) bexpr (VObj m' q') ->
      py_attr (VObj m' q') n v -> py_attr (VObj m qual) n v.

  (* an absolute dotted name read as a Python expression over sys.modules: top-level module, then attributes *)
  Definition py_abs (q : path) (v : value) : Prop :=
    match q with
    | [] => False
    | a :: rest => is_module P [a] = true /\ py_attrs (VMod [a]) rest v
    end.

  (* the meaning of a (possibly dotted) name in the namespace of module m / class m.qual *)
  Definition py_lookup (m qual : path) (dotted : path) (v : value) : Prop := py_eval m qual dotted v.
End Rel.

(* ---------------------------------------------------------------- evaluator (with `import *`) *)
Inductive req :=
| RNs (m qual : path) (n : name)
| RAttr (v : value) (n : name)
| RName (m qual : path) (d : name)
| REval (m qual : path) (expr : path).

(* the last statement of a body that binds n decides; a star import binds n only if the module exports it *)
Section Scan.
  Variable n : name.
  Variable star_val : nat -> path -> option value.
  Variable ev_binder : binder -> option value.
  Variable dflt : option value.
  Fixpoint scan_body (l : list stmt) : option value :=
    match l with
    | [] => dflt
    | SStar level modname :: l' =>
      match star_val level modname with
      | Some v => Some v
      | None => scan_body l'
      end
    | s :: l' =>
      match stmt_binder s n with
      | Some b => ev_binder b
      | None => scan_body l'
      end
    end.
End Scan.

Section Eval.
  Variable P : project.

  Fixpoint ev (fuel : nat) (r : req) {struct fuel} : option value :=
    match fuel with
    | O => None
    | S f =>
      match r with
      | RNs m qual n =>
        match find_module P m, scope_body P m qual with
        | Some mm, Some body =>
          let ev_binder := fun (b : binder) =>
            match b with
            | BClass _ _ | BDef => Some (VObj m (qual ++ [n]))
            | BImportTop a => if is_module P [a] then Some (VMod [a]) else None
            | BImportAs t => if is_module P t then Some (VMod t) else None
            | BFrom level modname orig =>
              match resolve_relative m (m_pkg mm) level modname with
              | Some X => if path_eqb X m
                          then (if is_module P (m ++ [orig]) then Some (VMod (m ++ [orig])) else None)
                          else if is_module P X then ev f (RNs X [] orig) else None
              | None => None
              end
            | BAlias expr => ev f (REval m qual expr)
            end in
          scan_body n
            (fun level modname =>
               match qual, resolve_relative m (m_pkg mm) level modname with
               | [], Some X => if is_module P X && negb (path_eqb X m) && exported P X n then ev f (RNs X [] n) else None
               | _, _ => None
               end)
            ev_binder
            (match qual with
             | [] => if m_pkg mm && is_module P (m ++ [n]) then Some (VMod (m ++ [n])) else None
             | _ => None
             end)
            (rev body)
        | _, _ => None
        end
      | RAttr v n =>
        match v with
        | VMod X => ev f (RNs X [] n)
        | VObj m qual =>
          match qual, scope_body P m qual with
          | _ :: _, Some body =>
            match binder_of body n with
            | Some _ => ev f (RNs m qual n)
            | None =>
              match class_base P m qual with
              | Some bexpr =>
                match ev f (REval m (removelast qual) bexpr) with
                | Some (VObj m' q') => ev f (RAttr (VObj m' q') n)
                | _ => None
                end
              | None => None
              end
            end
          | _, _ => None
          end
        end
      | RName m qual d =>
        match qual with
        | [] => ev f (RNs m [] d)
        | _ => match scope_body P m qual with
               | Some body => match binder_of body d with
                              | Some _ => ev f (RNs m qual d)
                              | None => ev f (RNs m [] d)
                              end
               | None => None
               end
        end
      | REval m qual expr =>
        match expr with
        | [] => None
        | d :: rest =>
          match ev f (RName m qual d) with
          | Some v0 =>
            fold_left (fun acc p => match acc with
                                    | Some v => ev f (RAttr v p)
                                    | None => None
                                    end) rest (Some v0)
          | None => None
          end
        end
      end
    end.
End Eval.

Definition no_star_stmt : stmt -> bool :=
  fix go (s : stmt) : bool :=
    match s with
    | SStar _ _ => false
    | SClass _ _ body => forallb go body
    | _ => true
    end.

Definition no_star (P : project) : bool := forallb (fun m => forallb no_star_stmt (m_body m)) P.
