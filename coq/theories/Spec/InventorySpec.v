(* Spec/InventorySpec.v -- what C17 means, written without looking at the control flow of pydoctor/sphinx.py:
   - what the space separated fields of a line are (a relation, not str.split);
   - the column grammar pydoctor's reader implements, declaratively (least integer column from the third field on);
   - Sphinx's version 2 line grammar as a decomposition relation: name, spaces, type, spaces, priority, spaces,
     location, spaces, display name -- in regex form  (.+?) \s+ (\S+) \s+ (-?\d+) \s+? (\S* ) \s+ (.* )
     (existence of a match; ASCII digits -- all that written lines need);
   - which objects a written inventory must list (reachable through `contents` from the subjects, none of them
     nor of their ancestors hidden) and the entry each one gets;
   - what the comment stripping of a payload must leave.
   Types (columns, obj) come from the model. *)
From Coq Require Import ZArith NArith List Bool.
From PydoctorVerif Require Import Base.Sexp Model.Inventory.
Import ListNotations.
Local Open Scope N_scope.

(* ------------------------------------------------------------------ fields of a line *)
(* p1 ' ' p2 ' ' ... ' ' pn *)
Definition unwords (parts : list text) : text :=
  match parts with
  | [] => []
  | p :: ps => p ++ flat_map (fun q => 32 :: q) ps
  end.

(* `parts` are the fields of `line`: at least one, none contains a space, single spaces between them *)
Definition is_fields (line : text) (parts : list text) : Prop :=
  parts <> [] /\ Forall (fun p => ~ In 32 p) parts /\ line = unwords parts.

(* ------------------------------------------------------------------ the reader's column grammar *)
(* The priority column is the first field, from the third on, that int() accepts; the type is the field before
   it, the name everything before that, the location the field after it, the display name the (non-empty) rest. *)
Definition pd_line (int_of : text -> option Z) (line : text) (c : columns) : Prop :=
  exists parts k p,
    is_fields line parts /\ (2 <= k)%nat /\
    nth_error parts k = Some p /\ int_of p = Some (c_prio c) /\
    (forall j q, (2 <= j < k)%nat -> nth_error parts j = Some q -> int_of q = None) /\
    c_name c = unwords (firstn (k - 1) parts) /\
    nth_error parts (k - 1) = Some (c_typ c) /\
    nth_error parts (k + 1) = Some (c_loc c) /\
    c_disp c = unwords (skipn (k + 2) parts) /\ c_disp c <> [].

(* ------------------------------------------------------------------ Sphinx's v2 line grammar *)
(* \s of a str pattern *)
Definition re_space (c : N) : bool :=
  (N.leb 9 c && N.leb c 13) || (N.leb 28 c && N.leb c 32) || N.eqb c 133 || N.eqb c 160 || N.eqb c 5760 ||
  (N.leb 8192 c && N.leb c 8202) || N.eqb c 8232 || N.eqb c 8233 || N.eqb c 8239 || N.eqb c 8287 ||
  N.eqb c 12288.

Definition ws_run (w : text) : Prop := w <> [] /\ Forall (fun c => re_space c = true) w.
Definition non_space (t : text) : Prop := Forall (fun c => re_space c = false) t.
Definition ascii_digit (c : N) : bool := N.leb 48 c && N.leb c 57.

(* -?\d+ with its value *)
Definition int_text (t : text) (z : Z) : Prop :=
  exists neg ds, ds <> [] /\ Forall (fun c => ascii_digit c = true) ds /\
                 t = (if neg : bool then [45] else []) ++ ds /\
                 z = (let v := fold_left (fun acc d => (acc * 10 + Z.of_N (d - 48))%Z) ds 0%Z in if neg then (- v)%Z else v).

(* the line can be matched with these groups *)
Definition v2_line (line : text) (c : columns) : Prop :=
  exists w1 w2 prio w3 w4,
    line = c_name c ++ w1 ++ c_typ c ++ w2 ++ prio ++ w3 ++ c_loc c ++ w4 ++ c_disp c /\
    c_name c <> [] /\ ws_run w1 /\ c_typ c <> [] /\ non_space (c_typ c) /\ ws_run w2 /\
    int_text prio (c_prio c) /\ ws_run w3 /\ non_space (c_loc c) /\ ws_run w4.

(* ------------------------------------------------------------------ what a written inventory must list *)
(* o is reachable through contents from the subjects and neither o nor an object on the way is hidden;
   the first index is the qualified name of o's parent (None for a subject) *)
Inductive listed (subjects : list obj) : option text -> obj -> Prop :=
| listed_subject o : In o subjects -> o_hidden o = false -> listed subjects None o
| listed_member pf p c :
    listed subjects pf p -> In c (o_contents p) -> o_hidden c = false ->
    listed subjects (Some (full_name pf (o_name p))) c.

Record entry := Entry { e_name : text; e_tag : N; e_url : text }.

(* the entry of o: qualified name, kind, and the page#anchor where o is documented (Documentable.url) *)
Definition entry_of (root_names : list text) (pf : option text) (o : obj) : entry :=
  Entry (full_name pf (o_name o)) (o_tag o) (url_of root_names pf (o_name o) (o_tag o)).

(* all listed objects in document order (an object, then its members): the entries the inventory must consist of *)
Fixpoint entries_obj (root_names : list text) (pf : option text) (parent_listed : bool) (o : obj) : list entry :=
  match o with
  | Obj name tag hidden contents =>
    if negb hidden && parent_listed
    then entry_of root_names pf o :: over (entries_obj root_names (Some (full_name pf name)) true) contents
    else []
  end.
Definition entries (root_names : list text) (subjects : list obj) : list entry :=
  over (entries_obj root_names None true) subjects.

(* ------------------------------------------------------------------ comment lines in front of the payload *)
(* `p` is what is left of `data` once the leading lines that start with '#' (each ended by a newline) are dropped *)
Inductive stripped : list N -> list N -> Prop :=
| stripped_no_newline d : ~ In 10 d -> stripped d d
| stripped_not_comment d : starts_with_char 35 d = false -> stripped d d
| stripped_comment l rest p : ~ In 10 l -> stripped rest p -> stripped ((35 :: l) ++ 10 :: rest) p.
