(* Spec/Xml.v -- a total reader for a subset of XML 1.0 (fifth edition), written from the
   recommendation's productions and not from any printer:

     content   ::= (element | CharData | Reference)*                          [43]
     element   ::= EmptyElemTag | STag content ETag                           [39]
     STag      ::= '<' Name (S Attribute)* S? '>'                             [40]
     EmptyElemTag ::= '<' Name (S Attribute)* S? '/>'                         [44]
     ETag      ::= '</' Name S? '>'                                           [42]
     Attribute ::= Name S? '=' S? AttValue                                    [41],[25]
     AttValue  ::= DQ ([^<&DQ] | Reference)* DQ | SQ ([^<&SQ] | Reference)* SQ    [10]  (DQ, SQ: double, single quote)
     CharData  ::= [^<&]* not containing the CDATA-section-close delimiter    [14]
     Reference ::= '&' ('amp'|'lt'|'gt'|'quot'|'apos') ';' | '&#' [0-9]+ ';' | '&#x' [0-9a-fA-F]+ ';'   [66]-[68], 4.6
     Char      ::= #x9 | #xA | #xD | [#x20-#xD7FF] | [#xE000-#xFFFD] | [#x10000-#x10FFFF]   [2]
     S         ::= (#x20 | #x9 | #xD | #xA)+                                  [3]

   Subset: names are ASCII without colon (Name ::= [A-Za-z_][A-Za-z0-9_.-]* ); no comments,
   processing instructions, CDATA sections, DOCTYPE, or general entities other than the five predefined
   ones: any of those makes the reader answer None.  Well-formedness constraints checked: matching end
   tag, unique attribute names, no '<' in attribute values, legal character references, every literal
   character a Char.  `read` reads the `content` production (a forest) up to the end of the input.

   The text reported is the literal text: end-of-line handling (2.11) and attribute-value
   normalisation (3.3.3) -- which change neither well-formedness nor structure -- are not applied
   (the harness applies them when it compares this reader with expat). *)
From Coq Require Import NArith List Bool.
From PydoctorVerif Require Import Base.Sexp.
Import ListNotations.
Local Open Scope N_scope.

Inductive xnode : Type :=
| XText (t : text)
| XElem (name : text) (attrs : list (text * text)) (kids : list xnode).
Definition forest := list xnode.

(* ---- character classes -------------------------------------------------------------- *)
Definition between (lo hi c : N) : bool := (lo <=? c) && (c <=? hi).

Definition xml_char (c : N) : bool :=
  (c =? 9) || (c =? 10) || (c =? 13) || between 32 55295 c || between 57344 65533 c || between 65536 1114111 c.

Definition is_space (c : N) : bool := (c =? 32) || (c =? 9) || (c =? 13) || (c =? 10).

Definition name_start (c : N) : bool := between 65 90 c || between 97 122 c || (c =? 95).
Definition name_char (c : N) : bool := name_start c || between 48 57 c || (c =? 45) || (c =? 46).

Definition is_name (n : text) : bool :=
  match n with [] => false | c :: r => name_start c && forallb name_char r end.

Fixpoint text_eqb (a b : text) : bool :=
  match a, b with
  | [], [] => true
  | x :: a', y :: b' => (x =? y) && text_eqb a' b'
  | _, _ => false
  end.

(* ---- references ----------------------------------------------------------------------- *)
Definition dec_val (c : N) : option N := if between 48 57 c then Some (c - 48) else None.
Definition hex_val (c : N) : option N :=
  if between 48 57 c then Some (c - 48)
  else if between 97 102 c then Some (c - 87)
  else if between 65 70 c then Some (c - 55)
  else None.

Fixpoint number (base : N) (val : N -> option N) (acc : N) (l : text) : option N :=
  match l with
  | [] => Some acc
  | c :: r => match val c with Some d => number base val (acc * base + d) r | None => None end
  end.

Definition char_ref (o : option N) : option N :=
  match o with Some c => if xml_char c then Some c else None | None => None end.

(* s = p ++ r  ->  Some r *)
Fixpoint strip_prefix (p s : text) : option text :=
  match p with
  | [] => Some s
  | x :: p' => match s with
               | y :: s' => if x =? y then strip_prefix p' s' else None
               | [] => None
               end
  end.

Definition starts_with (p s : text) : bool :=
  match strip_prefix p s with Some _ => true | None => false end.

(* the text between '&' and ';' *)
Definition decode_ref (body : text) : option N :=
  if text_eqb body [97; 109; 112] then Some 38                  (* amp  *)
  else if text_eqb body [108; 116] then Some 60                 (* lt   *)
  else if text_eqb body [103; 116] then Some 62                 (* gt   *)
  else if text_eqb body [113; 117; 111; 116] then Some 34       (* quot *)
  else if text_eqb body [97; 112; 111; 115] then Some 39        (* apos *)
  else match strip_prefix [35; 120] body with                   (* #x hex+ *)
       | Some (d :: ds) => char_ref (number 16 hex_val 0 (d :: ds))
       | Some [] => None
       | None =>
         match strip_prefix [35] body with                      (* # dec+ *)
         | Some (d :: ds) => char_ref (number 10 dec_val 0 (d :: ds))
         | _ => None
         end
       end.

(* Character data / attribute value text (already cut at the delimiter) -> the text it denotes.
   pend = Some acc : inside a reference, acc holds its characters in reverse. *)
Fixpoint unesc (pend : option text) (s : text) : option text :=
  match s with
  | [] => match pend with None => Some [] | Some _ => None end
  | c :: r =>
    match pend with
    | None =>
      if c =? 38 then unesc (Some []) r
      else if c =? 60 then None
      else if xml_char c then match unesc None r with Some t => Some (c :: t) | None => None end
      else None
    | Some acc =>
      if c =? 59 then
        match decode_ref (rev acc) with
        | Some ch => match unesc None r with Some t => Some (ch :: t) | None => None end
        | None => None
        end
      else unesc (Some (c :: acc)) r
    end
  end.

Definition unescape (s : text) : option text := unesc None s.

(* the CDATA-section-close delimiter must not occur literally in content *)
Definition cdata_end : text := [93; 93; 62].
Fixpoint has_cdata_end (s : text) : bool :=
  match s with
  | [] => false
  | _ :: r => starts_with cdata_end s || has_cdata_end r
  end.

Definition char_data (raw : text) : option text :=
  if has_cdata_end raw then None else unescape raw.

(* ---- lexical helpers -------------------------------------------------------------------- *)
Fixpoint span (p : N -> bool) (s : text) : text * text :=
  match s with
  | c :: r => if p c then let '(a, b) := span p r in (c :: a, b) else ([], s)
  | [] => ([], [])
  end.

Definition skip_space (s : text) : text := snd (span is_space s).

Definition read_name (s : text) : option (text * text) :=
  match s with
  | c :: r => if name_start c then let '(a, b) := span name_char r in Some (c :: a, b) else None
  | [] => None
  end.

Fixpoint has_key (k : text) (l : list (text * text)) : bool :=
  match l with [] => false | (k', _) :: r => text_eqb k k' || has_key k r end.

Definition not_char (q c : N) : bool := negb (c =? q).

(* (S Attribute)* S?   -- stops in front of '>' or '/>' *)
Fixpoint read_attrs (fuel : nat) (s : text) : option (list (text * text) * text) :=
  match fuel with
  | O => None
  | S f =>
    let '(ws, r) := span is_space s in
    if starts_with [62] r || starts_with [47; 62] r then Some ([], r)
    else
      match ws with
      | [] => None
      | _ :: _ =>
        match read_name r with
        | None => None
        | Some (k, r1) =>
          match strip_prefix [61] (skip_space r1) with
          | Some r2 =>
            match skip_space r2 with
            | q :: r3 =>
              if (q =? 34) || (q =? 39) then
                let '(raw, r4) := span (not_char q) r3 in
                match r4 with
                | _ :: r5 =>
                  match unescape raw with
                  | None => None
                  | Some v =>
                    match read_attrs f r5 with
                    | None => None
                    | Some (rest, r6) => if has_key k rest then None else Some ((k, v) :: rest, r6)
                    end
                  end
                | [] => None
                end
              else None
            | [] => None
            end
          | None => None
          end
        end
      end
  end.

(* what follows a start tag's '>' : content, the matching end tag; gives the children and the rest *)
Definition close_tag (n : text) (s : text) : option text :=
  match strip_prefix [60; 47] s with
  | Some r5 =>
    match read_name r5 with
    | Some (n', r6) => if text_eqb n n' then strip_prefix [62] (skip_space r6) else None
    | None => None
    end
  | None => None
  end.

(* content: returns the forest read and what follows it: nothing, or an end-tag opener *)
Fixpoint read_content (fuel : nat) (s : text) : option (forest * text) :=
  match fuel with
  | O => None
  | S f =>
    match s with
    | [] => Some ([], [])
    | c :: r =>
      if c =? 60 then
        if starts_with [47] r then Some ([], s)
        else
          match read_name r with
          | None => None
          | Some (n, r1) =>
            match read_attrs f r1 with
            | None => None
            | Some (attrs, r2) =>
              match strip_prefix [47; 62] r2 with
              | Some r3 =>
                match read_content f r3 with
                | Some (sibs, r4) => Some (XElem n attrs [] :: sibs, r4)
                | None => None
                end
              | None =>
                match strip_prefix [62] r2 with
                | Some r3 =>
                  match read_content f r3 with
                  | Some (kids, r4) =>
                    match close_tag n r4 with
                    | Some r7 =>
                      match read_content f r7 with
                      | Some (sibs, r8) => Some (XElem n attrs kids :: sibs, r8)
                      | None => None
                      end
                    | None => None
                    end
                  | None => None
                  end
                | None => None
                end
              end
            end
          end
      else
        let '(raw, r') := span (not_char 60) s in
        match char_data raw with
        | None => None
        | Some t =>
          match read_content f r' with
          | Some (sibs, r'') => Some (XText t :: sibs, r'')
          | None => None
          end
        end
    end
  end.

Definition read (s : text) : option forest :=
  match read_content (S (length s)) s with
  | Some (f, []) => Some f
  | _ => None
  end.

(* ---- what a well-formed fragment says ---------------------------------------------------- *)
(* adjacent character data is one text node, empty character data is none *)
Definition emit (acc : text) (f : forest) : forest :=
  match acc with [] => f | _ :: _ => XText acc :: f end.

Fixpoint coalesce (acc : text) (f : forest) : forest :=
  match f with
  | [] => emit acc []
  | XText t :: r => coalesce (acc ++ t) r
  | XElem n a kids :: r => emit acc (XElem n a kids :: coalesce [] r)
  end.

Fixpoint merge_node (x : xnode) : xnode :=
  match x with
  | XText t => XText t
  | XElem n a kids => XElem n a (coalesce [] (map merge_node kids))
  end.

Definition merge (acc : text) (f : forest) : forest := coalesce acc (map merge_node f).

(* element and attribute names occurring in a forest, in document order *)
Fixpoint node_element_names (x : xnode) : list text :=
  match x with
  | XText _ => []
  | XElem n a kids => n :: flat_map node_element_names kids
  end.
Definition element_names (f : forest) : list text := flat_map node_element_names f.

Fixpoint node_attribute_names (x : xnode) : list text :=
  match x with
  | XText _ => []
  | XElem n a kids => map fst a ++ flat_map node_attribute_names kids
  end.
Definition attribute_names (f : forest) : list text := flat_map node_attribute_names f.

(* ---- wire ---------------------------------------------------------------------------------- *)
Fixpoint node_sexp (x : xnode) : sexp :=
  match x with
  | XText t => L [A Z0; of_text t]
  | XElem n a kids =>
    L [A (Zpos xH); of_text n; L (map (fun kv => L [of_text (fst kv); of_text (snd kv)]) a); L (map node_sexp kids)]
  end.
Definition forest_sexp (f : forest) : sexp := L (map node_sexp f).
