(* Spec/PyTokenizer.v -- from characters to the tokens Spec/PyGrammar.v reads: the lexical analysis of the language
   reference (2.1.5-2.1.9 joining/whitespace, 2.3 identifiers and keywords, 2.4 literals, 2.5 operators, 2.6 delimiters)
   for the part of the language the colouriser itself writes.  Written from the reference, not from the printer.

   * whitespace between tokens: space and newline (all displayed line breaks are inside brackets or literals)
   * names: maximal run of identifier characters (letters, digits, underscore, anything non-ASCII); `not and or` are
     the operator keywords, `None True False` literal leaves; every other keyword is rejected (those forms only occur
     inside text delegated to astor, which is outside this lexer: opaque); a name directly followed by a quote is a
     string prefix and is rejected unless it is the bytes prefix b
   * numbers: digits [. digits] [e [+-] digits] [j], not followed by an identifier character or a dot
   * string / bytes literals in single or triple single quotes, decoded to their value
   * operators and delimiters by maximal munch ( ** // << >> ... ); == <= >= != < > := -> and the like are rejected
   The reader is stricter than CPython (it rejects some valid texts) but never reads a text differently; validated
   against tokenize by harness/c15.py. *)
From Coq Require Import ZArith NArith List Bool.
From PydoctorVerif Require Import Base.Sexp Base.PyExpr Spec.PyLex Spec.PyGrammar.
Import ListNotations.
Local Open Scope N_scope.

Definition is_digit (c : N) : bool := (48 <=? c) && (c <=? 57).
Definition is_alpha (c : N) : bool :=
  ((65 <=? c) && (c <=? 90)) || ((97 <=? c) && (c <=? 122)) || N.eqb c 95 || (128 <=? c).
Definition is_idc (c : N) : bool := is_alpha c || is_digit c.
Definition is_ws (c : N) : bool := N.eqb c 32 || N.eqb c 10.
Definition is_quote (c : N) : bool := N.eqb c 39 || N.eqb c 34.

Fixpoint span (p : N -> bool) (s : text) : text * text :=
  match s with
  | [] => ([], [])
  | c :: s' => if p c then let '(a, b) := span p s' in (c :: a, b) else ([], s)
  end.

Fixpoint teq (a b : text) : bool :=
  match a, b with
  | [], [] => true
  | x :: a', y :: b' => N.eqb x y && teq a' b'
  | _, _ => false
  end.

(* keywords other than the six the lexer gives a meaning to *)
Definition other_keywords : list text :=
  [ [105;102]; [101;108;115;101]; [101;108;105;102]; [105;110]; [105;115]; [108;97;109;98;100;97]; [102;111;114];
    [119;104;105;108;101]; [97;119;97;105;116]; [97;115;121;110;99]; [121;105;101;108;100]; [102;114;111;109];
    [105;109;112;111;114;116]; [97;115]; [119;105;116;104]; [100;101;102]; [99;108;97;115;115]; [114;101;116;117;114;110];
    [112;97;115;115]; [98;114;101;97;107]; [99;111;110;116;105;110;117;101]; [114;97;105;115;101]; [116;114;121];
    [101;120;99;101;112;116]; [102;105;110;97;108;108;121]; [100;101;108]; [103;108;111;98;97;108];
    [110;111;110;108;111;99;97;108]; [97;115;115;101;114;116] ].

Definition K_not : text := [110;111;116].
Definition K_and : text := [97;110;100].
Definition K_or : text := [111;114].
Definition K_None : text := [78;111;110;101].
Definition K_True : text := [84;114;117;101].
Definition K_False : text := [70;97;108;115;101].

Definition word_token (w : text) : option token :=
  if teq w K_not then Some TNot
  else if teq w K_and then Some TAnd
  else if teq w K_or then Some TOr
  else if teq w K_None then Some (TLeaf (LConst KNone))
  else if teq w K_True then Some (TLeaf (LConst KTrue))
  else if teq w K_False then Some (TLeaf (LConst KFalse))
  else if existsb (teq w) other_keywords then None
  else Some (TName w).

(* ---- numbers ---- *)
(* the characters that can continue a numeric literal: identifier characters, the dot, a sign right after e/E *)
Fixpoint nrun (prev : N) (s : text) : text * text :=
  match s with
  | [] => ([], [])
  | c :: s' =>
    if is_idc c || N.eqb c 46 || ((N.eqb c 43 || N.eqb c 45) && (N.eqb prev 101 || N.eqb prev 69))
    then let '(a, b) := nrun c s' in (c :: a, b)
    else ([], s)
  end.

(* digits [. digits] [e [+-] digits+] [j]  -- after the first digit *)
Definition all_digits (s : text) : bool := forallb is_digit s.
Definition valid_exp (s : text) : bool :=      (* after the e *)
  match s with
  | c :: s' => if N.eqb c 43 || N.eqb c 45 then negb (match s' with [] => true | _ => false end) && all_digits s'
               else all_digits s
  | [] => false
  end.
Definition strip_j (s : text) : text :=
  match rev s with 106 :: r => rev r | _ => s end.
Definition valid_number (w : text) : bool :=
  let body := strip_j w in
  let '(ip, r1) := span is_digit body in
  negb (match ip with [] => true | _ => false end) &&
  match r1 with
  | [] => true
  | 46 :: r2 =>
    let '(fp, r3) := span is_digit r2 in
    match r3 with
    | [] => true
    | e :: r4 => (N.eqb e 101 || N.eqb e 69) && valid_exp r4
    end
  | e :: r4 => (N.eqb e 101 || N.eqb e 69) && valid_exp r4
  end.

(* ---- string and bytes literals: the characters after the opening quote(s) -> (value, text after the closing quote(s)) ---- *)
Definition cons1 (c : N) (r : option (text * text)) : option (text * text) :=
  match r with Some (v, rest) => Some (c :: v, rest) | None => None end.

Fixpoint lit_scan (bytes triple : bool) (s : text) : option (text * text) :=
  match s with
  | [] => None
  | c :: s1 =>
    if N.eqb c 39 then
      if triple then match s1 with 39 :: 39 :: rest => Some ([], rest) | _ => None end
      else Some ([], s1)
    else if N.eqb c 0 || N.eqb c 13 then None
    else if N.eqb c 10 then (if triple then cons1 10 (lit_scan bytes triple s1) else None)
    else if N.eqb c 92 then
      match s1 with
      | [] => None
      | e :: s2 =>
        if N.eqb e 92 then cons1 92 (lit_scan bytes triple s2)
        else if N.eqb e 39 then cons1 39 (lit_scan bytes triple s2)
        else if N.eqb e 34 then cons1 34 (lit_scan bytes triple s2)
        else if N.eqb e 110 then cons1 10 (lit_scan bytes triple s2)
        else if N.eqb e 116 then cons1 9 (lit_scan bytes triple s2)
        else if N.eqb e 114 then cons1 13 (lit_scan bytes triple s2)
        else if N.eqb e 102 then cons1 12 (lit_scan bytes triple s2)
        else if N.eqb e 118 then cons1 11 (lit_scan bytes triple s2)
        else if N.eqb e 97 then cons1 7 (lit_scan bytes triple s2)
        else if N.eqb e 98 then cons1 8 (lit_scan bytes triple s2)
        else if N.eqb e 120 then
          match s2 with
          | a :: b :: s3 => match hex2 a b with Some v => cons1 v (lit_scan bytes triple s3) | None => None end
          | _ => None
          end
        else if N.eqb e 117 && negb bytes then
          match s2 with
          | a :: b :: c2 :: d :: s3 => match hex4 a b c2 d with Some v => cons1 v (lit_scan bytes triple s3) | None => None end
          | _ => None
          end
        else None            (* other escapes (octal, \U, \N, line continuation, unknown): not produced; rejected *)
      end
    else if bytes && (128 <=? c) then None
    else cons1 c (lit_scan bytes triple s1)
  end.

Definition lit_token (bytes : bool) (v : text) : token :=
  TLeaf (LConst (if bytes then KBytes v else KStr v)).

(* after the first quote character *)
Definition hd_is (s : text) (k : N) : bool := match s with c :: _ => N.eqb c k | [] => false end.

Definition scan_quoted (bytes : bool) (s : text) : option (token * text) :=
  if hd_is s 39 && hd_is (tl s) 39
  then match lit_scan bytes true (tl (tl s)) with Some (v, rest) => Some (lit_token bytes v, rest) | None => None end
  else match lit_scan bytes false s with Some (v, rest) => Some (lit_token bytes v, rest) | None => None end.

(* ---- one token starting with c ---- *)
(* an operator that is not the start of a longer one ( -> -= == <= ... are rejected ) *)
Definition op1 (t : token) (s : text) : option (token * text) :=
  if hd_is s 61 then None else Some (t, s).

Definition punct (c : N) (s : text) : option (token * text) :=
  match c with
  | 40 => Some (TLP, s) | 41 => Some (TRP, s) | 91 => Some (TLB, s) | 93 => Some (TRB, s)
  | 123 => Some (TLC, s) | 125 => Some (TRC, s) | 44 => Some (TComma, s)
  | 58 => op1 TColon s
  | 46 => if hd_is s 46 then
            (if hd_is (tl s) 46 then (if hd_is (tl (tl s)) 46 then None else Some (TLeaf (LConst KEllipsis), tl (tl s))) else None)
          else if match s with d :: _ => is_digit d | [] => false end then None
          else Some (TDot, s)
  | 61 => op1 TEq s
  | 45 => if hd_is s 62 then None else op1 (TOp OMinus) s
  | 43 => op1 (TOp OPlus) s
  | 126 => Some (TOp OTilde, s)
  | 42 => if hd_is s 42 then op1 (TOp ODStar) (tl s) else op1 (TOp OStar) s
  | 47 => if hd_is s 47 then op1 (TOp ODSlash) (tl s) else op1 (TOp OSlash) s
  | 37 => op1 (TOp OPercent) s
  | 60 => if hd_is s 60 then op1 (TOp OLShift) (tl s) else None
  | 62 => if hd_is s 62 then op1 (TOp ORShift) (tl s) else None
  | 124 => op1 (TOp OBar) s
  | 94 => op1 (TOp OCaret) s
  | 38 => op1 (TOp OAmp) s
  | 64 => op1 (TOp OAt) s
  | _ => None
  end.

Definition starts_sq (s : text) : bool := match s with c :: _ => N.eqb c 39 | [] => false end.

Definition scan (c : N) (s : text) : option (token * text) :=
  if is_alpha c then
    if N.eqb c 98 && starts_sq s then scan_quoted true (tl s)           (* b'...' *)
    else
      let '(w, rest) := span is_idc s in
      if match rest with q :: _ => is_quote q | [] => false end then None     (* a string prefix other than b *)
      else match word_token (c :: w) with Some t => Some (t, rest) | None => None end
  else if is_digit c then
    let '(w, rest) := nrun c s in
    if valid_number (c :: w) then Some (TLeaf (LConst (KNum (c :: w))), rest) else None
  else if N.eqb c 39 then scan_quoted false s
  else punct c s.

Fixpoint lex (f : nat) (s : text) : option (list token) :=
  match f with
  | O => match s with [] => Some [] | _ => None end
  | S f' =>
    match s with
    | [] => Some []
    | c :: s1 =>
      if is_ws c then lex f' s1
      else match scan c s1 with
           | Some (t, rest) => match lex f' rest with Some ts => Some (t :: ts) | None => None end
           | None => None
           end
    end
  end.

Definition tokenize (s : text) : option (list token) := lex (length s) s.

(* the displayed text as Python reads it: tokens, then the expression grammar *)
Definition parse_text (s : text) : option expr :=
  match tokenize s with
  | Some ts => read ts
  | None => None
  end.

(* ---- the guard of the text-level theorems: every leaf of the tree is text this lexer reads ---- *)
Definition ident_ok (w : text) : bool :=
  match w with
  | c :: w' => is_alpha c && forallb is_idc w' &&
               match word_token w with Some (TName _) => true | _ => false end
  | [] => false
  end.

Definition is_e (c : N) : bool := N.eqb c 101 || N.eqb c 69.

Definition num_ok (w : text) : bool :=
  match w with
  | c :: w' =>
    is_digit c && (let '(a, b) := nrun c w' in teq a w' && match b with [] => true | _ => false end)
    && valid_number w && negb (is_e (last w' c))
  | [] => false
  end.

Definition is_bytes (b : text) : bool := forallb (fun c => c <? 256) b.


Fixpoint lexable (e : expr) : bool :=
  match e with
  | ELeaf (LConst (KNum t)) => num_ok t
  | ELeaf (LConst (KBytes b)) => is_bytes b
  | ELeaf (LConst _) => true
  | ELeaf (LGen _) => false                       (* text delegated to astor: opaque, outside the lexer *)
  | EName s => ident_ok s
  | EAttr v a _ => name_chain v && lexable v && ident_ok a
  | EUn _ x => lexable x
  | EBin _ l r => lexable l && lexable r
  | EBool _ es | ETuple es | EList es | ESet es => forallb lexable es
  | EDict items =>
    forallb (fun kv : ditem => match fst kv with Some k => lexable k | None => true end && lexable (snd kv)) items
  | ESub v sl => lexable v && lexable sl
  | ECall f args kws =>
    lexable f && forallb lexable args
    && forallb (fun kw : kwarg => match fst kw with Some n => ident_ok n | None => true end && lexable (snd kw)) kws
  | EStarred x => lexable x
  end.

