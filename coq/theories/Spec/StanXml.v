(* Spec/StanXml.v -- what a stan tree MEANS as an XML fragment, independently of how it is printed:
   a Text is character data, a Tag with a name is an element with those attributes and the meaning of its
   children as content, a transparent Tag (empty name) is just its children.  `norm` merges adjacent
   character data (the XML information set has no boundaries between adjacent texts) and drops empty texts.
   `wf` is the side condition under which a tree has a meaning at all: tag and attribute NAMES are XML names
   (of the ASCII, colon-free subset of Spec/Xml.v), attribute names are unique within a tag, and every
   character is an XML Char -- nothing is asked of the characters of texts and attribute values beyond that. *)
From Coq Require Import NArith List Bool.
From PydoctorVerif Require Import Base.Sexp Model.Stan Spec.Xml.
Import ListNotations.
Local Open Scope N_scope.

Fixpoint denote (s : stan) : forest :=
  match s with
  | SText t => [XText t]
  | STag n a kids =>
    match n with
    | [] => flat_map denote kids
    | _ :: _ => [XElem n a (flat_map denote kids)]
    end
  end.

Definition norm (s : stan) : forest := merge [] (denote s).

Fixpoint nodup_keys (l : list (text * text)) : bool :=
  match l with [] => true | (k, _) :: r => negb (has_key k r) && nodup_keys r end.

Definition wf_attr (kv : text * text) : bool := is_name (fst kv) && forallb xml_char (snd kv).

Fixpoint wf (s : stan) : bool :=
  match s with
  | SText t => forallb xml_char t
  | STag n a kids =>
    match n with
    | [] => forallb wf kids
    | _ :: _ => is_name n && forallb wf_attr a && nodup_keys a && forallb wf kids
    end
  end.

(* the names of the (non-transparent) tags and of their attributes, in document order *)
Fixpoint tag_names (s : stan) : list text :=
  match s with
  | SText _ => []
  | STag n a kids => match n with [] => flat_map tag_names kids | _ :: _ => n :: flat_map tag_names kids end
  end.

Fixpoint attr_names (s : stan) : list text :=
  match s with
  | SText _ => []
  | STag n a kids =>
    match n with [] => flat_map attr_names kids | _ :: _ => map fst a ++ flat_map attr_names kids end
  end.

(* characters that are not XML Chars *)
Definition illegal (c : N) : bool := negb (xml_char c).
