(* Spec/CodeTie.v -- how a state of the interpreter of the translated FieldHandler code (Model/FieldsIR.v) relates to
   a state of the hand-written model (Model/Fields.v).  The model records a warning as (kind, name, variant); the code
   builds the message.  Spec.Routing.render_report says which message each record stands for; `irstate st` is the
   interpreter state that corresponds to the model state st: the same attributes, and the rendered warnings. *)
From Coq Require Import ZArith NArith List Bool Arith.
From PydoctorVerif Require Import Base.Sexp Model.FieldTypes Gen.TablesC09 Model.Fields Model.FieldsIR Gen.FieldsCode Spec.Routing.
Import ListNotations.

Definition rend (r : report) : nat * text := (rp_field r, render_report r).
Definition irstate (st : state) : mstate := {| ms_st := set_reports [] st; ms_msgs := map rend (st_reports st) |}.

(* the value a call of _handle_param_name returns *)
Definition vname (o : option pname) : val := match o with Some p => VName p | None => VNone end.

(* running the translated body s of a handle_<tag> method on field i of the docstring, from the model state st:
   the value returned and the state reached, None when the interpreter is stuck *)
Definition run_method (E : env) (i : nat) (f : field) (s : stmt) (st : state) : option (val * mstate) :=
  finish (exec E i f (call1 fields_code E i f) s loc0 (irstate st)).

(* the model function of each handler *)
Definition model_handler (E : env) (i : nat) (f : field) (h : handler) (st : state) : state :=
  match h with
  | HReturn => handle_return i f st
  | HYield => handle_yield i f st
  | HReturnType => handle_returntype i f st
  | HYieldType => handle_yieldtype i f st
  | HType => handle_type E i f st
  | HParam => handle_param E i f st
  | HKeyword => handle_keyword E i f st
  | HElsewhere => st
  | HRaises => handle_raises i f st
  | HWarns => handle_warns i f st
  | HSeeAlso => set_seealsos (st_seealsos st ++ [i]) st
  | HNote => set_notes (st_notes st ++ [i]) st
  | HAuthor => set_authors (st_authors st ++ [i]) st
  | HSince => set_sinces (st_sinces st ++ [i]) st
  end.
