(* Spec/RstSplit.v -- what splitting a reST field list into fields owes the author (docs: "Consolidated fields"):
   a plain field  :tag arg: body  becomes one field with that body, untouched;
   a consolidated field  :Parameters:  whose body is one bullet list of items  - `x`: text ...  becomes one field per
   item: the argument is the marked identifier, the body is everything else of the item (all its blocks), minus the
   separator  ":" / "-" / " :" / " -"  and the blanks after it;  written as a definition list  x : type / text  it
   becomes a field with the definition as body and, when there is a classifier, a @type field with the classifier;
   anything else is reported and kept as a plain field.  No text of the body is dropped. *)
From Coq Require Import ZArith NArith List Bool Arith.
From PydoctorVerif Require Import Base.Sexp Model.FieldTypes Gen.TablesC09 Model.Segments Model.RstFields.
Import ListNotations.

Definition nodes_text (l : list rnode) : text := flat_map astext l.

Definition blanks (ws : text) : Prop := Forall (fun c => is_py_space c = true) ws.

Definition is_separator (sep : text) : Prop :=
  sep = [] \/ exists ws, blanks ws /\ (sep = 58%N :: ws \/ sep = 45%N :: ws \/ sep = 32%N :: 58%N :: ws \/ sep = 32%N :: 45%N :: ws).

(* the paragraph that follows the marked identifier, before and after the separator is removed *)
Definition separator_removed (before after : list rnode) (sep : text) : Prop :=
  match before with
  | RText t :: r => exists t', t = sep ++ t' /\ is_separator sep /\ after = RText t' :: r
  | _ => sep = [] /\ after = before
  end.

Inductive bullet_item_spec (entry : text) : rnode -> ofield -> text -> Prop :=
| bullet_item_intro : forall tref prest prest' irest sep,
    separator_removed prest prest' sep ->
    bullet_item_spec entry
      (RElem RListItem (RElem RPara (RElem RTitleRef tref :: prest) :: irest))
      {| of_tag := entry; of_arg := Some (nodes_text tref); of_body := RElem RPara prest' :: irest; of_newfield := false |}
      sep.

(* one item of a definition list: term (identifier, then only empty inline nodes), optional classifier, definition *)
Inductive def_item_spec (entry : text) : rnode -> list ofield -> Prop :=
| def_item_plain : forall ttag t0 trest dbody,
    Forall (fun c => astext c = []) trest ->
    def_item_spec entry (RElem RDefItem [RElem ttag (t0 :: trest); RElem RDefinition dbody])
      [{| of_tag := entry; of_arg := Some (astext t0); of_body := dbody; of_newfield := false |}]
| def_item_typed : forall ttag t0 trest ctag cbody dbody,
    Forall (fun c => astext c = []) trest ->
    def_item_spec entry (RElem RDefItem [RElem ttag (t0 :: trest); RElem ctag cbody; RElem RDefinition dbody])
      [{| of_tag := entry; of_arg := Some (astext t0); of_body := dbody; of_newfield := false |};
       {| of_tag := extract_type_tag; of_arg := Some (astext t0); of_body := cbody; of_newfield := false |}].

Inductive Forall3 {X Y Z} (R : X -> Y -> Z -> Prop) : list X -> list Y -> list Z -> Prop :=
| Forall3_nil : Forall3 R [] [] []
| Forall3_cons : forall x y z xs ys zs, R x y z -> Forall3 R xs ys zs -> Forall3 R (x :: xs) (y :: ys) (z :: zs).

Definition is_newfield_marker (nf : list ofield) : Prop :=
  nf = [] \/ exists f, nf = [f] /\ of_newfield f = true.

(* what visit_field may do with one field *)
Definition field_split_ok (tagname : text) (arg : option text) (body : list rnode)
           (added : list ofield) (new_errors : list (N * nat)) : Prop :=
  (* kept as it is *)
  (new_errors = [] /\ added = [plain_field tagname arg body])
  (* one field per item of the bullet list *)
  \/ (new_errors = [] /\ arg = None /\ exists entry items fs seps,
        body = [RElem RBulletList items] /\ Forall3 (bullet_item_spec entry) items fs seps /\ added = fs)
  (* one or two fields per item of the definition list *)
  \/ (new_errors = [] /\ arg = None /\ exists entry items fss,
        body = [RElem RDefList items] /\ Forall2 (def_item_spec entry) items fss /\ added = concat fss)
  (* reported, and kept as it is *)
  \/ (exists e nf, new_errors = [e] /\ is_newfield_marker nf /\ added = nf ++ [plain_field tagname None body]).
