(* Spec/SiteSpec.v -- what C11 / C12 mean, stated on the registry without looking at how the template writer is
   organised: ancestry, reachability through `contents`, "nothing hidden above", and the well-formedness of a
   registry (C02's invariants, assumed here). *)
From Coq Require Import NArith List Bool Arith.
From PydoctorVerif Require Import Base.Sexp Model.SiteTable Model.Site.
Import ListNotations.

(* a is o itself or one of its containers (following `parent`) *)
Inductive anc_or_self (r : registry) : nat -> nat -> Prop :=
| aos_self : forall o, anc_or_self r o o
| aos_up : forall a o p, parent_of r o = Some p -> anc_or_self r a p -> anc_or_self r a o.

(* "An object whose privacy is HIDDEN, and everything inside it": o is visible iff nothing at or above it is HIDDEN *)
Definition nothing_hidden_above (r : registry) (o : nat) : Prop :=
  forall a, anc_or_self r a o -> priv_of r a <> HIDDEN.

(* o is i or is reached from i by following `contents` *)
Inductive desc (r : registry) : nat -> nat -> Prop :=
| desc_refl : forall i, desc r i i
| desc_step : forall i c o, In c (contents_of r i) -> desc r c o -> desc r i o.

Definition reachable (r : registry) (o : nat) : Prop := exists root, In root (r_roots r) /\ desc r root o.

Definition valid (r : registry) (i : nat) : Prop := i < length (r_objs r).

(* C02's invariants of a registry, as far as the site needs them *)
Record wf (r : registry) : Prop := {
  wf_parent_lt : forall i p, parent_of r i = Some p -> p < i;    (* the parent chain is well founded: parents are numbered first *)
  wf_contents : forall p c, In c (contents_of r p) -> valid r c /\ parent_of r c = Some p;
  wf_roots : forall o, In o (r_roots r) -> valid r o /\ parent_of r o = None /\ own_page r o = true;
  wf_parent_own : forall c p, parent_of r c = Some p -> own_page r p = true;   (* only modules, packages and classes contain objects *)
  wf_module_own : forall c m, module_of r c = Some m -> own_page r m = true
}.

(* no superseded duplicates / collision leftovers: everything registered is reachable through contents *)
Definition all_reachable (r : registry) : Prop := forall o, valid r o -> reachable r o.

(* what an href found on page `cur` must hit: a written file and, with a fragment, an anchor of that file
   (the fragment is the anchor's name, raw or percent-encoded) *)
Definition live_at (quote : text -> text) (tbl : table) (r : registry) (cur href : text) : Prop :=
  In (fst (resolve cur href)) (site_files quote tbl r) /\
  forall a, snd (resolve cur href) = Some a ->
    exists n, In (fst (resolve cur href), n) (site_anchors quote tbl r) /\ (a = n \/ a = quote n).

(* producers whose entries list objects picked by iterating a collection (rows, items, index and search entries);
   the others (heading, sidebar title, base name, class signature, overrides) name objects found by resolution *)
Definition listing_prod (p : N) : bool :=
  existsb (N.eqb p) [P_sidebar_item; P_main_table; P_pkginit; P_base_table; P_childlist; P_known_subclasses;
                     P_overridden_in; P_hierarchy; P_module_index; P_class_index; P_name_index; P_undocced;
                     P_index_roots; P_alldocs; P_corpus; P_inventory].
Definition root_prod (p : N) : bool := N.eqb p P_module_index || N.eqb p P_index_roots.

(* producers whose targets are picked from the contents of a written page object, from system.rootobjects, or by
   recursion through contents: reachable by construction *)
Definition contents_prod (p : N) : bool :=
  existsb (N.eqb p) [P_main_table; P_pkginit; P_module_index; P_index_roots; P_inventory].

(* producers whose href is not built by linker.taglink *)
Definition raw_prod (p : N) : bool := existsb (N.eqb p) [P_hierarchy; P_childlist; P_alldocs; P_corpus; P_inventory].

(* producers named by C12: member tables, member details, sidebar, module index, search documents *)
Definition marked_prod (p : N) : bool :=
  existsb (N.eqb p) [P_sidebar_item; P_main_table; P_pkginit; P_base_table; P_childlist; P_module_index; P_alldocs].
