(* Spec/SiteSpec.v -- what C11 / C12 mean, stated on the registry without looking at how the template writer is
   organised: ancestry, reachability through `contents`, "nothing hidden above", and the well-formedness of a
   registry (C02's invariants, assumed here). *)
From Coq Require Import NArith List Bool Arith.
From PydoctorVerif Require Import Base.Sexp Model.SiteTable Model.Site.
Import ListNotations.

(* a is o itself or one of its containers (following `parent`) *)
Inductive anc_or_self (r : registry) : nat -> nat -> Prop :=
| aos_self : forall o, anc_or_self r o o
| aos_up : forall a o p, parent_of r o = Some p -> anc_or_self r a p -> anc_or_self r a o.

(* "An object whose privacy is HIDDEN, and everything inside it": o is visible iff nothing at or above it is HIDDEN *)
Definition nothing_hidden_above (r : registry) (o : nat) : Prop :=
  forall a, anc_or_self r a o -> priv_of r a <> HIDDEN.

(* o is i or is reached from i by following `contents` *)
Inductive desc (r : registry) : nat -> nat -> Prop :=
| desc_refl : forall i, desc r i i
| desc_step : forall i c o, In c (contents_of r i) -> desc r c o -> desc r i o.

Definition reachable (r : registry) (o : nat) : Prop := exists root, In root (r_roots r) /\ desc r root o.

Definition valid (r : registry) (i : nat) : Prop := i < length (r_objs r).

(* C02's invariants of a registry, as far as the site needs them *)
Record wf (r : registry) : Prop := {
  wf_parent_lt : forall i p, parent_of r i = Some p -> p < i;    (* the parent chain is well founded: parents are numbered first *)
  wf_contents : forall p c, In c (contents_of r p) -> valid r c /\ parent_of r c = Some p;
  wf_roots : forall o, In o (r_roots r) -> valid r o /\ parent_of r o = None /\ own_page r o = true;
  wf_parent_own : forall c p, parent_of r c = Some p -> own_page r p = true;   (* only modules, packages and classes contain objects *)
  wf_module_own : forall c m, module_of r c = Some m -> own_page r m = true;
  wf_module_reach : forall c m, module_of r c = Some m -> reachable r m      (* parentMod is a module of the tree *)
}.

(* a is c or one of its (transitive) in-system bases *)
Inductive base_star (r : registry) : nat -> nat -> Prop :=
| bs_refl : forall c, base_star r c c
| bs_step : forall a b c, In (Some b) (bases_of r c) -> base_star r a b -> base_star r a c.

(* the class relations of a registry as System.defaultPostProcess leaves them; `rank` witnesses that inheritance
   has no cycle *)
Record wf_classes (r : registry) (rank : nat -> nat) : Prop := {
  wc_subclass : forall c b, In (Some b) (bases_of r c) ->
                  In c (subclasses_of r b) /\ is_class_kind (kind_of r b) = true;   (* b.subclasses.append(cls) *)
  wc_registered : forall c, valid r c -> is_class_kind (kind_of r c) = true -> In c (r_all r);
  wc_rank : forall c b, In (Some b) (bases_of r c) -> rank b < rank c;
  wc_rank_bound : forall c, rank c < length (r_objs r)
}.

(* neither the name nor the full name carries the ' N' suffix of a superseded duplicate *)
Definition plain_name (r : registry) (c : nat) : Prop :=
  has_space (name_of r c) = false /\ has_space (fullname r c) = false.

(* no superseded duplicates / collision leftovers: everything registered is reachable through contents *)
Definition all_reachable (r : registry) : Prop := forall o, valid r o -> reachable r o.

(* what an href found on page `cur` must hit: a written file and, with a fragment, an anchor of that file
   (the fragment is the anchor's name, raw or percent-encoded) *)
Definition live_at (quote : text -> text) (tbl : table) (r : registry) (cur href : text) : Prop :=
  In (fst (resolve cur href)) (site_files quote tbl r) /\
  forall a, snd (resolve cur href) = Some a ->
    exists n, In (fst (resolve cur href), n) (site_anchors quote tbl r) /\ (a = n \/ a = quote n).

(* the linker of the docstring's source holds the page the docstring is rendered on: the source is i itself or a member
   of the same class / module, AND its linker was not created before a re-export moved it to another page --
   exactly when format_docstring hands taglink the page the docstring is rendered on *)
Definition same_page_source (r : registry) (i : nat) : Prop :=
  match docsource_of r i with Some s => linker_page_of r s = page_obj r i | None => True end.

(* the cross-reference entry e stands on the page of p, in the docstring rendered for i (p itself or a member of p) *)
Definition xref_from (quote : text -> text) (tbl : table) (r : registry) (e : entry) (p i : nat) : Prop :=
  In p (written tbl r) /\ (i = p \/ In i (methods_of tbl r p)) /\ e_page e = url quote r p /\
  e_ctx e = doc_ctx quote r (url quote r p) i /\ In (e_obj e) (xrefs_of r i).

(* producers whose entries list objects picked by iterating a collection (rows, items, index and search entries);
   the others (heading, sidebar title, base name, class signature, overrides) name objects found by resolution *)
Definition listing_prod (p : N) : bool :=
  existsb (N.eqb p) [P_sidebar_item; P_sidebar_inherited; P_main_table; P_pkginit; P_base_table; P_childlist; P_known_subclasses;
                     P_overridden_in; P_hierarchy; P_module_index; P_class_index; P_name_index; P_undocced;
                     P_index_roots; P_alldocs; P_corpus; P_inventory].
Definition root_prod (p : N) : bool := N.eqb p P_module_index || N.eqb p P_index_roots.

(* producers whose targets are picked from the contents of a written page object (member tables, the direct items of
   the sidebar at every expand depth), from system.rootobjects, or by recursion through contents: reachable by construction *)
Definition contents_prod (p : N) : bool :=
  existsb (N.eqb p) [P_sidebar_item; P_main_table; P_pkginit; P_module_index; P_index_roots; P_inventory].

(* producers whose href is not built by linker.taglink *)
Definition raw_prod (p : N) : bool := existsb (N.eqb p) [P_hierarchy; P_childlist; P_alldocs; P_corpus; P_inventory].

(* producers named by C12: member tables, member details, sidebar, module index, search documents *)
Definition marked_prod (p : N) : bool :=
  existsb (N.eqb p) [P_sidebar_item; P_sidebar_inherited; P_main_table; P_pkginit; P_base_table; P_childlist; P_module_index; P_alldocs].
