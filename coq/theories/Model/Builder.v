(* Model/Builder.v -- pydoctor/astbuilder.py : ModuleVistor restricted to the MiniPy statements, together with
   the parts of model.py it drives (System.addObject / handleDuplicate, Documentable.setDocstring, Class.find,
   defaultPostProcess: is_exception and _inherits_instance_variable_kind).  Definitions only (no proofs).

   What one scope (module or class body) looks like while it is being walked:
     contents : Documentable.contents, an insertion ordered dict  -> association list, first insertion order kept
     old      : the objects handleDuplicate renamed `name i`       -> list in order of renaming (i = rank among equal names)
     imps     : _localNameToFullName_map (imports and aliases)     -> name |-> impval
     cur      : ASTBuilder.currentAttr                             -> the name of that Attribute in the scope it lives in
   Enclosing scopes are passed down read-only (`outer`, innermost first) for name expansion of base classes.

   Tables regenerated from /repo: Gen/TablesC03.v.  `clean` stands for inspect.cleandoc (oracle). *)
From Coq Require Import ZArith NArith List Bool.
From PydoctorVerif Require Import Base.Sexp Model.MiniPy Model.Infer Gen.TablesC03.
Import ListNotations.

Inductive fkind := KFunction | KMethod | KClassMethod | KStaticMethod.
Inductive akind := KVariable | KClassVar | KInstanceVar | KConstant | KProperty.
Inductive summary := SNonAttr | SAttr (k : akind).
Inductive aval := AvLit (v : value) | AvOther.       (* Attribute.value: a literal expression / any other expression *)

Inductive obj : Type :=
| OFun (k : fkind) (async : bool) (doc : option text)
| OClass (exc : bool) (doc : option text) (contents old : list (name * obj)) (inh : list (name * summary))
| OAttr (k : akind) (doc : option text) (ann : option annot) (val : option aval).

Definition contents_t := list (name * obj).

(* _localNameToFullName_map: what an imported or aliased local name expands to, as far as the model tracks it *)
Inductive impval : Type :=
| IVExt (full : name)                                         (* an external (unbound / builtin) name *)
| IVLocal                                                     (* something of this package that is not tracked *)
| IVClass (exc : bool) (ih : list (name * summary))           (* a class of another module: is_exception, members (own + inherited) *)
| IVModule (classes : list (name * (bool * list (name * summary)))).   (* a module of the package and its classes *)
Definition imps_t := list (name * impval).

Record st := mkSt { contents : contents_t; old : contents_t; imps : imps_t; cur : option name }.
Definition empty_st : st := mkSt [] [] [] None.

Inductive scope := ScModule | ScClass.

(* ---- association lists ------------------------------------------------------------------------- *)
Fixpoint lookup {X} (n : name) (l : list (name * X)) : option X :=
  match l with
  | [] => None
  | (m, x) :: r => if text_eqb n m then Some x else lookup n r
  end.

Fixpoint replace {X} (n : name) (x : X) (l : list (name * X)) : list (name * X) :=
  match l with
  | [] => []
  | (m, y) :: r => if text_eqb n m then (m, x) :: r else (m, y) :: replace n x r
  end.

Definition keys {X} (l : list (name * X)) : list name := map fst l.

Definition set_cur (c : option name) (s : st) : st := mkSt (contents s) (old s) (imps s) c.
Definition set_contents (c : contents_t) (s : st) : st := mkSt c (old s) (imps s) (cur s).

(* System.addObject: parent.contents[name] = obj; a previous object of that name is renamed by handleDuplicate *)
Definition add_obj (n : name) (o : obj) (s : st) : st :=
  match lookup n (contents s) with
  | Some prev => mkSt (replace n o (contents s)) (old s ++ [(n, prev)]) (imps s) (cur s)
  | None => mkSt (contents s ++ [(n, o)]) (old s) (imps s) (cur s)
  end.

(* in-place mutation of an existing Attribute *)
Definition upd_attr (n : name) (f : akind -> option text -> option annot -> option aval -> obj) (s : st) : st :=
  match lookup n (contents s) with
  | Some (OAttr k d a v) => set_contents (replace n (f k d a v) (contents s)) s
  | _ => s
  end.

Definition is_attr (o : obj) : bool := match o with OAttr _ _ _ _ => true | _ => false end.
Definition is_fun (o : obj) : bool := match o with OFun _ _ _ => true | _ => false end.

Definition summary_of (c : contents_t) : list (name * summary) :=
  map (fun p => (fst p, match snd p with OAttr k _ _ _ => SAttr k | _ => SNonAttr end)) c.

(* ---- small text predicates --------------------------------------------------------------------- *)
Fixpoint starts_with (p t : text) : bool :=
  match p, t with
  | [], _ => true
  | x :: p', y :: t' => N.eqb x y && starts_with p' t'
  | _ :: _, [] => false
  end.
Definition ends_with (suffix t : text) : bool := starts_with (rev suffix) (rev t).

(* str.isupper() on ASCII identifiers: at least one cased character and no lowercase one *)
Definition is_upper_c (c : N) : bool := N.leb 65 c && N.leb c 90.
Definition is_lower_c (c : N) : bool := N.leb 97 c && N.leb c 122.
Definition isupper (t : text) : bool := existsb is_upper_c t && negb (existsb is_lower_c t).

Definition dotted_join (l : list name) : name :=
  match l with
  | [] => []
  | x :: r => x ++ flat_map (fun y => t_dot :: y) r
  end.

Section WithClean.
  Variable clean : text -> text.       (* inspect.cleandoc *)

  Definition clean_doc (body : list stmt) : option text := option_map clean (docstring_of body).

  (* ---- Class.find / _maybeAttribute ------------------------------------------------------------- *)
  (* obj = cls.find(name); return obj is None or isinstance(obj, model.Attribute)
     find: first class in [cls] + allbases (depth first) whose contents has the name *)
  Definition maybe_attribute (inh : list (name * summary)) (c : contents_t) (n : name) : bool :=
    match lookup n c with
    | Some o => is_attr o
    | None => match lookup n inh with Some SNonAttr => false | _ => true end
    end.

  (* ---- _storeAttrValue / _handleConstant / _setAttributeAnnotation -------------------------------- *)
  Definition aval_of (r : rhs) : aval := match r with RLit v => AvLit v | _ => AvOther end.

  Definition store_value (old_v : option aval) (expr : option rhs) (aug : bool) : option aval :=
    match expr with
    | None => old_v
    | Some r => if aug then match old_v with Some _ => Some AvOther (* BinOp(old, op, new) *) | None => None end
                else Some (aval_of r)
    end.

  (* is_constant(obj, annotation, value): not overridden, has a value, not in a control-flow block, upper-case name
     (typing.Final annotations are outside the modelled annotations) *)
  Definition is_constant (n : name) (flow : bool) (old_v : option aval) (expr : option rhs) : bool :=
    match old_v, expr with
    | None, Some _ => negb flow && isupper n
    | _, _ => false
    end.

  Definition handle_constant (n : name) (flow : bool) (default : akind) (k : akind) (old_v : option aval) (expr : option rhs) : akind :=
    if is_constant n flow old_v expr then KConstant
    else match k with KConstant => default | _ => k end.

  Definition set_ann (old_a new_a : option annot) : option annot :=
    match new_a with Some _ => new_a | None => old_a end.

  (* ---- visit_Expr on a string constant: attribute docstring ---------------------------------------- *)
  Definition attach_doc (d : text) (s : st) : st :=
    match cur s with
    | Some n => set_cur None (upd_attr n (fun k _ a v => OAttr k (Some (clean d)) a v) s)
    | None => s
    end.

  (* ---- _handleInstanceVar (builder.current is a Function whose parent is the class being walked) --- *)
  Definition handle_instance_var (in_class : bool) (inh : list (name * summary)) (n : name)
             (ann : option annot) (expr : option rhs) (s : st) : st :=
    if negb in_class then s
    else if negb (maybe_attribute inh (contents s) n) then s
    else
      match lookup n (contents s) with
      | Some (OAttr KProperty _ _ _) => s       (* elif obj.kind is PROPERTY: return  (fix 76cecbe) *)
      | found =>
        let s1 := match found with
                  | Some _ => s
                  | None => add_obj n (OAttr KInstanceVar None None None) s      (* addAttribute(kind=None) *)
                  end in
        set_cur (Some n)
          (upd_attr n (fun _ d a v => OAttr KInstanceVar d (set_ann a ann) (store_value v expr false)) s1)
      end.

  (* _handleInstanceVar before fix 76cecbe (kept for C03_kinds_property_self_old_refuted) *)
  Definition handle_instance_var_old (in_class : bool) (inh : list (name * summary)) (n : name)
             (ann : option annot) (expr : option rhs) (s : st) : st :=
    if negb in_class then s
    else if negb (maybe_attribute inh (contents s) n) then s
    else
      let s1 := match lookup n (contents s) with
                | Some _ => s
                | None => add_obj n (OAttr KInstanceVar None None None) s
                end in
      set_cur (Some n)
        (upd_attr n (fun _ d a v => OAttr KInstanceVar d (set_ann a ann) (store_value v expr false)) s1).

  (* ---- walking a function body (ModuleVistor with builder.current a Function) ---------------------- *)
  Fixpoint fwalk_stmt (in_class : bool) (inh : list (name * summary)) (x : stmt) (s : st) {struct x} : st :=
    match x with
    | Def _ _ _ _ => s                        (* _handleFunctionDef: inner function -> SkipNode *)
    | Class _ _ _ _ => s                      (* visit_ClassDef: class in function -> SkipNode *)
    | Assign ts r =>
        fold_left (fun s t => match t with
                              | TSelf a => handle_instance_var in_class inh a None (Some r) s
                              | _ => s     (* a Name target in a function scope is not recorded *)
                              end) ts s
    | AnnAssign (TSelf a) ann r => handle_instance_var in_class inh a (Some (AName ann)) r s
    | AnnAssign _ _ _ => s
    | AugAssign _ _ => s
    | ExprStr d => attach_doc d s
    | If TMain _ _ => s                       (* visit_If: SkipNode *)
    | If _ body _ => fold_left (fun s y => fwalk_stmt in_class inh y s) body s
    | Try body _ _ _ => fold_left (fun s y => fwalk_stmt in_class inh y s) body s
    | With body => fold_left (fun s y => fwalk_stmt in_class inh y s) body s
    | For _ body _ => fold_left (fun s y => fwalk_stmt in_class inh y s) body s
    | While body _ => fold_left (fun s y => fwalk_stmt in_class inh y s) body s
    | Import _ => s                           (* not a CanContainImportsDocumentable: ignored *)
    | Other => s
    end.

  Definition fwalk_body (in_class : bool) (inh : list (name * summary)) (body : list stmt) (s : st) : st :=
    fold_left (fun s y => fwalk_stmt in_class inh y s) body s.

  (* ---- _handleFunctionDef: what the decorators say -------------------------------------------------- *)
  Record dflags := mkFlags { f_prop : bool; f_cm : bool; f_sm : bool; f_name : name }.

  Definition deco_dotted (d : deco) : list name := match d with DName l => l | DCall l => l end.

  Definition last_two (l : list name) : list name := rev (firstn 2 (rev l)).

  Definition deco_step (in_class : bool) (fl : dflags) (d : deco) : dflags :=
    let dn := deco_dotted d in
    match rev dn with
    | [] => fl                                                       (* node2dottedname gave None: continue *)
    | lst :: _ =>
      if negb in_class then fl else
      if ends_with t_property lst || ends_with t_Property lst then mkFlags true (f_cm fl) (f_sm fl) (f_name fl)
      else if match dn with [x] => text_eqb x t_classmethod | _ => false end then mkFlags (f_prop fl) true (f_sm fl) (f_name fl)
      else if match dn with [x] => text_eqb x t_staticmethod | _ => false end then mkFlags (f_prop fl) (f_cm fl) true (f_name fl)
      else if Nat.leb 2 (length dn) && (text_eqb lst t_setter || text_eqb lst t_deleter)
           then mkFlags (f_prop fl) (f_cm fl) (f_sm fl) (dotted_join (last_two dn))
      else fl
    end.

  Definition deco_flags (in_class : bool) (nm : name) (decos : list deco) : dflags :=
    fold_left (deco_step in_class) decos (mkFlags false false false nm).

  Definition fun_kind (sc : scope) (fl : dflags) : fkind :=
    match sc with
    | ScModule => KFunction
    | ScClass => if f_sm fl then (if f_cm fl then KMethod else KStaticMethod)
                 else if f_cm fl then KClassMethod else KMethod
    end.

  (* ---- name expansion of a base class (Documentable.expandName + System.objForFullName) ------------- *)
  (* the first scope, from the innermost outwards, whose contents or import map knows the name *)
  Inductive found := FObj (o : obj) | FImp (v : impval) | FExt (n : name).

  Fixpoint find_name (chain : list (contents_t * imps_t)) (b : name) : found :=
    match chain with
    | [] => FExt b
    | (c, im) :: rest =>
        match lookup b c with
        | Some o => FObj o
        | None => match lookup b im with
                  | Some v => FImp v
                  | None => find_name rest b
                  end
        end
    end.

  Inductive resolved := RClass (o : obj) | RImported (exc : bool) (ih : list (name * summary)) | RLocal | RExternal (full : name).

  (* a base class expression: a name, or module.Name for an imported module; longer dotted names and attribute access
     on local classes are not tracked (RLocal) *)
  Definition resolve (chain : list (contents_t * imps_t)) (b : list name) : resolved :=
    match b with
    | [x] =>
        match find_name chain x with
        | FObj (OClass e d cc oo ih) => RClass (OClass e d cc oo ih)
        | FObj _ => RLocal
        | FImp (IVClass e ih) => RImported e ih
        | FImp (IVExt n) => RExternal n
        | FImp _ => RLocal
        | FExt n => RExternal n
        end
    | [m; x] =>
        match find_name chain m with
        | FImp (IVModule cls) => match lookup x cls with Some (e, ih) => RImported e ih | None => RLocal end
        | FImp (IVExt n) => RExternal (n ++ t_dot :: x)
        | FExt n => RExternal (n ++ t_dot :: x)
        | _ => RLocal
        end
    | _ => RLocal
    end.

  (* is_exception, by the time defaultPostProcess runs, for bases resolved when the class statement was visited *)
  Definition base_exc (r : resolved) : bool :=
    match r with
    | RClass (OClass e _ _ _ _) => e
    | RClass _ => false
    | RImported e _ => e
    | RLocal => false
    | RExternal full => mem full std_lib_exceptions
    end.

  Definition base_inh (r : resolved) : list (name * summary) :=
    match r with
    | RClass (OClass _ _ c _ ih) => summary_of c ++ ih
    | RImported _ ih => ih
    | _ => []
    end.

  (* ---- _handleAliasing / _handleModuleVar / _handleClassVar / _handleOldSchoolMethodDecoration ------ *)
  (* what an alias target expands to, as far as the model tracks it *)
  Definition expand_alias (chain : list (contents_t * imps_t)) (y : name) : impval :=
    match find_name chain y with FExt n => IVExt n | FImp v => v | FObj _ => IVLocal end.

  Definition set_imp (n : name) (v : impval) (s : st) : st :=
    mkSt (contents s) (old s) ((n, v) :: imps s) (cur s).

  Definition summ_of_msum (m : msum) : summary :=
    match m with MNonAttr => SNonAttr | MAttr true => SAttr KInstanceVar | MAttr false => SAttr KClassVar end.
  Definition members_conv (ms : members_t) : list (name * summary) := map (fun p => (fst p, summ_of_msum (snd p))) ms.
  Definition impval_of (i : impinfo) : impval :=
    match i with
    | IOther => IVLocal
    | IClass e ms => IVClass e (members_conv ms)
    | IModule cls => IVModule (map (fun c => (fst c, (fst (snd c), members_conv (snd (snd c))))) cls)
    end.

  Definition handle_var (default : akind) (flow : bool) (n : name) (ann : option annot) (expr : option rhs)
             (aug : bool) (s : st) : st :=
    (* common tail of _handleModuleVar / _handleClassVar once the Attribute exists *)
    set_cur (if aug then None else Some n)
      (upd_attr n (fun k d a v => OAttr (handle_constant n flow default k v expr) d (set_ann a ann) (store_value v expr aug)) s).

  Definition handle_module_var (flow : bool) (n : name) (ann : option annot) (expr : option rhs) (aug : bool) (s : st) : st :=
    if mem n module_meta_vars then s else
    match lookup n (contents s) with
    | None => if aug then s else handle_var KVariable flow n ann expr aug (add_obj n (OAttr KVariable None None None) s)
    | Some o => if is_attr o then handle_var KVariable flow n ann expr aug s else s
    end.

  Definition handle_class_var (inh : list (name * summary)) (flow : bool) (n : name) (ann : option annot)
             (expr : option rhs) (aug : bool) (s : st) : st :=
    if negb (maybe_attribute inh (contents s) n) then s else
    match lookup n (contents s) with
    | None => if aug then s else handle_var KClassVar flow n ann expr aug (add_obj n (OAttr KClassVar None None None) s)
    | Some _ => handle_var KClassVar flow n ann expr aug s
    end.

  Definition oldschool (n : name) (expr : option rhs) (s : st) : option st :=
    match expr with
    | Some (RCall f [arg]) =>
        if text_eqb n arg && mem f oldschool_names then
          match lookup n (contents s) with
          | Some (OFun k a d) =>
              let k' := if text_eqb f t_staticmethod then KStaticMethod
                        else if text_eqb f t_classmethod then KClassMethod else k in
              Some (set_contents (replace n (OFun k' a d) (contents s)) s)
          | _ => None
          end
        else None
    | _ => None
    end.

  Definition aliasing (chain : list (contents_t * imps_t)) (n : name) (expr : option rhs) (s : st) : option st :=
    match lookup n (contents s) with
    | Some _ => None
    | None => match expr with
              | Some (RName y) => Some (set_imp n (expand_alias ((contents s, imps s) :: chain) y) s)
              | _ => None
              end
    end.

  (* _handleAssignment in a module or class scope *)
  Definition handle_assignment (sc : scope) (flow : bool) (inh : list (name * summary)) (chain : list (contents_t * imps_t))
             (t : target) (ann : option annot) (expr : option rhs) (aug : bool) (s : st) : st :=
    match t with
    | TName n =>
        match sc with
        | ScModule =>
            match aliasing chain n expr s with
            | Some s' => s'
            | None => handle_module_var flow n ann expr aug s
            end
        | ScClass =>
            match (if aug then None else oldschool n expr s) with
            | Some s' => s'
            | None => match aliasing chain n expr s with
                      | Some s' => s'
                      | None => handle_class_var inh flow n ann expr aug s
                      end
            end
        end
    | TTuple _ => s
    | TSelf _ => s            (* _handleInstanceVar: builder.current is not a Function *)
    end.

  (* _infer_attr_annotations on leaving a module or class *)
  Definition infer_value (v : aval) : option annot :=
    match v with AvLit l => annotation_for_value l | AvOther => None end.

  Definition infer_all (c : contents_t) : contents_t :=
    map (fun p => match snd p with
                  | OAttr k d None (Some v) => (fst p, OAttr k d (infer_value v) (Some v))
                  | _ => p
                  end) c.

  Definition walks_body : bool := text_eqb children_attr [98;111;100;121]%N.

  (* ---- the walk of a module or class body ------------------------------------------------------------ *)
  Fixpoint walk_stmt (x : stmt) (sc : scope) (flow : bool) (inh : list (name * summary))
           (outer : list (contents_t * imps_t)) (s : st) {struct x} : st :=
    let in_class := match sc with ScClass => true | ScModule => false end in
    match x with
    | Def nm decos async body =>
        let fl := deco_flags in_class nm decos in
        if f_prop fl then
          (* _handlePropertyDef: addAttribute, currentAttr reset at the end (fix fbfbc45), then SkipNode: no children, no departure *)
          set_cur None (add_obj nm (OAttr KProperty (clean_doc body) None None) s)
        else
          let s1 := set_cur None (add_obj (f_name fl) (OFun (fun_kind sc fl) async (clean_doc body)) s) in
          set_cur None (fwalk_body in_class inh body s1)
    | Class nm bases _ body =>        (* class decorators are kept as raw decorators: no effect on what is documented *)
        let chain := (contents s, imps s) :: outer in
        let rs := map (resolve chain) bases in
        let exc := existsb base_exc rs in
        let ih := flat_map base_inh rs in
        let doc := clean_doc body in
        let s1 := set_cur None (add_obj nm (OClass exc doc [] [] ih) s) in
        let inner := fold_left (fun st y => walk_stmt y ScClass flow ih ((contents s1, imps s1) :: outer) st) body empty_st in
        set_cur None
          (set_contents (replace nm (OClass exc doc (infer_all (contents inner)) (old inner) ih) (contents s1)) s1)
    | Assign ts r =>
        fold_left (fun s t =>
                     match t with
                     | TTuple ns => fold_left (fun s n => handle_assignment sc flow inh outer (TName n) None None false s) ns s
                     | _ => handle_assignment sc flow inh outer t None (Some r) false s
                     end) ts s
    | AnnAssign t ann r => handle_assignment sc flow inh outer t (Some (AName ann)) r false s
    | AugAssign t r => handle_assignment sc flow inh outer t None (Some r) true s
    | ExprStr d => attach_doc d s
    | If TMain _ _ => s
    | If _ body _ => fold_left (fun st y => walk_stmt y sc (flow || cf_if) inh outer st) body s
    | Try body _ _ _ => fold_left (fun st y => walk_stmt y sc (flow || cf_try) inh outer st) body s
    | With body => fold_left (fun st y => walk_stmt y sc (flow || cf_with) inh outer st) body s
    | For _ body _ => fold_left (fun st y => walk_stmt y sc (flow || cf_for) inh outer st) body s
    | While body _ => fold_left (fun st y => walk_stmt y sc (flow || cf_while) inh outer st) body s
    | Import ns => fold_left (fun s p => set_imp (fst p) (impval_of (snd p)) s) ns s
    | Other => s
    end.

  Definition walk_body (sc : scope) (flow : bool) (inh : list (name * summary))
             (outer : list (contents_t * imps_t)) (body : list stmt) (s : st) : st :=
    fold_left (fun st y => walk_stmt y sc flow inh outer st) body s.

  (* ---- defaultPostProcess: _inherits_instance_variable_kind ------------------------------------------- *)
  Definition inherits_ivar (inh : list (name * summary)) (n : name) : bool :=
    existsb (fun p => text_eqb (fst p) n && match snd p with SAttr KInstanceVar => true | _ => false end) inh.

  Fixpoint post_obj (inh : list (name * summary)) (n : name) (o : obj) : obj :=
    match o with
    | OAttr KClassVar d a v => if inherits_ivar inh n then OAttr KInstanceVar d a v else o
    | OClass e d c oo ih => OClass e d (map (fun p => (fst p, post_obj ih (fst p) (snd p))) c) oo ih
    | _ => o
    end.

  Definition post_contents (inh : list (name * summary)) (c : contents_t) : contents_t :=
    map (fun p => (fst p, post_obj inh (fst p) (snd p))) c.

  (* ---- a whole module: visit_Module ... depart_Module, then post-processing ---------------------------- *)
  Record module_doc := mkMod { m_doc : option text; m_contents : contents_t; m_old : contents_t }.

  Definition doc_walk_raw (prog : list stmt) : st := walk_body ScModule false [] [] prog empty_st.

  Definition doc_walk (prog : list stmt) : module_doc :=
    let s := doc_walk_raw prog in
    mkMod (clean_doc prog) (post_contents [] (infer_all (contents s))) (old s).
End WithClean.

(* ---- wire encoding of the result ------------------------------------------------------------------------
   obj    : (0 kind async doc) | (1 exc doc (entries) (old) (members: (name tag).. own then inherited)) | (2 kind doc ann)
   entry  : (name obj)        old : (name tag)  tag = 0 function 1 class 2 attribute   (in renaming order)
   doc    : () | (text)       ann : () | (annot)
   fkind  : 0 FUNCTION 1 METHOD 2 CLASS_METHOD 3 STATIC_METHOD
   akind  : 0 VARIABLE 1 CLASS_VARIABLE 2 INSTANCE_VARIABLE 3 CONSTANT 4 PROPERTY
   module : (doc (entries) (old))                                                                           *)
Definition fkind_Z (k : fkind) : Z := match k with KFunction => 0 | KMethod => 1 | KClassMethod => 2 | KStaticMethod => 3 end.
Definition akind_Z (k : akind) : Z :=
  match k with KVariable => 0 | KClassVar => 1 | KInstanceVar => 2 | KConstant => 3 | KProperty => 4 end.

Definition obj_tag (o : obj) : Z := match o with OFun _ _ _ => 0 | OClass _ _ _ _ _ => 1 | OAttr _ _ _ _ => 2 end.

Definition summary_Z (x : summary) : Z := match x with SNonAttr => 0 | SAttr KInstanceVar => 2 | SAttr _ => 1 end.

Definition old_sexp (l : contents_t) : sexp := L (map (fun p => L [of_text (fst p); A (obj_tag (snd p))]) l).

Fixpoint obj_sexp (o : obj) : sexp :=
  match o with
  | OFun k a d => L [A 0; A (fkind_Z k); of_bool a; of_option of_text d]
  | OClass e d c oo ih =>
      L [A 1; of_bool e; of_option of_text d; L (map (fun p => L [of_text (fst p); obj_sexp (snd p)]) c); old_sexp oo;
         L (map (fun p => L [of_text (fst p); A (summary_Z (snd p))]) (summary_of c ++ ih))]
  | OAttr k d a _ => L [A 2; A (akind_Z k); of_option of_text d; of_option annot_sexp a]
  end.

Definition contents_sexp (c : contents_t) : sexp := L (map (fun p => L [of_text (fst p); obj_sexp (snd p)]) c).

Definition module_sexp (m : module_doc) : sexp :=
  L [of_option of_text (m_doc m); contents_sexp (m_contents m); old_sexp (m_old m)].
