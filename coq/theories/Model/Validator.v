(* Model/Validator.v -- pydoctor/_configparser.py : ValidatorParser.parse.  Definitions only.

     known_config_keys = {config_key: action for action in parser._actions
                          for config_key in parser.get_possible_config_keys(action)}
     new_data = {}
     for key, value in data.items():
         action = known_config_keys.get(key)
         if not action: warnings.warn(f"No such config option: {key!r}")
         else:          new_data[key] = value
     return new_data

   The keys of every action come from the regenerated option table (o_keys). The inner parser's
   result `data` is the input; warnings are returned as the list of offending keys, in order. *)
From Coq Require Import ZArith NArith List Bool.
From PydoctorVerif Require Import Base.Sexp Model.OptTypes Model.IniValue.
Import ListNotations.

Definition known_keys (table : list opt) : list text := flat_map o_keys table.

Fixpoint validate_loop {V : Type} (known : list text) (data : list (text * V))
         (new_data : list (text * V)) (warns : list text) : list (text * V) * list text :=
  match data with
  | [] => (new_data, warns)
  | (key, value) :: rest =>
      if mem_text key known
      then validate_loop known rest (dict_set key value new_data) warns
      else validate_loop known rest new_data (warns ++ [key])
  end.

Definition validate {V : Type} (table : list opt) (data : list (text * V)) : list (text * V) * list text :=
  validate_loop (known_keys table) data [] [].
