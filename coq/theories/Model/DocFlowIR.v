(* Model/DocFlowIR.v -- a small deep-embedded statement language, large enough for the bodies of
     pydoctor/epydoc2stan.py : reportErrors / parse_docstring / ensure_parsed_docstring / safe_to_stan
   and its interpreter over the state, configuration and oracles of Model/DocFlow.v.
   Gen/DocFlowCode.v (written by harness/gen/gen_c08_code.py on every run, fail-closed) holds those bodies translated
   statement by statement from the CURRENT source; Proofs/DocFlowIRProofs.v proves that interpreting them IS the
   hand-written model (Model/DocFlow.v: report_errors, parse_docstring, ensure_parsed_docstring, safe_to_stan), for all
   inputs and all oracles.  Definitions only.

   Primitive (not translated; their modelled effect is the stated assumption):
     get_parser_by_name(docformat, obj)     a parser function for a known docformat name, ImportError otherwise
     <parser>(doc, errs)                    appends to errs, then returns a parsed docstring / raises ParseError / raises
                                            another Exception: the oracle `parser` of Model/DocFlow.v (base_parser)
     pydoctor.epydoc.markup.plaintext.parse_docstring(doc, errs)   = ParsedPlaintextDocstring(doc), appends nothing
     processtypes(parser)                   the wrapper modelled by DocFlow.processtypes_wrap
     _get_docformat(source)                 DocFlow.get_docformat
     model.get_docstring(obj)               DocFlow.get_docstring
     parsed_doc.to_stan(linker)             DocFlow.to_stan_p (None = raises some Exception)
     fallback(errs, parsed_doc, ctx)        DocFlow.run_fallback (the three fallbacks pydoctor passes)
     obj.report(...)                        one entry (who, section, error) appended to the report log
     get_to_stan_error(e), ParseError(f'{e.__class__.__name__}: {e}', 1)   the two errors pydoctor makes itself
     obj.system.msg(...)                    no effect on the modelled state (dropped; arguments must be effect-free)
   Normalisations done by the translator (each keeps the Python meaning): a call of a same-module helper is inlined
   (SInline); `return <call>` / `o.parsed_docstring = <call>` go through a fresh local; a helper whose body is one
   expression statement is substituted into a `for` body; message strings bound to locals are dropped.
   All objects share one System (obj.system.parse_errors is THE parse_errors of the state). *)
From Coq Require Import ZArith NArith List Bool.
From PydoctorVerif Require Import Base.Sexp Model.DocFlow.
Import ListNotations.
Local Open Scope N_scope.

Inductive exc : Type := XImport | XParse | XOther.                  (* ImportError | ParseError | any other Exception *)
Inductive ecls : Type := CImportError | CParseError | CException.   (* the classes an `except` / isinstance may name *)

Definition exc_matches (x : exc) (k : ecls) : bool :=
  match k, x with
  | CException, _ => true
  | CImportError, XImport => true
  | CParseError, XParse => true
  | _, _ => false
  end.

(* parser function values *)
Inductive pfun : Type :=
| PFNamed (f : N)            (* what get_parser_by_name(f, obj) returned *)
| PFPlain                    (* pydoctor.epydoc.markup.plaintext.parse_docstring *)
| PFWrapped (p : pfun).      (* processtypes(p) *)

Inductive value : Type :=
| VNone | VBool (b : bool) | VObj (o : oid) | VText (t : text) | VFmt (f : N) | VSec (s : N)
| VErrs (l : list perr) | VParsed (p : parsed) | VStan (s : stan) | VParser (p : pfun) | VExc (x : exc)
| VSet (sec : N)             (* obj.system.parse_errors[sec]: a reference to that set *)
| VName (o : oid)            (* obj.fullName() *)
| VFb (fb : fallback)
| VBad.

Definition var := N.

Inductive expr : Type :=
| EConst (v : value)
| EVar (x : var)
| ENot (e : expr) | EAnd (a b : expr) | EOr (a b : expr) | EIfExp (c a b : expr)
| EIsNone (e : expr) | EIsNotNone (e : expr)
| EFullName (e : expr)                   (* e.fullName() *)
| EIn (a s : expr)                       (* a in s, s a parse_errors set *)
| EParseErrors (sec : expr)              (* <obj>.system.parse_errors[sec] *)
| EGetDocformat (e : expr)               (* _get_docformat(e) *)
| EProcesstypes                          (* <obj>.system.options.processtypes *)
| EInFmts (e : expr) (l : list N)        (* e in ('google', 'numpy', ...): a tuple of docformat names *)
| EWrapTypes (e : expr)                  (* processtypes(e) *)
| EIsInstance (e : expr) (k : ecls)
| EParsedDocOf (e : expr)                (* e.parsed_docstring *)
| EParentOf (e : expr).                  (* e.parent *)

Inductive stmt : Type :=
| SSkip
| SSeq (a b : stmt)
| SAssign (x : var) (e : expr)
| SGetDocstring (x y : var) (e : expr)             (* x, y = model.get_docstring(e) *)
| SIf (e : expr) (a b : stmt)
| SAssert (e : expr)
| SReturn (e : expr)
| SGetParser (x : var) (e : expr)                  (* x = get_parser_by_name(e, obj) *)
| SCallParser (x : var) (p d : expr) (errs : var)  (* x = p(d, errs) *)
| SAppendExcError (errs : var)                     (* errs.append(ParseError(f'{e.__class__.__name__}: {e}', 1)) *)
| SToStan (x : var) (e : expr)                     (* x = e.to_stan(linker) *)
| SFallback (x : var) (f ctx : expr)               (* x = f(errs, parsed_doc, ctx) *)
| SSetAdd (s n : expr)                             (* s.add(n) *)
| SReportEach (o l sec : expr)                     (* for err in l: o.report('bad <sec>: ' + err.descr(), ..., section=sec) *)
| SSetParsedDoc (o e : expr)                       (* o.parsed_docstring = e *)
| SCall (f : N) (args : list expr)                 (* f(args) as a statement *)
| SAssignCall (x : var) (f : N) (args : list expr) (* x = f(args) *)
| SInline (x : var) (body : stmt)                  (* x = helper(...), the helper's body inlined: its locals are renamed
                                                      apart, a parameter bound to a caller's local IS that local (same
                                                      object), `return e` inside the body yields the value of the call *)
| STry (body : stmt) (hs : handlers)
with handlers : Type :=
| HNil
| HCons (k : ecls) (x : option var) (h : stmt) (rest : handlers).

(* functions of epydoc2stan that the translated bodies call *)
Definition F_REPORT_ERRORS : N := 0.
Definition F_PARSE_DOCSTRING : N := 1.

Definition env := var -> value.
Definition env0 : env := fun _ => VNone.
Definition setv (en : env) (x : var) (v : value) : env := fun y => if N.eqb x y then v else en y.

Definition truthy (v : value) : bool :=
  match v with
  | VNone | VBad => false
  | VBool b => b
  | VErrs [] => false
  | VText [] => false
  | _ => true
  end.
Definition is_none (v : value) : bool := match v with VNone => true | _ => false end.

Definition opt_value {X} (f : X -> value) (o : option X) : value := match o with Some x => f x | None => VNone end.

Inductive cres : Type := CRet (v : value) (st : state) | CRaise (x : exc) (st : state) | CStuck.

Inductive xres : Type :=
| XGo (st : state) (en : env)                  (* fell through *)
| XRet (v : value) (st : state) (en : env)     (* return *)
| XRaise (x : exc) (st : state) (en : env)     (* an exception propagates *)
| XStuck.                                      (* TypeError / AssertionError / not a call the model knows *)

Section Exec.
  Variable O : oracles.
  Variable c : config.
  Variable callee : N -> list value -> state -> cres.

  Fixpoint apply_pfun (p : pfun) : text -> pres :=
    match p with
    | PFNamed f => base_parser O f
    | PFPlain => fun doc => PRok (PPlain doc) []
    | PFWrapped q => processtypes_wrap O (apply_pfun q)
    end.

  Fixpoint eval (st : state) (en : env) (e : expr) : value :=
    match e with
    | EConst v => v
    | EVar x => en x
    | ENot a => VBool (negb (truthy (eval st en a)))
    | EAnd a b => let va := eval st en a in if truthy va then eval st en b else va
    | EOr a b => let va := eval st en a in if truthy va then va else eval st en b
    | EIfExp k a b => if truthy (eval st en k) then eval st en a else eval st en b
    | EIsNone a => VBool (is_none (eval st en a))
    | EIsNotNone a => VBool (negb (is_none (eval st en a)))
    | EFullName a => match eval st en a with VObj o => VName o | _ => VBad end
    | EIn a s => match eval st en a, eval st en s with
                 | VName o, VSet sec => VBool (mem_pe sec o (parse_errors st))
                 | _, _ => VBad
                 end
    | EParseErrors s => match eval st en s with VSec sec => VSet sec | _ => VBad end
    | EGetDocformat a => match eval st en a with VObj o => VFmt (get_docformat c o) | _ => VBad end
    | EProcesstypes => VBool (processtypes_on c)
    | EInFmts a l => match eval st en a with VFmt f => VBool (existsb (N.eqb f) l) | _ => VBad end
    | EWrapTypes a => match eval st en a with VParser p => VParser (PFWrapped p) | _ => VBad end
    | EIsInstance a k => match eval st en a with VExc x => VBool (exc_matches x k) | _ => VBad end
    | EParsedDocOf a => match eval st en a with VObj o => opt_value VParsed (pdoc st o) | _ => VBad end
    | EParentOf a => match eval st en a with VObj o => opt_value VObj (parent c o) | _ => VBad end
    end.

  Definition after_call (r : cres) (en : env) (x : option var) : xres :=
    match r with
    | CRet v st' => XGo st' (match x with Some y => setv en y v | None => en end)
    | CRaise e st' => XRaise e st' en
    | CStuck => XStuck
    end.

  Fixpoint exec (s : stmt) (st : state) (en : env) {struct s} : xres :=
    match s with
    | SSkip => XGo st en
    | SSeq a b => match exec a st en with XGo st1 en1 => exec b st1 en1 | r => r end
    | SAssign x e => XGo st (setv en x (eval st en e))
    | SGetDocstring x y e =>
      match eval st en e with
      | VObj o => let '(d, s) := get_docstring c o in
                  XGo st (setv (setv en x (opt_value VText d)) y (opt_value VObj s))
      | _ => XStuck
      end
    | SIf e a b => if truthy (eval st en e) then exec a st en else exec b st en
    | SAssert e => if truthy (eval st en e) then XGo st en else XStuck
    | SReturn e => XRet (eval st en e) st en
    | SGetParser x e =>
      match eval st en e with
      | VFmt f => if fmt_known f then XGo st (setv en x (VParser (PFNamed f))) else XRaise XImport st en
      | _ => XStuck
      end
    | SCallParser x p d ev =>
      match eval st en p, eval st en d, en ev with
      | VParser pf, VText doc, VErrs l =>
        match apply_pfun pf doc with
        | PRok pd es => XGo st (setv (setv en ev (VErrs (l ++ es))) x (VParsed pd))
        | PRpe es => XRaise XParse st (setv en ev (VErrs (l ++ es)))
        | PRexc es => XRaise XOther st (setv en ev (VErrs (l ++ es)))
        end
      | _, _, _ => XStuck
      end
    | SAppendExcError ev =>
      match en ev with VErrs l => XGo st (setv en ev (VErrs (l ++ [EParseExc]))) | _ => XStuck end
    | SToStan x e =>
      match eval st en e with
      | VParsed pd => match to_stan_p O pd with
                      | Some s => XGo st (setv en x (VStan s))
                      | None => XRaise XOther st en
                      end
      | _ => XStuck
      end
    | SFallback x f ctx =>
      match eval st en f, eval st en ctx with
      | VFb fb, VObj o => let '(s, st1) := run_fallback c fb o st in XGo st1 (setv en x (VStan s))
      | _, _ => XStuck
      end
    | SSetAdd s n =>
      match eval st en s, eval st en n with
      | VSet sec, VName o =>
        XGo (if mem_pe sec o (parse_errors st) then st
             else mkState ((sec, o) :: parse_errors st) (reports st) (pdoc st) (psum st)) en
      | _, _ => XStuck
      end
    | SReportEach o l sec =>
      match eval st en o, eval st en l, eval st en sec with
      | VObj who, VErrs errs, VSec s =>
        XGo (mkState (parse_errors st) (reports st ++ map (fun e => (who, s, e)) errs) (pdoc st) (psum st)) en
      | _, _, _ => XStuck
      end
    | SSetParsedDoc o e =>
      match eval st en o, eval st en e with
      | VObj ob, VParsed pd => XGo (set_pdoc st ob (Some pd)) en
      | VObj ob, VNone => XGo (set_pdoc st ob None) en
      | _, _ => XStuck
      end
    | SCall f args => after_call (callee f (map (eval st en) args) st) en None
    | SAssignCall x f args => after_call (callee f (map (eval st en) args) st) en (Some x)
    | SInline x body =>
      match exec body st en with
      | XGo st1 en1 => XGo st1 (setv en1 x VNone)          (* fell off the end of the helper: None *)
      | XRet v st1 en1 => XGo st1 (setv en1 x v)
      | r => r
      end
    | STry body hs =>
      match exec body st en with
      | XRaise x st1 en1 => exec_handlers hs x st1 en1
      | r => r
      end
    end
  with exec_handlers (hs : handlers) (x : exc) (st : state) (en : env) {struct hs} : xres :=
    match hs with
    | HNil => XRaise x st en
    | HCons k v h rest =>
      if exc_matches x k
      then exec h st (match v with Some y => setv en y (VExc x) | None => en end)
      else exec_handlers rest x st en
    end.

  Fixpoint bind_args (en : env) (i : N) (args : list value) : env :=
    match args with
    | [] => en
    | a :: rest => bind_args (setv en i a) (i + 1) rest
    end.

  (* call a translated function: parameters are the variables 0, 1, 2, ... *)
  Definition run_fn (body : stmt) (args : list value) (st : state) : cres :=
    match exec body st (bind_args env0 0 args) with
    | XGo st' _ => CRet VNone st'
    | XRet v st' _ => CRet v st'
    | XRaise x st' _ => CRaise x st'
    | XStuck => CStuck
    end.
End Exec.

Record code : Type := {
  c_report_errors : stmt;             (* reportErrors(obj, errs, section) *)
  c_parse_docstring : stmt;           (* parse_docstring(obj, doc, source, markup, section) *)
  c_ensure_parsed_docstring : stmt;   (* ensure_parsed_docstring(obj) *)
  c_safe_to_stan : stmt               (* safe_to_stan(parsed_doc, linker, ctx, fallback, report, section) *)
}.

Section Run.
  Variable C : code.
  Variable O : oracles.
  Variable c : config.

  Definition no_callee (_ : N) (_ : list value) (_ : state) : cres := CStuck.

  Definition run_report_errors : list value -> state -> cres :=
    run_fn O c no_callee (c_report_errors C).

  Definition callee_report (f : N) (args : list value) (st : state) : cres :=
    if N.eqb f F_REPORT_ERRORS then run_report_errors args st else CStuck.

  Definition run_parse_docstring : list value -> state -> cres :=
    run_fn O c callee_report (c_parse_docstring C).

  Definition callee_parse (f : N) (args : list value) (st : state) : cres :=
    if N.eqb f F_PARSE_DOCSTRING then run_parse_docstring args st else callee_report f args st.

  Definition run_ensure_parsed_docstring : list value -> state -> cres :=
    run_fn O c callee_parse (c_ensure_parsed_docstring C).

  Definition run_safe_to_stan : list value -> state -> cres :=
    run_fn O c callee_report (c_safe_to_stan C).
End Run.
