(* Model/IniValue.v -- pydoctor/_configparser.py : IniConfigParser.parse.  Definitions only.

   The input is configparser's view of the file (sections in file order, each with its (key, value)
   pairs as `config[section].items()` yields them: keys lower-cased, values stripped, continuation
   lines joined with LF): configparser itself is an oracle (DESIGN.md 5.C20 residual).

   per value, in the order of the Python tests:
     not value and split_ml_text_to_list          -> skipped
     value.startswith('[') and value.endswith(']') -> literal_eval; list of str(i); any exception -> config error
     is_quoted(value)                              -> unquote_str(value); ValueError -> config error
     split_ml_text_to_list and '\n' in value.rstrip('\n') -> [i for i in value.split('\n') if i]
     else                                          -> value *)
From Coq Require Import ZArith NArith List Bool.
From PydoctorVerif Require Import Base.Sexp Model.OptTypes Model.Quote Spec.PyStrLit Spec.PyListLit.
Import ListNotations.
Local Open Scope N_scope.

Inductive ini_res : Type :=
| ISkip
| IVal (v : cval)
| IConfigError
| IUnsup.

Definition starts_with (c : N) (s : text) : bool :=
  match s with x :: _ => x =? c | [] => false end.

Fixpoint ends_with (c : N) (s : text) : bool :=
  match s with
  | [] => false
  | [x] => x =? c
  | _ :: r => ends_with c r
  end.

(* str.rstrip('\n') *)
Fixpoint rstrip_nl (s : text) : text :=
  match s with
  | [] => []
  | c :: r => match rstrip_nl r with
              | [] => if c =? 10 then [] else [c]
              | r' => c :: r'
              end
  end.

(* str.split('\n') *)
Fixpoint split_nl (s : text) : list text :=
  match s with
  | [] => [[]]
  | c :: r =>
      match split_nl r with
      | [] => [[c]]                                      (* unreachable: split_nl is never empty *)
      | l :: ls => if c =? 10 then [] :: l :: ls else (c :: l) :: ls
      end
  end.

Definition nonempty (t : text) : bool := match t with [] => false | _ => true end.

Definition ini_value (split : bool) (v : text) : ini_res :=
  if negb (nonempty v) && split then ISkip
  else if starts_with 91 v && ends_with 93 v then
    match py_list_literal_eval v with
    | LsOk l => IVal (VList l)
    | LsErr => IConfigError
    | LsUnsup => IUnsup
    end
  else if is_quoted v true then
    match unquote_str v true with
    | UOk t => IVal (VStr t)
    | UValueError => IConfigError
    | UUnsup => IUnsup
    end
  else if split && existsb (N.eqb 10) (rstrip_nl v) then IVal (VList (filter nonempty (split_nl v)))
  else IVal (VStr v).

(* Python dict assignment d[k] = v on an insertion-ordered dict *)
Fixpoint dict_set {V : Type} (k : text) (v : V) (d : list (text * V)) : list (text * V) :=
  match d with
  | [] => [(k, v)]
  | (k', v') :: r => if text_eqb k k' then (k, v) :: r else (k', v') :: dict_set k v r
  end.

Inductive pres : Type :=
| POk (d : list (text * cval))
| PError                    (* ConfigFileParserException (or any exception: the composite parser treats them alike) *)
| PUnsup.

Fixpoint ini_items (split : bool) (items : list (text * text)) (acc : list (text * cval)) : pres :=
  match items with
  | [] => POk acc
  | (k, v) :: r =>
      match ini_value split v with
      | ISkip => ini_items split r acc
      | IVal x => ini_items split r (dict_set k x acc)
      | IConfigError => PError
      | IUnsup => PUnsup
      end
  end.

(* for section in config.sections() + [DEFAULTSECT]: if section not in self.sections: continue ... *)
Fixpoint ini_sections (sections : list text) (split : bool) (secs : list (text * list (text * text)))
         (acc : list (text * cval)) : pres :=
  match secs with
  | [] => POk acc
  | (name, items) :: r =>
      if mem_text name sections then
        match ini_items split items acc with
        | POk acc' => ini_sections sections split r acc'
        | e => e
        end
      else ini_sections sections split r acc
  end.

Definition ini_parse (sections : list text) (split : bool) (secs : list (text * list (text * text))) : pres :=
  ini_sections sections split secs [].
