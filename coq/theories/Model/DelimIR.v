(* Model/DelimIR.v -- a small deep-embedded expression/statement language, large enough for the body of
   pydoctor/epydoc/markup/_pyval_repr.py : _OperatorDelimiter.__init__ (the decision to put parentheses around an
   operator) and the helper functions it calls, and its interpreter.  Gen/DelimCode.v (written by
   harness/gen/gen_c15_code.py on every run, fail-closed) holds that body translated statement by statement from the
   CURRENT source, same-project helpers inlined; Proofs/DelimIRProofs.v proves that interpreting it is
   Model/ExprPrint.needs_paren, for every operator and every parent situation.  Definitions only.

   What is primitive (each a stated assumption about the library / the rest of pydoctor):
     next(get_parents(node)) [, None]        the node's .parent as set by astutils.Parentage: StopIteration / None when the
                                             node has no parent
     isinstance(x, C)                        the class hierarchy of the ast module: UnaryOp, BinOp, BoolOp are expr; keyword
                                             and comprehension are not; operator classes are leaves
     astor.op_util.get_op_precedence(x.op)   the regenerated table Gen/TablesC15 (ExprPrint.prec)
     colorizer.explicit_precedence.get(node, d)   only children of non-operator parents ever have an entry (_set_precedence is
                                             called for dict values only)
     x.op, x.left, x.right                   attribute access; AttributeError (no such field) is the outcome Stuck
   Stored-and-never-read assignments of __init__ (self.colorizer = colorizer, self.state = state, self.marked =
   state.mark()) are dropped by the translator. *)
From Coq Require Import ZArith NArith List Bool.
From PydoctorVerif Require Import Base.Sexp Base.PyExpr Gen.TablesC15 Model.StrEsc Model.Wrap Spec.PyGrammar Spec.PyTokenizer
     Model.ExprPrint.
Import ListNotations.
Local Open Scope N_scope.

(* ---- the situation the constructor is called in ---- *)
Inductive other_cls := OExpr | OKeyword | OComprehension.

Inductive pkind :=
| PKNotExpr                                   (* a parent that is neither expr, keyword nor comprehension (Assign, arguments, ...) *)
| PKUnary (u : unop)
| PKBin (b : binop) (is_right : bool)         (* node is parent.right / parent.left *)
| PKBool (o : boolop)
| PKOther (c : other_cls) (explicit : option N).   (* any other expression parent; explicit_precedence.get(node) *)

Definition situation := option pkind.         (* None: no parent *)

Definition pctx_of (s : situation) : pctx :=
  match s with
  | None | Some PKNotExpr => PNone
  | Some (PKUnary u) => PUnary u
  | Some (PKBin b r) => if r then PBinR b else PBinL b
  | Some (PKBool o) => PBool o
  | Some (PKOther _ ex) => POther ex
  end.

(* ---- values ---- *)
Inductive objref := RNode | RParent | RNodeOp | RParentOp | RParentLeft | RParentRight.
Inductive value := VInt (n : N) | VBool (b : bool) | VNone | VObj (r : objref).

(* classes isinstance is asked about *)
Inductive pycls := CExpr | CKeyword | CComprehension | CUnaryOp | CBinOp | CBoolOp | COp (o : opk) | CAST.

Inductive field := FOp | FLeft | FRight.

Definition var := N.

Inductive expr :=
| XConst (v : value)
| XVar (x : var)
| XNode                                        (* the parameter `node` *)
| XNextParent                                  (* next(get_parents(node)) *)
| XParentOrNone                                (* next(get_parents(node), None) *)
| XAttr (e : expr) (f : field)
| XIsInstance (e : expr) (cs : list pycls)
| XPrec (e : expr)                             (* astor.op_util.get_op_precedence(e) *)
| XExplicitGet (d : expr)                      (* <colorizer>.explicit_precedence.get(node, d) *)
| XLt (a b : expr) | XLe (a b : expr) | XEq (a b : expr)
| XIs (a b : expr)
| XNot (a : expr) | XAnd (a b : expr) | XOr (a b : expr)      (* on boolean operands *)
| XAdd (a b : expr)
| XCall (body : stmt)                          (* an inlined same-project function: the value it returns *)
with stmt :=
| SSkip
| SSeq (a b : stmt)
| SAssign (x : var) (e : expr)
| SSetDiscard (e : expr)                       (* self.discard = e *)
| SIf (c : expr) (th el : stmt)
| SReturn (e : option expr)
| STryStop (body handler : stmt)               (* try: body  except StopIteration: handler *)
| SExpr (e : expr).

Definition env := var -> value.
Definition env0 : env := fun _ => VNone.
Definition set (e : env) (x : var) (v : value) : env := fun y => if N.eqb x y then v else e y.

Inductive res := ROk (v : value) | RStop | RStuck.
Inductive outcome := ONormal | OReturn (v : value) | ORaiseStop | OStuck.

Definition truthy (v : value) : bool :=
  match v with VBool b => b | VNone => false | VInt n => negb (N.eqb n 0) | VObj _ => true end.

Definition objref_eqb (a b : objref) : bool :=
  match a, b with
  | RNode, RNode | RParent, RParent | RNodeOp, RNodeOp | RParentOp, RParentOp
  | RParentLeft, RParentLeft | RParentRight, RParentRight => true
  | _, _ => false
  end.

Definition opk_eqb (a b : opk) : bool :=
  match a, b with
  | OU x, OU y => N.eqb (unop_idx x) (unop_idx y)
  | OB x, OB y => N.eqb (binop_idx x) (binop_idx y)
  | OO x, OO y => N.eqb (boolop_idx x) (boolop_idx y)
  | _, _ => false
  end.

Section Sem.
  Variable o : opk.            (* node.op *)
  Variable sit : situation.

  Definition parent_op : option opk :=
    match sit with
    | Some (PKUnary u) => Some (OU u)
    | Some (PKBin b _) => Some (OB b)
    | Some (PKBool b) => Some (OO b)
    | _ => None
    end.

  (* `a is b` on the objects in play: node is parent.right / parent.left as the situation says *)
  Definition is_same (a b : value) : res :=
    match a, b with
    | VNone, VNone => ROk (VBool true)
    | VObj x, VObj y =>
      match sit with
      | Some (PKBin _ r) =>
        match x, y with
        | RNode, RParentRight | RParentRight, RNode => ROk (VBool r)
        | RNode, RParentLeft | RParentLeft, RNode => ROk (VBool (negb r))
        | _, _ => ROk (VBool (objref_eqb x y))
        end
      | _ => ROk (VBool (objref_eqb x y))
      end
    | VBool x, VBool y => ROk (VBool (Bool.eqb x y))
    | VNone, _ | _, VNone => ROk (VBool false)
    | _, _ => RStuck                                   (* identity of ints: not given a meaning *)
    end.

  Definition class_matches (v : value) (c : pycls) : bool :=
    match v with
    | VObj RNode =>
      match c, o with
      | CAST, _ | CExpr, _ => true
      | CUnaryOp, OU _ | CBinOp, OB _ | CBoolOp, OO _ => true
      | _, _ => false
      end
    | VObj RParent =>
      match c, sit with
      | CAST, Some _ => true
      | CExpr, Some (PKUnary _) | CExpr, Some (PKBin _ _) | CExpr, Some (PKBool _) | CExpr, Some (PKOther OExpr _) => true
      | CKeyword, Some (PKOther OKeyword _) => true
      | CComprehension, Some (PKOther OComprehension _) => true
      | CUnaryOp, Some (PKUnary _) | CBinOp, Some (PKBin _ _) | CBoolOp, Some (PKBool _) => true
      | _, _ => false
      end
    | VObj RNodeOp => match c with COp o' => opk_eqb o o' | CAST => true | _ => false end
    | VObj RParentOp =>
      match c, parent_op with
      | COp o', Some po => opk_eqb po o'
      | CAST, Some _ => true
      | _, _ => false
      end
    | _ => false
    end.

  Definition get_attr (v : value) (f : field) : res :=
    match v, f with
    | VObj RNode, FOp => ROk (VObj RNodeOp)
    | VObj RParent, FOp => match parent_op with Some _ => ROk (VObj RParentOp) | None => RStuck end
    | VObj RParent, FLeft => match sit with Some (PKBin _ _) => ROk (VObj RParentLeft) | _ => RStuck end
    | VObj RParent, FRight => match sit with Some (PKBin _ _) => ROk (VObj RParentRight) | _ => RStuck end
    | _, _ => RStuck
    end.

  Definition prec_of (v : value) : res :=
    match v with
    | VObj RNodeOp => ROk (VInt (prec o))
    | VObj RParentOp => match parent_op with Some po => ROk (VInt (prec po)) | None => RStuck end
    | _ => RStuck
    end.

  Definition int2 (f : N -> N -> value) (a b : value) : res :=
    match a, b with VInt x, VInt y => ROk (f x y) | _, _ => RStuck end.

  Definition bool1 (v : value) : option bool := match v with VBool b => Some b | _ => None end.

  (* binary forms: evaluate a, then b (left to right), then combine *)
  Definition bind2 (ra : res) (rb : unit -> res) (k : value -> value -> res) : res :=
    match ra with
    | ROk va => match rb tt with ROk vb => k va vb | r => r end
    | r => r
    end.

  Fixpoint eval (x : expr) (e : env) {struct x} : res :=
    match x with
    | XConst v => ROk v
    | XVar y => ROk (e y)
    | XNode => ROk (VObj RNode)
    | XNextParent => match sit with Some _ => ROk (VObj RParent) | None => RStop end
    | XParentOrNone => match sit with Some _ => ROk (VObj RParent) | None => ROk VNone end
    | XAttr a f => match eval a e with ROk v => get_attr v f | r => r end
    | XIsInstance a cs => match eval a e with ROk v => ROk (VBool (existsb (class_matches v) cs)) | r => r end
    | XPrec a => match eval a e with ROk v => prec_of v | r => r end
    | XExplicitGet d =>
      match eval d e with
      | ROk dv => match sit with Some (PKOther _ (Some p)) => ROk (VInt p) | _ => ROk dv end
      | r => r
      end
    | XLt a b => bind2 (eval a e) (fun _ => eval b e) (int2 (fun x y => VBool (N.ltb x y)))
    | XLe a b => bind2 (eval a e) (fun _ => eval b e) (int2 (fun x y => VBool (N.leb x y)))
    | XEq a b => bind2 (eval a e) (fun _ => eval b e) (int2 (fun x y => VBool (N.eqb x y)))
    | XIs a b => bind2 (eval a e) (fun _ => eval b e) is_same
    | XNot a => match eval a e with ROk v => ROk (VBool (negb (truthy v))) | r => r end
    | XAnd a b =>
      match eval a e with
      | ROk va => match bool1 va with
                  | Some true => match eval b e with ROk vb => match bool1 vb with Some _ => ROk vb | None => RStuck end | r => r end
                  | Some false => ROk (VBool false)
                  | None => RStuck
                  end
      | r => r
      end
    | XOr a b =>
      match eval a e with
      | ROk va => match bool1 va with
                  | Some true => ROk (VBool true)
                  | Some false => match eval b e with ROk vb => match bool1 vb with Some _ => ROk vb | None => RStuck end | r => r end
                  | None => RStuck
                  end
      | r => r
      end
    | XAdd a b => bind2 (eval a e) (fun _ => eval b e) (int2 (fun x y => VInt (x + y)))
    | XCall body =>
      (* the callee runs on the caller's variables (the translator gives it fresh ones); it cannot touch self.discard *)
      match exec body e None with
      | (_, _, ONormal) => ROk VNone
      | (_, _, OReturn v) => ROk v
      | (_, _, ORaiseStop) => RStop
      | (_, _, OStuck) => RStuck
      end
    end
  with exec (s : stmt) (e : env) (d : option bool) {struct s} : env * option bool * outcome :=
    match s with
    | SSkip => (e, d, ONormal)
    | SSeq a b =>
      match exec a e d with
      | (e1, d1, ONormal) => exec b e1 d1
      | r => r
      end
    | SAssign x a =>
      match eval a e with
      | ROk v => (set e x v, d, ONormal)
      | RStop => (e, d, ORaiseStop)
      | RStuck => (e, d, OStuck)
      end
    | SSetDiscard a =>
      match eval a e with
      | ROk (VBool b) => (e, Some b, ONormal)
      | ROk _ => (e, d, OStuck)
      | RStop => (e, d, ORaiseStop)
      | RStuck => (e, d, OStuck)
      end
    | SIf c th el =>
      match eval c e with
      | ROk v => if truthy v then exec th e d else exec el e d
      | RStop => (e, d, ORaiseStop)
      | RStuck => (e, d, OStuck)
      end
    | SReturn None => (e, d, OReturn VNone)
    | SReturn (Some a) =>
      match eval a e with
      | ROk v => (e, d, OReturn v)
      | RStop => (e, d, ORaiseStop)
      | RStuck => (e, d, OStuck)
      end
    | STryStop body h =>
      match exec body e d with
      | (e1, d1, ORaiseStop) => exec h e1 d1
      | r => r
      end
    | SExpr a =>
      match eval a e with
      | ROk _ => (e, d, ONormal)
      | RStop => (e, d, ORaiseStop)
      | RStuck => (e, d, OStuck)
      end
    end.

  (* _OperatorDelimiter.__init__: the value of self.discard once the constructor has returned (None: it raised, got
     stuck, or never assigned it) *)
  Definition init_discard (body : stmt) : option bool :=
    match exec body env0 None with
    | (_, d, ONormal) | (_, d, OReturn VNone) => d
    | _ => None
    end.
End Sem.

(* ---- the dispatch of PyvalColorizer._colorize_ast: the node classes it tells apart ---- *)
Inductive nodecls := NCConstant | NCUnaryOp | NCBinOp | NCBoolOp | NCList | NCTuple | NCSet | NCDict | NCName
                   | NCAttribute | NCSubscript | NCCall | NCStarred | NCOther.

Definition nodecls_of (e : PyExpr.expr) : nodecls :=
  match e with
  | ELeaf (LConst _) => NCConstant
  | ELeaf (LGen _) => NCOther
  | EName _ => NCName
  | EAttr _ _ _ => NCAttribute
  | EUn _ _ => NCUnaryOp
  | EBin _ _ _ => NCBinOp
  | EBool _ _ => NCBoolOp
  | ETuple _ => NCTuple
  | EList _ => NCList
  | ESet _ => NCSet
  | EDict _ => NCDict
  | ESub _ _ => NCSubscript
  | ECall _ _ _ => NCCall
  | EStarred _ => NCStarred
  end.

(* the model displays exactly the three operator forms under the delimiter *)
Definition is_delim (c : cmd) : bool := match c with CDelim _ _ => true | _ => false end.
