(* Model/Implements.v -- the interface back-references of pydoctor/extensions/zopeinterface.py:
     postProcess(system):  for mod in objectsOfType(ZopeInterfaceModule): _handle_implemented(mod)
                           for cls in objectsOfType(ZopeInterfaceClass):  _handle_implemented(cls)
     _handle_implemented(implementer):
        for idx, iface_name in enumerate(implementer.implements_directly):
            iface = system.find_object(iface_name)            (LookupError: report, continue)
            if isinstance(iface, ZopeInterfaceClass):
                if iface.isinterface:
                    if implementer not in iface.implementedby_directly:
                        iface.implementedby_directly.append(implementer)
                else: report
            elif iface is not None: report
   Definitions only.  Objects are ids; what find_object answers for the k-th name of an implementer is an input
   (`targets x`: None = not found / external / not a class): name resolution is C04/C07's subject. *)
From Coq Require Import ZArith NArith List Bool.
From PydoctorVerif Require Import Base.Sexp.
Import ListNotations.
Local Open Scope N_scope.

Definition iid := N.
Record zsys := mkZ {
  targets : iid -> list (option iid);     (* implements_directly, resolved *)
  isiface : iid -> bool                   (* ZopeInterfaceClass.isinterface *)
}.
Definition byfun := iid -> list iid.      (* implementedby_directly *)

Definition zmem (x : iid) (l : list iid) : bool := existsb (N.eqb x) l.
Definition zupd (f : byfun) (k : iid) (v : list iid) : byfun := fun y => if N.eqb y k then v else f y.

Definition handle_one (z : zsys) (x : iid) (b : byfun) (t : option iid) : byfun :=
  match t with
  | None => b
  | Some i => if isiface z i then (if zmem x (b i) then b else zupd b i (b i ++ [x])) else b
  end.
Definition handle_implemented (z : zsys) (b : byfun) (x : iid) : byfun :=
  fold_left (handle_one z x) (targets z x) b.
(* implementers: the modules, then the classes, in allobjects order *)
Definition zpost (z : zsys) (implementers : list iid) (b : byfun) : byfun :=
  fold_left (handle_implemented z) implementers b.

(* ---- wire ----
   input  := ( n ( ( isiface ( target? ... ) ) ... for id 0..n-1 ) ( implementer ... ) )
   output := ( ( implementedby of id 0 ) ... ( of id n-1 ) ) *)
Definition nth_obj (l : list sexp) (x : iid) : sexp := nth (N.to_nat x) l (L []).
Fixpoint ids_upto (n : nat) : list iid := match n with O => [] | S m => ids_upto m ++ [N.of_nat m] end.
Definition run (s : sexp) : sexp :=
  let objs := to_list (nth_s 1 s) in
  let z := mkZ (fun x => map (to_option to_N) (to_list (nth_s 1 (nth_obj objs x))))
               (fun x => to_bool (nth_s 0 (nth_obj objs x))) in
  let b := zpost z (map to_N (to_list (nth_s 2 s))) (fun _ => []) in
  L (map (fun x => L (map of_N (b x))) (ids_upto (to_nat (nth_s 0 s)))).
