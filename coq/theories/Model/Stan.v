(* Model/Stan.v -- twisted.web._flatten as pydoctor uses it (stanutils.flatten, writer.flattenToFile):
   _flattenElement on str / Tag / list, escapeForContent, writeWithAttributeEscaping.
   Definitions only.

   Text is a list of code points. twisted escapes the UTF-8 bytes; every pattern of the replace chains
   (Gen/TablesC10.v) is a single ASCII byte and UTF-8 never uses ASCII bytes inside a multi-byte
   sequence, so the replacement on code points is the same function. Strings that cannot be
   encoded (lone surrogates; non-ASCII tag or attribute names) make the real flatten raise:
   `encodable` says when it does not.

   Stan trees: a Tag has a name (the empty name is the transparent tag t:transparent / html2stan's
   root), attributes with string values in dict order, and children. Comment, CDATA, CharRef, slot and
   render directives only occur as template constants and are not modelled. *)
From Coq Require Import ZArith NArith List Bool.
From PydoctorVerif Require Import Base.Sexp Gen.TablesC10.
Import ListNotations.
Local Open Scope N_scope.

Inductive stan : Type :=
| SText (t : text)
| STag (name : text) (attrs : list (text * text)) (kids : list stan).

(* bytes.replace(a, r) with a one-byte pattern a *)
Definition replace1 (a : N) (r : text) (s : text) : text :=
  flat_map (fun c => if c =? a then r else [c]) s.

(* data.replace(a1, r1).replace(a2, r2)... *)
Definition replace_chain (tbl : list (N * text)) (s : text) : text :=
  fold_left (fun acc p => replace1 (fst p) (snd p) acc) tbl s.

(* escapeForContent *)
Definition escape_content (t : text) : text := replace_chain content_escapes t.

(* a str directly inside an attribute: attributeEscapingDoneOutside passes it through, the write wrapper
   of writeWithAttributeEscaping does  escapeForContent(data).replace(...)  *)
Definition escape_attr (t : text) : text := replace_chain attr_extra_escapes (escape_content t).

Fixpoint text_eq (a b : text) : bool :=
  match a, b with
  | [], [] => true
  | x :: a', y :: b' => (x =? y) && text_eq a' b'
  | _, _ => false
  end.

Definition mem_text (n : text) (l : list text) : bool := existsb (text_eq n) l.

Definition is_nil {X} (l : list X) : bool := match l with [] => true | _ => false end.

Definition flatten_attr (kv : text * text) : text :=
  [32] ++ fst kv ++ [61; 34] ++ escape_attr (snd kv) ++ [34].

(* _flattenElement: str -> write(dataEscaper(root)); Tag -> ...; list -> each element *)
Fixpoint flatten (s : stan) : text :=
  match s with
  | SText t => escape_content t
  | STag name attrs kids =>
    let inner := flat_map flatten kids in
    match name with
    | [] => inner                                            (* if not root.tagName: children only *)
    | _ :: _ =>
      [60] ++ name ++ flat_map flatten_attr attrs ++
      (if negb (is_nil kids) || negb (mem_text name void_elements)
       then [62] ++ inner ++ [60; 47] ++ name ++ [62]
       else [32; 47; 62])
    end
  end.

Definition flatten_list (l : list stan) : text := flat_map flatten l.

(* str.encode('utf-8') / name.encode('ascii') succeed *)
Definition is_surrogate (c : N) : bool := (55296 <=? c) && (c <=? 57343).
Definition utf8_ok (t : text) : bool := forallb (fun c => negb (is_surrogate c) && (c <=? 1114111)) t.
Definition ascii_ok (t : text) : bool := forallb (fun c => c <? 128) t.

Fixpoint encodable (s : stan) : bool :=
  match s with
  | SText t => utf8_ok t
  | STag name attrs kids =>
    match name with
    | [] => forallb encodable kids
    | _ :: _ =>
      ascii_ok name && forallb (fun kv => ascii_ok (fst kv) && utf8_ok (snd kv)) attrs && forallb encodable kids
    end
  end.

(* stanutils.flatten: the flattened text, or None when flattenString fails with an encoding error *)
Definition flatten_outcome (s : stan) : option text :=
  if encodable s then Some (flatten s) else None.

(* ---- wire: stan := (0 text) | (1 name ((k v) ...) (kid ...)) ------------------------------- *)
Fixpoint stan_of_sexp (fuel : nat) (s : sexp) : stan :=
  match fuel with
  | O => SText []
  | S f =>
    match to_Z (nth_s 0 s) with
    | 0%Z => SText (to_text (nth_s 1 s))
    | _ => STag (to_text (nth_s 1 s))
                (map (fun kv => (to_text (nth_s 0 kv), to_text (nth_s 1 kv))) (to_list (nth_s 2 s)))
                (map (stan_of_sexp f) (to_list (nth_s 3 s)))
    end
  end.

Fixpoint sexp_depth (s : sexp) : nat :=
  match s with A _ => 1%nat | L l => S (fold_right (fun x acc => Nat.max (sexp_depth x) acc) 0%nat l) end.

Definition stan_in (s : sexp) : stan := stan_of_sexp (sexp_depth s) s.

Fixpoint stan_sexp (s : stan) : sexp :=
  match s with
  | SText t => L [A 0%Z; of_text t]
  | STag n a kids =>
    L [A 1%Z; of_text n; L (map (fun kv => L [of_text (fst kv); of_text (snd kv)]) a); L (map stan_sexp kids)]
  end.
