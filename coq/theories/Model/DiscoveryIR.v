(* Model/DiscoveryIR.v -- two small deep-embedded statement languages, large enough for the bodies of
     pydoctor/model.py : System.addPackage, System.addModuleFromPath          (language D: module discovery)
                         System._addUnprocessedModule, System._handleDuplicateModule   (language R: the module registry)
   and their interpreters over the data of Model/Determinism.v.  Gen/DiscoveryCode.v (written by
   harness/gen/gen_c18_code.py on every run, fail-closed) holds the bodies translated statement by statement from the
   CURRENT source; Proofs/DiscoveryIRProofs.v proves that interpreting them is add_package / add_module_from_path /
   reg_add of Model/Determinism.v (the functions C18_fs_order_free and C18_run_deterministic are about).
   Definitions only.

   Primitive (not translated; their modelled meaning is the stated assumption):
     self.analyzeModule(path, name, parent, is_package)   creates the module object and calls _addUnprocessedModule on it:
                                          in language D it is the EVENT EvModule parent name is_package (the registry consumes it)
     package_path.iterdir()               some permutation of the directory entries (the listing oracle pi)
     sorted(<paths of one directory>)     the stable sort by last path component (sort_by fs_key)
     path.is_dir(), (path / '__init__.py').exists(), path.name, str.startswith / endswith, name[:-len(suffix)]
     importlib.machinery.all_suffixes() / EXTENSION_SUFFIXES / SOURCE_SUFFIXES    the regenerated lists of Gen/TablesC18.v
     next((s for s in all_suffixes() if name.endswith(s)), None)    the first suffix of that list the name ends with, or None
     self.options.introspect_c_modules    False (the default; C extension modules are outside the model)
     self.introspectModule(..)            (never reached under that assumption) no event
     self.allobjects.get(mod.fullName())  the first module of r_all with that path
     mod.state is UNPROCESSED, isinstance(first, Module)    true of every module at this stage
     first._is_c_module                   False (no C modules)
     self._remove(first)                  allobjects loses every entry whose path extends first's
     the work list `replaced = [first]; while replaced: mod = replaced.pop(); <body>` with
       `replaced.extend(<the Modules of mod.contents>)` in the body: <body> runs once for every module at or below
       first (the contents of a module mirror the allobjects entries one level below it: C02's invariant); without
       the extend, for first only
     first.parent.contents.get(first.name) is first / del first.parent.contents[..]    contents are not in the modelled state
     self.addObject(mod)                  appends to allobjects, and to rootobjects when mod has no parent
     dup.report / self.progress / self.msg / self.module_count += 1   no effect on the modelled state *)
From Coq Require Import ZArith NArith List Bool.
From PydoctorVerif Require Import Base.Sexp Model.DetTypes Gen.TablesC18 Model.Determinism.
Import ListNotations.

Inductive flow := FGo | FCont | FBrk | FRet.

(* ================================================================== language D: discovery *)
Inductive dexpr :=
| DConst (b : bool)
| DIsDir                       (* path.is_dir() *)
| DHasInit                     (* (path / '__init__.py').exists() *)
| DNameIs (t : text)           (* path.name == t *)
| DNameStartsWith (t : text)   (* path.name.startswith(t) *)
| DEndsWith                    (* name.endswith(suffix) *)
| DSuffixInExt                 (* suffix in importlib.machinery.EXTENSION_SUFFIXES *)
| DSuffixInSrc                 (* suffix in importlib.machinery.SOURCE_SUFFIXES *)
| DOptIntrospect               (* self.options.introspect_c_modules *)
| DSuffixIsNone                (* suffix is None   (after DFirstSuffix) *)
| DNot (e : dexpr) | DAnd (a b : dexpr) | DOr (a b : dexpr).

Inductive dstmt :=
| DSkip
| DSeq (a b : dstmt)
| DIf (e : dexpr) (a b : dstmt)
| DAnalyzeSelf                 (* package = self.analyzeModule(package_path / '__init__.py', package_path.name, parentPackage, is_package=True) *)
| DForSorted (body : dstmt)    (* for path in sorted(package_path.iterdir()): body *)
| DForListing (body : dstmt)   (* for path in package_path.iterdir(): body     -- NOT sorted *)
| DRecurse                     (* self.addPackage(path, package) *)
| DAddModule                   (* self.addModuleFromPath(path, package) *)
| DForSuffixes (body : dstmt)  (* for suffix in importlib.machinery.all_suffixes(): body *)
| DFirstSuffix                 (* suffix = next((s for s in importlib.machinery.all_suffixes() if name.endswith(s)), None) *)
| DStrip                       (* module_name = name[:-len(suffix)] *)
| DAnalyzeMod                  (* self.analyzeModule(path, module_name, package) *)
| DIntrospect                  (* self.introspectModule(path, module_name, package) *)
| DContinue | DBreak | DReturn.

Record denv := mkDenv {
  d_entry : option fsnode;     (* the loop variable of addPackage's loop *)
  d_pkg : bool;                (* `package` is bound (DAnalyzeSelf ran) *)
  d_suffix : option text;      (* the loop variable of addModuleFromPath's loop *)
  d_modname : option text      (* module_name *)
}.
Definition denv0 : denv := mkDenv None false None None.

Section DExec.
  Variable pi : listing.
  (* addPackage(package_path, parentPackage): parentPackage's path, package_path.name, the directory entries;
     addModuleFromPath(path, package): package's path and path.name are cparent / cname as well *)
  Variable cparent : list text.
  Variable cname : text.
  Variable centries : list fsnode.
  Variable recurse : list text -> text -> list fsnode -> list event.   (* self.addPackage on a sub-directory *)
  Variable addmod : list text -> text -> list event.                   (* self.addModuleFromPath on an entry *)

  Definition entry_name (en : denv) : text := match d_entry en with Some e => fs_name e | None => cname end.

  Fixpoint deval (en : denv) (e : dexpr) : bool :=
    match e with
    | DConst b => b
    | DIsDir => match d_entry en with Some (FDir _ _) => true | _ => false end
    | DHasInit => match d_entry en with Some (FDir _ es) => has_init es | _ => false end
    | DNameIs t => text_eqb (entry_name en) t
    | DNameStartsWith t => starts_with (entry_name en) t
    | DEndsWith => match d_suffix en with Some s => ends_with cname s | None => false end
    | DSuffixInExt => match d_suffix en with Some s => mem_text s extension_suffixes | None => false end
    | DSuffixInSrc => match d_suffix en with Some s => mem_text s source_suffixes | None => false end
    | DOptIntrospect => false
    | DSuffixIsNone => match d_suffix en with None => true | Some _ => false end
    | DNot a => negb (deval en a)
    | DAnd a b => deval en a && deval en b
    | DOr a b => deval en a || deval en b
    end.

  (* one loop: the body is run for each element until it breaks or returns *)
  Fixpoint run_loop {X} (body : X -> list event * denv * flow) (l : list X) : list event * flow :=
    match l with
    | [] => ([], FGo)
    | x :: r =>
        match body x with
        | (ev, _, FBrk) => (ev, FGo)
        | (ev, _, FRet) => (ev, FRet)
        | (ev, _, _) => let '(ev2, fl2) := run_loop body r in (ev ++ ev2, fl2)
        end
    end.

  Fixpoint dexec (c : dstmt) (en : denv) : list event * denv * flow :=
    match c with
    | DSkip => ([], en, FGo)
    | DSeq a b =>
        match dexec a en with
        | (ev, en1, FGo) => let '(ev2, en2, fl) := dexec b en1 in (ev ++ ev2, en2, fl)
        | r => r
        end
    | DIf e a b => if deval en e then dexec a en else dexec b en
    | DAnalyzeSelf => ([EvModule cparent cname true], mkDenv (d_entry en) true (d_suffix en) (d_modname en), FGo)
    | DForSorted body =>
        let '(ev, fl) := run_loop (fun e => dexec body (mkDenv (Some e) (d_pkg en) (d_suffix en) (d_modname en)))
                                  (sort_by fs_key (pi centries)) in
        (ev, en, fl)
    | DForListing body =>
        let '(ev, fl) := run_loop (fun e => dexec body (mkDenv (Some e) (d_pkg en) (d_suffix en) (d_modname en)))
                                  (pi centries) in
        (ev, en, fl)
    | DRecurse =>
        match d_entry en, d_pkg en with
        | Some (FDir n es), true => (recurse (cparent ++ [cname]) n es, en, FGo)
        | _, _ => ([EvError], en, FRet)              (* NameError / not a directory: outside the model *)
        end
    | DAddModule =>
        match d_entry en, d_pkg en with
        | Some e, true => (addmod (cparent ++ [cname]) (fs_name e), en, FGo)
        | _, _ => ([EvError], en, FRet)
        end
    | DForSuffixes body =>
        let '(ev, fl) := run_loop (fun s => dexec body (mkDenv (d_entry en) (d_pkg en) (Some s) (d_modname en)))
                                  all_suffixes in
        (ev, en, fl)
    | DFirstSuffix =>
        ([], mkDenv (d_entry en) (d_pkg en) (first_suffix all_suffixes cname) (d_modname en), FGo)
    | DStrip =>
        match d_suffix en with
        | Some s => ([], mkDenv (d_entry en) (d_pkg en) (d_suffix en) (Some (strip_suffix cname s)), FGo)
        | None => ([EvError], en, FRet)
        end
    | DAnalyzeMod =>
        match d_modname en with
        | Some m => ([EvModule cparent m false], en, FGo)
        | None => ([EvError], en, FRet)
        end
    | DIntrospect => ([], en, FGo)
    | DContinue => ([], en, FCont)
    | DBreak => ([], en, FBrk)
    | DReturn => ([], en, FRet)
    end.

  Definition drun (c : dstmt) : list event := fst (fst (dexec c denv0)).
End DExec.

Record dcode := { c_add_package : dstmt; c_add_module_from_path : dstmt }.

Section DInterp.
  Variable C : dcode.
  Variable pi : listing.

  Definition add_module_ir (parent : list text) (name : text) : list event :=
    drun pi parent name [] (fun _ _ _ => [EvError]) (fun _ _ => [EvError]) (c_add_module_from_path C).

  Fixpoint add_package_ir (fuel : nat) (parent : list text) (name : text) (entries : list fsnode) : list event :=
    match fuel with
    | O => [EvOutOfFuel]
    | S f => drun pi parent name entries (add_package_ir f) add_module_ir (c_add_package C)
    end.

  (* SystemBuilder.addModule over the command line, as in Model/Determinism.v but through the translated bodies *)
  Fixpoint add_roots_ir (fuel : nat) (added : list N) (roots : list (N * fsnode)) : list event :=
    match roots with
    | [] => []
    | (pid, n) :: r =>
        if existsb (N.eqb pid) added then add_roots_ir fuel added r
        else match n with
             | FDir nm es =>
                 if has_init_file es then add_package_ir fuel [] nm es ++ add_roots_ir fuel (pid :: added) r
                 else [EvError]
             | FFile nm => add_module_ir [] nm ++ add_roots_ir fuel (pid :: added) r
             end
    end.
End DInterp.

(* ================================================================== language R: the registry *)
Inductive rexpr :=
| RConst (b : bool)
| RModUnprocessed              (* mod.state is ProcessingState.UNPROCESSED *)
| RFirstIsNone                 (* first is None *)
| RFirstIsModule               (* isinstance(first, Module) *)
| RFirstIsC                    (* first._is_c_module *)
| RFirstIsPackage              (* isinstance(first, Package) *)
| RDupIsPackage                (* isinstance(dup, Package) *)
| RFirstHasParent              (* first.parent is not None *)
| RParentHoldsFirst            (* first.parent.contents.get(first.name) is first *)
| RFirstInRoots                (* first in self.rootobjects *)
| RItemInUnproc                (* mod in self.unprocessed_modules   (inside the work list) *)
| RNot (e : rexpr) | RAnd (a b : rexpr) | ROr (a b : rexpr).

Inductive rstmt :=
| RSkip
| RSeq (a b : rstmt)
| RIf (e : rexpr) (a b : rstmt)
| RAssert (e : rexpr)
| RReturn
| RLookupFirst                 (* first = self.allobjects.get(mod.fullName()) *)
| RCallHandleDup               (* self._handleDuplicateModule(first, mod) *)
| RCallAddUnproc               (* self._addUnprocessedModule(dup) *)
| RAppendUnproc                (* self.unprocessed_modules.append(mod) *)
| RAddObject                   (* self.addObject(mod) *)
| RRemoveAllobjects            (* self._remove(first) *)
| RWorklist (body : rstmt)     (* replaced = [first]; while replaced: mod = replaced.pop(); body *)
| RRemoveItemUnproc            (* self.unprocessed_modules.remove(mod)   (inside the work list) *)
| RExtendChildren              (* replaced.extend(o for o in mod.contents.values() if isinstance(o, Module)) *)
| RDelParentContents           (* del first.parent.contents[first.name] *)
| RRemoveRoot.                 (* self.rootobjects.remove(first) *)

Inductive rres :=
| RGo (r : reg)
| RRet (r : reg)
| RBad.                        (* AssertionError / ValueError / out of fuel: outside the model *)

(* does the body of the work list push the children? *)
Fixpoint extends_children (c : rstmt) : bool :=
  match c with
  | RExtendChildren => true
  | RSeq a b => extends_children a || extends_children b
  | RIf _ a b => extends_children a || extends_children b
  | _ => false
  end.

(* the work list: `step` is the body, run for one item *)
Fixpoint wl_go (step : reg -> N -> rres) (l : list N) (r : reg) : rres :=
  match l with
  | [] => RGo r
  | i :: l' =>
      match step r i with
      | RGo r1 => wl_go step l' r1
      | RRet r1 => RRet r1
      | RBad => RBad
      end
  end.

Section RExec.
  (* the module being added: mod of _addUnprocessedModule, dup of _handleDuplicateModule *)
  Variable parent : list text.
  Variable name : text.
  Variable is_pkg : bool.
  Variable call_hd : option modent -> reg -> rres.     (* self._handleDuplicateModule(first, mod) *)
  Variable call_aup : reg -> rres.                     (* self._addUnprocessedModule(dup) *)

  Definition fn : list text := parent ++ [name].

  Record renv := mkRenv { e_first : option modent; e_item : option N; e_snapshot : list modent }.

  Fixpoint reval (r : reg) (en : renv) (e : rexpr) : bool :=
    match e with
    | RConst b => b
    | RModUnprocessed => true
    | RFirstIsNone => match e_first en with None => true | Some _ => false end
    | RFirstIsModule => true
    | RFirstIsC => false
    | RFirstIsPackage => match e_first en with Some f => m_pkg f | None => false end
    | RDupIsPackage => is_pkg
    | RFirstHasParent => match e_first en with Some f => Nat.ltb 1 (length (m_path f)) | None => false end
    | RParentHoldsFirst => true
    | RFirstInRoots => match e_first en with Some f => existsb (fun o => N.eqb (ro_id o) (m_id f)) (r_rootobjs r) | None => false end
    | RItemInUnproc => match e_item en with Some i => existsb (fun m => N.eqb (m_id m) i) (r_unproc r) | None => false end
    | RNot a => negb (reval r en a)
    | RAnd a b => reval r en a && reval r en b
    | ROr a b => reval r en a || reval r en b
    end.

  Fixpoint rexec (c : rstmt) (r : reg) (en : renv) : rres * renv :=
    match c with
    | RSkip => (RGo r, en)
    | RSeq a b =>
        match rexec a r en with
        | (RGo r1, en1) => rexec b r1 en1
        | res => res
        end
    | RIf e a b => if reval r en e then rexec a r en else rexec b r en
    | RAssert e => if reval r en e then (RGo r, en) else (RBad, en)
    | RReturn => (RRet r, en)
    | RLookupFirst =>
        (RGo r, mkRenv (find (fun m => path_eqb (m_path m) fn) (r_all r)) (e_item en) (r_all r))
    | RCallHandleDup => (call_hd (e_first en) r, en)
    | RCallAddUnproc => (call_aup r, en)
    | RAppendUnproc =>
        (RGo (mkReg (r_all r) (r_unproc r ++ [mkMod fn is_pkg (r_next r)]) (r_rootobjs r) (r_next r)), en)
    | RAddObject =>
        (RGo (mkReg (r_all r ++ [mkMod fn is_pkg (r_next r)]) (r_unproc r)
                    (match parent with
                     | [] => r_rootobjs r ++ [mkRoot (r_next r) name (if is_pkg then kind_package else kind_module)]
                     | _ => r_rootobjs r
                     end)
                    (r_next r)), en)
    | RRemoveAllobjects =>
        match e_first en with
        | Some f => (RGo (mkReg (filter (fun m => negb (is_prefix (m_path f) (m_path m))) (r_all r))
                                (r_unproc r) (r_rootobjs r) (r_next r)),
                     mkRenv (e_first en) (e_item en) (r_all r))
        | None => (RBad, en)
        end
    | RWorklist body =>
        match e_first en with
        | Some f =>
            let items := if extends_children body
                         then map m_id (filter (fun m => is_prefix (m_path f) (m_path m)) (e_snapshot en))
                         else [m_id f] in
            (wl_go (fun r i => fst (rexec body r (mkRenv (e_first en) (Some i) (e_snapshot en)))) items r, en)
        | None => (RBad, en)
        end
    | RRemoveItemUnproc =>
        match e_item en with
        | Some i => if existsb (fun m => N.eqb (m_id m) i) (r_unproc r)
                    then (RGo (mkReg (r_all r) (remove_id i (r_unproc r)) (r_rootobjs r) (r_next r)), en)
                    else (RBad, en)                                   (* list.remove raises ValueError *)
        | None => (RBad, en)
        end
    | RExtendChildren => (RGo r, en)
    | RDelParentContents => (RGo r, en)
    | RRemoveRoot =>
        match e_first en with
        | Some f => if existsb (fun o => N.eqb (ro_id o) (m_id f)) (r_rootobjs r)
                    then (RGo (mkReg (r_all r) (r_unproc r) (remove_root (m_id f) (r_rootobjs r)) (r_next r)), en)
                    else (RBad, en)
        | None => (RBad, en)
        end
    end.
End RExec.

Record rcode := { c_add_unprocessed : rstmt; c_handle_duplicate : rstmt }.

Definition renv0 : renv := mkRenv None None [].

Section RInterp.
  Variable C : rcode.

  (* _addUnprocessedModule(mod); analyzeModule bumps the object counter once per created module *)
  Fixpoint aup_ir (fuel : nat) (parent : list text) (name : text) (is_pkg : bool) (r : reg) : rres :=
    match fuel with
    | O => RBad
    | S f =>
        let hd := fun (first : option modent) (r : reg) =>
          match fst (rexec parent name is_pkg (fun _ _ => RBad) (aup_ir f parent name is_pkg)
                           (c_handle_duplicate C) r (mkRenv first None (r_all r))) with
          | RGo r' | RRet r' => RGo r'
          | RBad => RBad
          end in
        match fst (rexec parent name is_pkg hd (fun _ => RBad) (c_add_unprocessed C) r renv0) with
        | RGo r' | RRet r' => RGo r'
        | RBad => RBad
        end
    end.

  (* one analyzeModule call: a fresh object identity, then _addUnprocessedModule *)
  Definition reg_add_ir (r : reg) (parent : list text) (name : text) (is_pkg : bool) : option reg :=
    match aup_ir 3 parent name is_pkg r with
    | RGo r' => Some (mkReg (r_all r') (r_unproc r') (r_rootobjs r') (r_next r + 1)%N)
    | _ => None
    end.

  Definition reg_of_events_ir (evs : list event) : option reg :=
    fold_left (fun o e => match o, e with
                          | Some r, EvModule p n k => reg_add_ir r p n k
                          | o, _ => o
                          end) evs (Some (mkReg [] [] [] 0%N)).
End RInterp.
