(* Model/SiteRun.v -- the site model instantiated with the listing skeleton regenerated from /repo. *)
From PydoctorVerif Require Import Base.Sexp Model.SiteTable Model.Site Gen.Listings.
Definition run (s : sexp) : sexp := run_with table_now s.
