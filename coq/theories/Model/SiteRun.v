(* Model/SiteRun.v -- the site model instantiated with the listing skeleton regenerated from /repo, plus the
   interpretation (Model/SiteIR.v) of the function bodies translated from /repo (Gen/SiteCode.v): a further leg of the
   correspondence check. *)
From Coq Require Import ZArith List Arith.
From PydoctorVerif Require Import Base.Sexp Model.SiteTable Model.Site Gen.Listings Model.SiteIR Gen.SiteCode.
Import ListNotations.

Definition enc_result (x : result) : sexp :=
  match x with
  | Val (VStr t) => L [A 0%Z; of_text t]
  | Val (VBool b) => L [A 1%Z; of_bool b]
  | Val (VTag _ (Some h) _) => L [A 2%Z; of_text h]
  | Val (VTag _ None _) => L [A 3%Z]
  | Val _ => L [A 4%Z]
  | Err => L [A 5%Z]
  | OutOfFuel => L [A 6%Z]
  end.

(* per object: url, isVisible, isPrivate, taglink(o, <own page url>) and taglink(o, 'nameIndex.html') by the GENERATED code *)
Definition code_view (r : registry) : sexp :=
  let fuel := length (r_objs r) + 10 in
  let go f i := run_fn cquote site_code r fuel f i env0 in
  of_list (fun i =>
             let pg := match page_obj r i with Some p => url cquote r p | None => [] end in
             L [ enc_result (go FUrl i); enc_result (go FIsVisible i); enc_result (go FIsPrivate i);
                 enc_result (run_fn cquote site_code r fuel FTaglink i (taglink_args pg VNone));
                 enc_result (run_fn cquote site_code r fuel FTaglink i (taglink_args f_nameIndex VNone));
                 of_option of_text (taglink cquote table_now r i pg);
                 of_option of_text (taglink cquote table_now r i f_nameIndex) ])
          (seq 0 (length (r_objs r))).

Definition run (s : sexp) : sexp :=
  match run_with table_now s with
  | L l => L (l ++ [code_view (dec_registry (nth_s 0 s))])
  | x => x
  end.
