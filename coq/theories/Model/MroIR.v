(* Model/MroIR.v -- a small deep-embedded expression/statement language, large enough for the bodies of
   pydoctor/mro.py : Dependency.head / .tail, DependencyList.__init__ / __contains__ / heads / tails /
   exhausted / remove, _merge and mro, and its interpreter.  Gen/MroCode.v (written by
   harness/gen/gen_c05_code.py on every run, fail-closed) holds those bodies translated statement by
   statement from the CURRENT source; Proofs/MroIRProofs.v proves that interpreting them is the
   hand-written Model/Mro.v, for all inputs.   Definitions only.

   Values are immutable here; Python's mutable objects are handled by writing back:
     x.append(e) / x.popleft()         update the variable x
     x.remove(e)                       runs the translated DependencyList.remove with self := x, then x := final self
     for i in s._lists: ...            (SForField) every element is bound to i, the body may mutate i, the final i
                                       is stored back in place -- what iterating over a list of deques does
     for i, j in zip(s._lists, e): ... (SForFieldZip) the same, j running over the list e evaluates to BEFORE the loop
                                       starts; the loop ends with the shorter of the two
   Further constructs and their meaning:
     a if c else b                     (EIfExp) c is evaluated first, then only the chosen branch
     continue                          (SContinue) ends the current pass of the innermost loop
     while c: B   (no else)            is translated as  while True: (if c: pass else: break); B
     [a, *b, c]                        is translated as  [a] + b + [c]
     f(e)                              (EHelper k e) a call of the k-th other module-level function of mro.py that takes one
                                       positional parameter; its body is translated like the others, it may read its
                                       argument (properties, `in`) but not mutate it and not call anything else
   This is sound for mro.py because no two live names denote the same mutable object across a mutation
   except (receiver, self) and (element, loop variable), which are exactly the two written back; the
   translator refuses mutations anywhere else.

   What is primitive (stated assumptions about library calls; not translated):
     deque(iterable) / Dependency(i)   a new sequence with the items of i, in order
     d[0], len(d), d.__len__(), d.popleft(), bool(d)     as for a list; IndexError on an empty one
     islice(d, a, b)                   iterating it / testing `in` yields d[a:b] (it is consumed at once)
     x in <list or islice>             any(y == x for y in it)
     any(list), all(list)              over bool() of the items
     map(lambda x: e, l)               [e for x in l]
     bool(obj), obj == obj             Model.Mro.truthy / equality of class objects (N)
     getbases(c)                       a pure function (the same list every time it is called for c)  *)
From Coq Require Import NArith List Bool.
From PydoctorVerif Require Import Model.Mro.
Import ListNotations.

Inductive value : Type :=
| VNone
| VBool (b : bool)
| VInt (n : nat)
| VObj (c : cls)                      (* a class object / base name *)
| VList (l : list value)              (* list, deque (Dependency), consumed islice *)
| VDL (lists : value).                (* a DependencyList instance: its _lists attribute *)

Definition var := N.
Inductive exn := IndexError | ValueError.
Definition exn_eqb (a b : exn) : bool :=
  match a, b with IndexError, IndexError | ValueError, ValueError => true | _, _ => false end.

(* the properties of Dependency / DependencyList *)
Inductive prop := PHead | PTail | PHeads | PTails | PExhausted.

Inductive expr : Type :=
| ENone | ETrue | EFalse | EInt (n : nat) | ENil        (* None, True, False, literal int, [] *)
| EVar (x : var)
| EList1 (e : expr)                                     (* [e] *)
| EField (e : expr)                                     (* e._lists *)
| EIndex (e i : expr)                                   (* e[i] *)
| ELen (e : expr)                                       (* len(e) / e.__len__() *)
| EISlice (e a b : expr)                                (* islice(e, a, b) *)
| EDeque (e : expr)                                     (* Dependency(e) *)
| ENewDL (e : expr)                                     (* DependencyList( *e ) *)
| EProp (p : prop) (e : expr)                           (* e.head / .tail / .heads / .tails / .exhausted *)
| EIn (a b : expr)                                      (* a in b *)
| ENot (e : expr)
| EAnd (a b : expr)
| EEq (a b : expr)
| EAny (e : expr) | EAll (e : expr)
| EComp (x : var) (body src : expr)                     (* [body for x in src]  /  map(lambda x: body, src) *)
| EConcat (a b : expr)                                  (* a + b *)
| EIfExp (c a b : expr)                                 (* a if c else b *)
| EHelper (k : nat) (e : expr)                          (* <k-th helper function>(e) *)
| EGetbases (e : expr)                                  (* getbases(e) *)
| ECallMro (e : expr)                                   (* mro(e, getbases) *)
| ECallMerge (args : expr).                             (* _merge( *args ) *)

Inductive stmt : Type :=
| SSkip
| SSeq (a b : stmt)
| SAssign (x : var) (e : expr)
| SSetField (x : var) (e : expr)                        (* x._lists = e *)
| SAppend (x : var) (e : expr)                          (* x.append(e) *)
| SPopLeft (x : var)                                    (* x.popleft() *)
| SRemove (x : var) (e : expr)                          (* x.remove(e)   (DependencyList.remove) *)
| SIf (c : expr) (th el : stmt)
| SWhileTrue (body : stmt)
| SFor (x : var) (src : expr) (body orelse : stmt)      (* for x in src: body  else: orelse *)
| SForField (x : var) (s : var) (body : stmt)           (* for x in s._lists: body   (x may be mutated in place) *)
| SForFieldZip (x y : var) (s : var) (e : expr) (body : stmt)   (* for x, y in zip(s._lists, e): body *)
| SBreak
| SContinue
| SReturn (e : expr)
| SRaise (x : exn)
| STry (body : stmt) (ks : list exn) (handler : stmt).  (* try: body  except (ks): handler *)

(* ---- values ------------------------------------------------------------------------------------ *)
Fixpoint veq (a b : value) : bool :=
  match a, b with
  | VNone, VNone => true
  | VBool x, VBool y => Bool.eqb x y
  | VInt x, VInt y => Nat.eqb x y
  | VBool x, VInt y | VInt y, VBool x => Nat.eqb (if x then 1 else 0) y
  | VObj x, VObj y => N.eqb x y
  | VList l1, VList l2 =>
      (fix go (l1 l2 : list value) : bool :=
         match l1, l2 with
         | [], [] => true
         | x :: t, y :: u => veq x y && go t u
         | _, _ => false
         end) l1 l2
  | _, _ => false
  end.

(* bool(v); None: the language gives no meaning to it (DependencyList defines __len__, nothing relies on it) *)
Definition truth (v : value) : option bool :=
  match v with
  | VNone => Some false
  | VBool b => Some b
  | VInt n => Some (negb (Nat.eqb n 0))
  | VObj c => Some (truthy c)
  | VList l => Some (negb (Nat.eqb (length l) 0))
  | VDL _ => None
  end.

Definition of_seq (d : list cls) : value := VList (map VObj d).
Definition of_seqs (ls : list (list cls)) : value := VList (map of_seq ls).
Definition of_head (h : option cls) : value := match h with Some c => VObj c | None => VNone end.

Definition env := var -> value.
Definition env0 : env := fun _ => VNone.
Definition set (e : env) (x : var) (v : value) : env := fun y => if N.eqb x y then v else e y.
(* positional parameters are variables 0, 1, ... *)
Fixpoint bind_params (e : env) (k : N) (args : list value) : env :=
  match args with [] => e | a :: rest => bind_params (set e k a) (N.succ k) rest end.

(* ---- expressions ------------------------------------------------------------------------------- *)
(* EV value | EX exception | EStuck: no meaning in this language | EFuel: a callee ran out of fuel *)
Inductive eres := EV (v : value) | EX (x : exn) | EStuck | EFuel.

Fixpoint map_eres (f : value -> eres) (vs : list value) : eres :=
  match vs with
  | [] => EV (VList [])
  | v :: rest =>
    match f v with
    | EV w => match map_eres f rest with EV (VList ws) => EV (VList (w :: ws)) | EV _ => EStuck | r => r end
    | r => r
    end
  end.

Fixpoint truths (vs : list value) : option (list bool) :=
  match vs with
  | [] => Some []
  | v :: rest => match truth v, truths rest with Some b, Some bs => Some (b :: bs) | _, _ => None end
  end.

Section Exec.
  Variable prop_sem : prop -> value -> eres.               (* receiver.<property> *)
  Variable contains_sem : value -> value -> eres.          (* DependencyList.__contains__(self, item) *)
  Variable remove_sem : value -> value -> eres.            (* DependencyList.remove(self, item): the final self *)
  Variable newdl_sem : value -> eres.                      (* DependencyList( *lists ): the new instance *)
  Variable getbases_sem : cls -> list cls.
  Variable mro_sem : cls -> mres.                          (* the recursive call *)
  Variable merge_sem : list value -> eres.
  Variable helper_sem : nat -> value -> eres.              (* the k-th helper function applied to one argument *)
  Variable wfuel : nat.                                    (* iterations allowed to each `while True` *)

  Fixpoint eval (e : expr) (en : env) : eres :=
    match e with
    | ENone => EV VNone
    | ETrue => EV (VBool true)
    | EFalse => EV (VBool false)
    | EInt n => EV (VInt n)
    | ENil => EV (VList [])
    | EVar x => EV (en x)
    | EList1 a => match eval a en with EV v => EV (VList [v]) | r => r end
    | EField a => match eval a en with EV (VDL f) => EV f | EV _ => EStuck | r => r end
    | EIndex a i =>
        match eval a en with
        | EV va =>
          match eval i en with
          | EV vi =>
            match va, vi with
            | VList l, VInt n => match nth_error l n with Some v => EV v | None => EX IndexError end
            | _, _ => EStuck
            end
          | r => r
          end
        | r => r
        end
    | ELen a => match eval a en with EV (VList l) => EV (VInt (length l)) | EV _ => EStuck | r => r end
    | EISlice a b c =>
        match eval a en with
        | EV va =>
          match eval b en with
          | EV vb =>
            match eval c en with
            | EV vc =>
              match va, vb, vc with
              | VList l, VInt i, VInt j => EV (VList (firstn (j - i) (skipn i l)))
              | _, _, _ => EStuck
              end
            | r => r
            end
          | r => r
          end
        | r => r
        end
    | EDeque a => match eval a en with EV (VList l) => EV (VList l) | EV _ => EStuck | r => r end
    | ENewDL a => match eval a en with EV v => newdl_sem v | r => r end
    | EProp p a => match eval a en with EV v => prop_sem p v | r => r end
    | EIn a b =>
        match eval a en with
        | EV va =>
          match eval b en with
          | EV (VList l) => EV (VBool (existsb (veq va) l))
          | EV (VDL f) => contains_sem (VDL f) va
          | EV _ => EStuck
          | r => r
          end
        | r => r
        end
    | ENot a =>
        match eval a en with
        | EV v => match truth v with Some b => EV (VBool (negb b)) | None => EStuck end
        | r => r
        end
    | EAnd a b =>
        match eval a en with
        | EV v => match truth v with Some true => eval b en | Some false => EV v | None => EStuck end
        | r => r
        end
    | EEq a b =>
        match eval a en with
        | EV va => match eval b en with EV vb => EV (VBool (veq va vb)) | r => r end
        | r => r
        end
    | EAny a =>
        match eval a en with
        | EV (VList l) => match truths l with Some bs => EV (VBool (existsb (fun b => b) bs)) | None => EStuck end
        | EV _ => EStuck
        | r => r
        end
    | EAll a =>
        match eval a en with
        | EV (VList l) => match truths l with Some bs => EV (VBool (forallb (fun b => b) bs)) | None => EStuck end
        | EV _ => EStuck
        | r => r
        end
    | EComp x body src =>
        match eval src en with
        | EV (VList l) => map_eres (fun v => eval body (set en x v)) l
        | EV _ => EStuck
        | r => r
        end
    | EConcat a b =>
        match eval a en with
        | EV va =>
          match eval b en with
          | EV vb => match va, vb with VList l1, VList l2 => EV (VList (l1 ++ l2)) | _, _ => EStuck end
          | r => r
          end
        | r => r
        end
    | EGetbases a => match eval a en with EV (VObj c) => EV (of_seq (getbases_sem c)) | EV _ => EStuck | r => r end
    | ECallMro a =>
        match eval a en with
        | EV (VObj c) => match mro_sem c with MOk l => EV (of_seq l) | MValueError => EX ValueError | MOutOfFuel => EFuel end
        | EV _ => EStuck
        | r => r
        end
    | ECallMerge a => match eval a en with EV (VList vs) => merge_sem vs | EV _ => EStuck | r => r end
    | EIfExp c a b =>
        match eval c en with
        | EV v => match truth v with Some true => eval a en | Some false => eval b en | None => EStuck end
        | r => r
        end
    | EHelper k a => match eval a en with EV v => helper_sem k v | r => r end
    end.

  (* ---- statements ------------------------------------------------------------------------------ *)
  Inductive outcome := ONormal | OBreak | OContinue | OReturn (v : value) | ORaise (x : exn) | OStuck | OFuel.
  Definition res := (env * outcome)%type.

  Definition of_eres (en : env) (r : eres) (k : value -> res) : res :=
    match r with EV v => k v | EX x => (en, ORaise x) | EStuck => (en, OStuck) | EFuel => (en, OFuel) end.

  (* while True: body *)
  Fixpoint while_loop (fuel : nat) (step : env -> res) (en : env) : res :=
    match fuel with
    | O => (en, OFuel)
    | S f =>
      let '(e1, o) := step en in
      match o with
      | ONormal | OContinue => while_loop f step e1
      | OBreak => (e1, ONormal)
      | _ => (e1, o)
      end
    end.

  (* for x in vs: body  else: orelse *)
  Fixpoint for_loop (x : var) (step : env -> res) (orelse : env -> res) (vs : list value) (en : env) : res :=
    match vs with
    | [] => orelse en
    | v :: rest =>
      let '(e1, o) := step (set en x v) in
      match o with
      | ONormal | OContinue => for_loop x step orelse rest e1
      | OBreak => (e1, ONormal)
      | _ => (e1, o)
      end
    end.

  (* for x in s._lists: body -- returns the elements as the body left them *)
  Fixpoint forfield_loop (x : var) (step : env -> res) (vs : list value) (en : env) : list value * res :=
    match vs with
    | [] => ([], (en, ONormal))
    | v :: rest =>
      let '(e1, o) := step (set en x v) in
      match o with
      | ONormal | OContinue => let '(vs', r) := forfield_loop x step rest e1 in (e1 x :: vs', r)
      | OBreak => (e1 x :: rest, (e1, ONormal))
      | _ => (e1 x :: rest, (e1, o))
      end
    end.

  (* for x, y in zip(s._lists, ws): body *)
  Fixpoint forfieldzip_loop (x y : var) (step : env -> res) (vs ws : list value) (en : env) : list value * res :=
    match vs, ws with
    | v :: rest, w :: wrest =>
      let '(e1, o) := step (set (set en x v) y w) in
      match o with
      | ONormal | OContinue => let '(vs', r) := forfieldzip_loop x y step rest wrest e1 in (e1 x :: vs', r)
      | OBreak => (e1 x :: rest, (e1, ONormal))
      | _ => (e1 x :: rest, (e1, o))
      end
    | _, _ => (vs, (en, ONormal))
    end.

  Fixpoint exec (s : stmt) (en : env) : res :=
    match s with
    | SSkip => (en, ONormal)
    | SSeq a b =>
        let '(e1, o) := exec a en in
        match o with ONormal => exec b e1 | _ => (e1, o) end
    | SAssign x e => of_eres en (eval e en) (fun v => (set en x v, ONormal))
    | SSetField x e =>
        of_eres en (eval e en) (fun v => match en x with VDL _ => (set en x (VDL v), ONormal) | _ => (en, OStuck) end)
    | SAppend x e =>
        of_eres en (eval e en) (fun v => match en x with VList l => (set en x (VList (l ++ [v])), ONormal) | _ => (en, OStuck) end)
    | SPopLeft x =>
        match en x with
        | VList (_ :: t) => (set en x (VList t), ONormal)
        | VList [] => (en, ORaise IndexError)
        | _ => (en, OStuck)
        end
    | SRemove x e =>
        of_eres en (eval e en) (fun v => of_eres en (remove_sem (en x) v) (fun self' => (set en x self', ONormal)))
    | SIf c th el =>
        of_eres en (eval c en) (fun v => match truth v with Some true => exec th en | Some false => exec el en | None => (en, OStuck) end)
    | SWhileTrue body => while_loop wfuel (exec body) en
    | SFor x src body orelse =>
        of_eres en (eval src en) (fun v => match v with VList l => for_loop x (exec body) (exec orelse) l en | _ => (en, OStuck) end)
    | SForField x s body =>
        match en s with
        | VDL (VList l) =>
            let '(l', (e1, o)) := forfield_loop x (exec body) l en in
            (set e1 s (VDL (VList l')), o)
        | _ => (en, OStuck)
        end
    | SForFieldZip x y s e body =>
        of_eres en (eval e en) (fun w =>
          match en s, w with
          | VDL (VList l), VList ws =>
              let '(l', (e1, o)) := forfieldzip_loop x y (exec body) l ws en in
              (set e1 s (VDL (VList l')), o)
          | _, _ => (en, OStuck)
          end)
    | SBreak => (en, OBreak)
    | SContinue => (en, OContinue)
    | SReturn e => of_eres en (eval e en) (fun v => (en, OReturn v))
    | SRaise x => (en, ORaise x)
    | STry body ks handler =>
        let '(e1, o) := exec body en in
        match o with
        | ORaise x => if existsb (exn_eqb x) ks then exec handler e1 else (e1, o)
        | _ => (e1, o)
        end
    end.

  (* calling a function / method: positional parameters are the variables 0, 1, ...; returns what `return` gave
     (None when the body falls off its end) and the final value of parameter 0 (self) *)
  Definition call (body : stmt) (args : list value) : eres * value :=
    let '(e1, o) := exec body (bind_params env0 0 args) in
    (match o with
     | ONormal => EV VNone
     | OReturn v => EV v
     | ORaise x => EX x
     | OBreak | OContinue | OStuck => EStuck
     | OFuel => EFuel
     end, e1 0%N).
  Definition call_value (body : stmt) (args : list value) : eres := fst (call body args).
  (* a method called for its effect on self *)
  Definition call_self (body : stmt) (args : list value) : eres :=
    match call body args with
    | (EV _, self') => EV self'
    | (r, _) => r
    end.
End Exec.

(* ---- the translated module ------------------------------------------------------------------------ *)
Record code := {
  c_head : stmt;            (* Dependency.head        (self) *)
  c_tail : stmt;            (* Dependency.tail        (self) *)
  c_init : stmt;            (* DependencyList.__init__(self, *lists) *)
  c_contains : stmt;        (* DependencyList.__contains__(self, item) *)
  c_heads : stmt;           (* DependencyList.heads   (self) *)
  c_tails : stmt;           (* DependencyList.tails   (self) *)
  c_exhausted : stmt;       (* DependencyList.exhausted (self) *)
  c_remove : stmt;          (* DependencyList.remove  (self, item) *)
  c_merge : stmt;           (* _merge( *lists ) *)
  c_mro : stmt;             (* mro(cls, getbases) *)
  c_helpers : list stmt;    (* the other module-level functions of one positional parameter, in source order *)
}.

Definition no_prop (_ : prop) (_ : value) : eres := EStuck.
Definition no_call2 (_ _ : value) : eres := EStuck.
Definition no_call1 (_ : value) : eres := EStuck.
Definition no_bases (_ : cls) : list cls := [].
Definition no_mro (_ : cls) : mres := MOutOfFuel.
Definition no_merge (_ : list value) : eres := EStuck.
Definition no_helper (_ : nat) (_ : value) : eres := EStuck.

Section Interp.
  Variable C : code.

  (* layer 0: the properties of Dependency; nothing is called from them *)
  Definition call0 := call_value no_prop no_call2 no_call2 no_call1 no_bases no_mro no_merge no_helper 0.
  Definition head_ir (d : value) : eres := call0 (c_head C) [d].
  Definition tail_ir (d : value) : eres := call0 (c_tail C) [d].
  Definition prop0 (p : prop) (v : value) : eres :=
    match p, v with
    | PHead, VList _ => head_ir v
    | PTail, VList _ => tail_ir v
    | _, _ => EStuck
    end.

  (* layer 1a: the read-only members of DependencyList; they use the properties of Dependency only *)
  Definition call1 := call_value prop0 no_call2 no_call2 no_call1 no_bases no_mro no_merge no_helper 0.
  Definition contains_ir (self item : value) : eres := call1 (c_contains C) [self; item].
  Definition heads_ir (self : value) : eres := call1 (c_heads C) [self].
  Definition tails_ir (self : value) : eres := call1 (c_tails C) [self].
  Definition exhausted_ir (self : value) : eres := call1 (c_exhausted C) [self].
  Definition prop1 (p : prop) (v : value) : eres :=
    match p, v with
    | PHeads, VDL _ => heads_ir v
    | PTails, VDL _ => tails_ir v
    | PExhausted, VDL _ => exhausted_ir v
    | _, _ => prop0 p v
    end.

  (* layer 1b: __init__ and remove, called for their effect on self; they may use all the properties *)
  Definition call1_self := call_self prop1 contains_ir no_call2 no_call1 no_bases no_mro no_merge no_helper 0.
  Definition remove_ir (self item : value) : eres := call1_self (c_remove C) [self; item].
  Definition newdl_ir (lists : value) : eres := call1_self (c_init C) [VDL VNone; lists].

  (* layer 1c: helper functions: they read their argument *)
  Definition helper_ir (k : nat) (arg : value) : eres :=
    match nth_error (c_helpers C) k with
    | Some body => call_value prop1 contains_ir no_call2 no_call1 no_bases no_mro no_merge no_helper 0 body [arg]
    | None => EStuck
    end.

  (* layer 2: _merge; the while loop gets 1 + (sum of the lengths of the arguments) iterations, as Model.Mro.merge *)
  Definition args_fuel (args : list value) : nat :=
    S (fold_right (fun v n => match v with VList l => length l | _ => 0 end + n) 0 args).
  Definition merge_ir (args : list value) : eres :=
    call_value prop1 contains_ir remove_ir newdl_ir no_bases no_mro no_merge helper_ir (args_fuel args) (c_merge C) [VList args].

  (* layer 3: mro, recursive on fuel as Model.Mro.mro *)
  Inductive ires := IOk (l : list value) | IValueError | IOutOfFuel | IStuck.
  Definition ires_of (r : eres) : ires :=
    match r with
    | EV (VList l) => IOk l
    | EV _ => IStuck
    | EX ValueError => IValueError
    | EX IndexError => IStuck
    | EStuck => IStuck
    | EFuel => IOutOfFuel
    end.
  Fixpoint objs (l : list value) : option (list cls) :=
    match l with
    | [] => Some []
    | VObj c :: rest => match objs rest with Some cs => Some (c :: cs) | None => None end
    | _ :: _ => None
    end.
  (* back to the model's result type; None = the interpretation got stuck / returned something that is not a list of classes *)
  Definition mres_of (r : eres) : option mres :=
    match ires_of r with
    | IOk l => match objs l with Some cs => Some (MOk cs) | None => None end
    | IValueError => Some MValueError
    | IOutOfFuel => Some MOutOfFuel
    | IStuck => None
    end.

  Section WithBases.
    Variable getbases_f : cls -> list cls.
    Fixpoint mro_ir (fuel : nat) (c : cls) : option mres :=
      match fuel with
      | O => Some MOutOfFuel
      | S f =>
        mres_of (call_value prop1 contains_ir remove_ir newdl_ir getbases_f
                            (fun b => match mro_ir f b with Some r => r | None => MOutOfFuel end)
                            merge_ir no_helper 0 (c_mro C) [VObj c; VNone])
      end.
  End WithBases.
End Interp.
