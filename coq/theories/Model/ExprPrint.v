(* Model/ExprPrint.v -- pydoctor/epydoc/markup/_pyval_repr.py : the AST side of PyvalColorizer.
     _OperatorDelimiter.__init__   the parent-directed decision to put parentheses around an operator
     _colorize / _colorize_ast / _colorize_ast_constant / _unary_op / _binary_op / _bool_op / _name / _attribute /
     _subscript / _call_generic / _colorize_iter / _colorize_ast_dict / _colorize_ast_generic
   `compile` turns an expression into the tree of output calls that Model/Wrap.v executes;
   `pp` is the same printer seen as a producer of lexical tokens (what the displayed text is, token by token).
   Out of the model (run answers `unmodelled`): calls whose function is the dotted name re.compile (regex colouriser).
   Oracles: str(number) and astor.to_source(node) are supplied as text inside the expression.
   Definitions only. *)
From Coq Require Import ZArith NArith List Bool.
From PydoctorVerif Require Import Base.Sexp Base.PyExpr Gen.TablesC15 Model.StrEsc Model.Wrap Spec.PyGrammar Spec.PyTokenizer.
Import ListNotations.
Local Open Scope N_scope.

(* astor.op_util.get_op_precedence(node.op) *)
Definition prec (o : opk) : N :=
  match o with
  | OU u => uop_prec_tab (unop_idx u)
  | OB b => bop_prec_tab (binop_idx b)
  | OO o => boolop_prec_tab (boolop_idx o)
  end.

(* where the node stands: what `next(get_parents(node))` is, as far as _OperatorDelimiter looks *)
Inductive pctx :=
| PNone                       (* no parent (StopIteration), or a parent that is not expr/keyword/comprehension *)
| PUnary (u : unop)           (* operand of a UnaryOp *)
| PBinL (b : binop)           (* left operand of a BinOp *)
| PBinR (b : binop)           (* right operand of a BinOp: node is parent_node.right *)
| PBool (o : boolop)          (* one of the values of a BoolOp *)
| POther (explicit : option N).  (* any other expr / keyword parent; colorizer.explicit_precedence.get(node) *)

Definition is_pow (b : binop) : bool := match b with Pow => true | _ => false end.

(* parent_precedence, None when no parentheses can be needed *)
Definition parent_prec (pc : pctx) : option N :=
  match pc with
  | PNone => None
  | PUnary u => Some (prec (OU u))
  | PBinL b => Some (if is_pow b then prec (OB b) + 1 else prec (OB b))
  | PBinR b => Some (if is_pow b then prec (OB b) + 1 else prec (OB b) + 1)
  | PBool o => Some (prec (OO o) + 1)
  | POther None => Some prec_highest
  | POther (Some e) => Some e
  end.

(* self.discard = False  iff  precedence < parent_precedence *)
Definition needs_paren (pc : pctx) (o : opk) : bool :=
  match parent_prec pc with
  | None => false
  | Some pp => prec o <? pp
  end.

Definition uop_text (u : unop) : text := uop_text_tab (unop_idx u).
Definition bop_text (b : binop) : text := bop_text_tab (binop_idx b).
Definition boolop_text (o : boolop) : text := boolop_text_tab (boolop_idx o).

(* _colorize_ast_attribute: walk down the Attribute chain; a dotted name iff it ends in a Name *)
Fixpoint dotted (e : expr) : option (list text) :=
  match e with
  | EName s => Some [s]
  | EAttr v a _ => match dotted v with Some parts => Some (parts ++ [a]) | None => None end
  | _ => None
  end.

Fixpoint join_dot (parts : list text) : text :=
  match parts with
  | [] => []
  | [p] => p
  | p :: rest => p ++ [46] ++ join_dot rest
  end.

Definition t_re : text := [114; 101].
Definition t_compile : text := [99; 111; 109; 112; 105; 108; 101].
(* node2dottedname(node.func) == [re, compile] *)
Definition is_re_compile (f : expr) : bool :=
  match dotted f with
  | Some [a; b] => text_eqb a t_re && text_eqb b t_compile
  | _ => false
  end.

(* ---- the tree of output calls ---- *)
Definition out (t : text) : cmd := COut t NText.

Definition compile_const (c : const) : cmd :=
  match c with
  | KNum shown => COut shown NText
  | KStr s => CStr false s
  | KBytes b => CStr true b
  | KNone => COut [78; 111; 110; 101] NRef
  | KTrue => COut [84; 114; 117; 101] NRef
  | KFalse => COut [70; 97; 108; 115; 101] NRef
  | KEllipsis => COut [46; 46; 46] NEllTag
  end.

(* the loop of _colorize_iter / _colorize_ast_dict: if i >= 1: _insert_comma; append WBR; item *)
Fixpoint iter_body (first : bool) (items : list cmd) : list cmd :=
  match items with
  | [] => []
  | c :: rest => (if first then [] else [CComma]) ++ [CWbr; c] ++ iter_body false rest
  end.

Definition opt_out (t : option text) : list cmd := match t with Some x => [COut x NText] | None => [] end.

(* _colorize_iter(pyval, state, prefix, suffix) *)
Definition iter_cmd (prefix suffix : option text) (items : list cmd) : cmd :=
  CSeq (opt_out prefix ++ [CIndent (CSeq (iter_body true items))] ++ opt_out suffix).

Fixpoint intersperse (sep : cmd) (l : list cmd) : list cmd :=
  match l with
  | [] => []
  | [c] => [c]
  | c :: rest => c :: sep :: intersperse sep rest
  end.

Definition T_LP : text := [40].
Definition T_RP : text := [41].
Definition T_LB : text := [91].
Definition T_RB : text := [93].
Definition T_SETOPEN : text := [115; 101; 116; 40; 91].
Definition T_SETCLOSE : text := [93; 41].
Definition T_STAR : text := [42].
Definition T_DSTAR : text := [42; 42].

Fixpoint compile (pc : pctx) (e : expr) {struct e} : cmd :=
  match e with
  | ELeaf (LConst c) => compile_const c
  | ELeaf (LGen shown) => out shown
  | EName s => COut s NRef
  | EAttr _ _ g =>
    match dotted e with
    | Some parts => COut (join_dot parts) NRef
    | None => out g
    end
  | EUn u x => CDelim (needs_paren pc (OU u)) (CSeq [out (uop_text u); compile (PUnary u) x])
  | EBin b l r =>
    CDelim (needs_paren pc (OB b)) (CSeq [compile (PBinL b) l; out (bop_text b); compile (PBinR b) r])
  | EBool o es =>
    CDelim (needs_paren pc (OO o)) (CSeq (intersperse (out (boolop_text o)) (map (compile (PBool o)) es)))
  | EList es => CMulti (iter_cmd (Some T_LB) (Some T_RB) (map (compile (POther None)) es))
  | ETuple es => CMulti (iter_cmd (Some T_LP) (Some T_RP) (map (compile (POther None)) es))
  | ESet es => CMulti (iter_cmd (Some T_SETOPEN) (Some T_SETCLOSE) (map (compile (POther None)) es))
  | EDict items =>
    CMulti (CSeq [out [123];
                  CIndent (CSeq (iter_body true
                    (map (fun kv : option expr * expr =>
                            match fst kv with
                            | Some k => CSeq [compile (POther None) k; out [58; 32]; compile (POther (Some prec_comma)) (snd kv)]
                            | None => CSeq [out T_DSTAR; compile (POther None) (snd kv)]
                            end) items)));
                  out [125]])
  | ESub v sl =>
    CSeq [compile (POther None) v; out T_LB;
          match sl with
          | ETuple (x :: xs) =>
            CMulti (iter_cmd None (match xs with [] => Some [44] | _ => None end) (map (compile (POther None)) (x :: xs)))
          | _ => CSeq [CWbr; compile (POther None) sl]
          end;
          out T_RB]
  | ECall f args kws =>
    CSeq [compile (POther None) f; out T_LP;
          CIndent (CSeq ([CMulti (iter_cmd None None (map (compile (POther None)) args))] ++
                         match kws with
                         | [] => []
                         | _ => (match args with [] => [] | _ => [CComma] end) ++
                                [CMulti (iter_cmd None None
                                   (map (fun kw : option text * expr =>
                                           match fst kw with
                                           | Some name => CSeq [out name; out [61]; compile (POther None) (snd kw)]
                                           | None => CSeq [out T_DSTAR; compile (POther None) (snd kw)]
                                           end) kws))]
                         end));
          out T_RP]
  | EStarred x => CSeq [out T_STAR; compile (POther None) x]
  end.

(* ---- the same printer, token by token ---- *)
Definition utok (u : unop) : token :=
  match u with USub => TOp OMinus | UAdd => TOp OPlus | UNot => TNot | UInvert => TOp OTilde end.
Definition btok (b : binop) : token :=
  TOp match b with
      | Sub => OMinus | Add => OPlus | Mult => OStar | Div => OSlash | FloorDiv => ODSlash | Mod => OPercent
      | Pow => ODStar | LShift => OLShift | RShift => ORShift | BitOr => OBar | BitXor => OCaret | BitAnd => OAmp
      | MatMult => OAt
      end.
Definition otok (o : boolop) : token := match o with And => TAnd | Or => TOr end.

Definition par (b : bool) (ts : list token) : list token := if b then TLP :: ts ++ [TRP] else ts.

Fixpoint commas (l : list (list token)) : list token :=
  match l with
  | [] => []
  | [x] => x
  | x :: rest => x ++ TComma :: commas rest
  end.

Fixpoint sep_by (sep : token) (l : list (list token)) : list token :=
  match l with
  | [] => []
  | [x] => x
  | x :: rest => x ++ sep :: sep_by sep rest
  end.

Fixpoint dotted_tokens (parts : list text) : list token :=
  match parts with
  | [] => []
  | [p] => [TName p]
  | p :: rest => TName p :: TDot :: dotted_tokens rest
  end.

Fixpoint pp (pc : pctx) (e : expr) {struct e} : list token :=
  match e with
  | ELeaf l => [TLeaf l]
  | EName s => [TName s]
  | EAttr _ _ g =>
    match dotted e with
    | Some parts => dotted_tokens parts
    | None => [TLeaf (LGen g)]
    end
  | EUn u x => par (needs_paren pc (OU u)) (utok u :: pp (PUnary u) x)
  | EBin b l r => par (needs_paren pc (OB b)) (pp (PBinL b) l ++ btok b :: pp (PBinR b) r)
  | EBool o es => par (needs_paren pc (OO o)) (sep_by (otok o) (map (pp (PBool o)) es))
  | EList es => TLB :: commas (map (pp (POther None)) es) ++ [TRB]
  | ETuple es => TLP :: commas (map (pp (POther None)) es) ++ [TRP]
  | ESet es => TName T_set :: TLP :: TLB :: commas (map (pp (POther None)) es) ++ [TRB; TRP]
  | EDict items =>
    TLC :: commas (map (fun kv : option expr * expr =>
                          match fst kv with
                          | Some k => pp (POther None) k ++ TColon :: pp (POther (Some prec_comma)) (snd kv)
                          | None => TOp ODStar :: pp (POther None) (snd kv)
                          end) items) ++ [TRC]
  | ESub v sl =>
    pp (POther None) v ++ TLB ::
       match sl with
       | ETuple (x :: xs) =>
         commas (map (pp (POther None)) (x :: xs)) ++ match xs with [] => [TComma] | _ => [] end
       | _ => pp (POther None) sl
       end ++ [TRB]
  | ECall f args kws =>
    pp (POther None) f ++ TLP ::
       commas (map (pp (POther None)) args ++
               map (fun kw : option text * expr =>
                      match fst kw with
                      | Some name => TName name :: TEq :: pp (POther None) (snd kw)
                      | None => TOp ODStar :: pp (POther None) (snd kw)
                      end) kws) ++ [TRP]
  | EStarred x => TOp OStar :: pp (POther None) x
  end.

(* every call in the tree is handled by _colorize_ast_call_generic *)
Fixpoint modelled (e : expr) : bool :=
  match e with
  | ELeaf _ | EName _ => true
  | EAttr v _ _ => modelled v
  | EUn _ x => modelled x
  | EBin _ l r => modelled l && modelled r
  | EBool _ es | EList es | ETuple es | ESet es => forallb modelled es
  | EDict items => forallb (fun kv : option expr * expr =>
                              match fst kv with Some k => modelled k | None => true end && modelled (snd kv)) items
  | ESub v sl => modelled v && modelled sl
  | ECall f args kws => negb (is_re_compile f) && modelled f && forallb modelled args
                        && forallb (fun kw : option text * expr => modelled (snd kw)) kws
  | EStarred x => modelled x
  end.

(* ---- calls to re.compile: PyvalColorizer._colorize_ast_re, at the envelope level ----
   The regex colouriser itself (_colorize_re_pattern: sre_parse36.parse and _colorize_re_tree) is an oracle: either the
   sequence of its _output calls (text, kind), or "raised ValueError / sre error". *)
Definition t_pattern : text := [112; 97; 116; 116; 101; 114; 110].
Definition t_flags : text := [102; 108; 97; 103; 115].

(* astutils.bind_args(signature(re.compile), node): kwargs = {kw.arg: kw.value for kw in keywords if kw.arg is not None}
   (a later duplicate wins, double-star unpacking is ignored); sig.bind of the positional arguments and kwargs against
   the signature (pattern, flags=0).
   None = TypeError. *)
Fixpoint kw_lookup (name : text) (kws : list (option text * expr)) (acc : option expr) : option expr :=
  match kws with
  | [] => acc
  | (Some n, v) :: rest => kw_lookup name rest (if text_eqb n name then Some v else acc)
  | (None, _) :: rest => kw_lookup name rest acc
  end.

Definition kw_names_ok (kws : list (option text * expr)) : bool :=
  forallb (fun kw : option text * expr =>
             match fst kw with
             | Some n => text_eqb n t_pattern || text_eqb n t_flags
             | None => true
             end) kws.

Definition bind_re (args : list expr) (kws : list (option text * expr)) : option (expr * option expr) :=
  if negb (kw_names_ok kws) then None else
  let kp := kw_lookup t_pattern kws None in
  let kf := kw_lookup t_flags kws None in
  match args with
  | [] => match kp with Some p => Some (p, kf) | None => None end
  | [p] => match kp with Some _ => None | None => Some (p, kf) end
  | [p; fl] => match kp, kf with None, None => Some (p, Some fl) | _, _ => None end
  | _ => None
  end.

Inductive re_oracle :=
| ReRaised                                   (* ValueError / sre_constants.error while parsing or colourising the pattern *)
| RePieces (pieces : list (text * nkind)).   (* the _output calls of _colorize_re_pattern, prefix and quotes included *)

Definition generic_call (f : expr) (args : list expr) (kws : list (option text * expr)) : cmd :=
  compile PNone (ECall f args kws).          (* _colorize_ast_call_generic: the context does not matter for a call *)

Definition re_cmd (oracle : re_oracle) (f : expr) (args : list expr) (kws : list (option text * expr)) : cmd :=
  match bind_re args kws with
  | None => generic_call f args kws                                   (* except TypeError *)
  | Some (pat, flags) =>
    match pat with
    | ELeaf (LConst (KStr s)) | ELeaf (LConst (KBytes s)) =>
      let isbytes := match pat with ELeaf (LConst (KBytes _)) => true | _ => false end in
      let pattern_cmd :=
          if has_nl s then Some (CStr isbytes s)                      (* _colorize_re_pattern_str: multi-line patterns as strings *)
          else match oracle with
               | RePieces pieces => Some (CSeq (map (fun tk : text * nkind => COut (fst tk) (snd tk)) pieces))
               | ReRaised => None
               end in
      match pattern_cmd with
      | None => generic_call f args kws                               (* state.restore(mark); generic *)
      | Some pc =>
        CSeq [COut [114; 101; 46; 99; 111; 109; 112; 105; 108; 101] NRef; out T_LP;
              CIndent (CSeq (pc :: match flags with
                                   | Some fl => [CComma; compile (POther None) fl]
                                   | None => []
                                   end));
              out T_RP]
      end
    | _ => generic_call f args kws                                    (* pattern not a str/bytes constant *)
    end
  end.

(* ---- wire ---- *)
Definition unop_of_N (n : N) : option unop :=
  match n with 0 => Some USub | 1 => Some UAdd | 2 => Some UNot | 3 => Some UInvert | _ => None end.
Definition binop_of_N (n : N) : option binop := nth_error all_binops (N.to_nat n).
Definition boolop_of_N (n : N) : option boolop := match n with 0 => Some And | 1 => Some Or | _ => None end.

Fixpoint all_some {X} (l : list (option X)) : option (list X) :=
  match l with
  | [] => Some []
  | None :: _ => None
  | Some x :: rest => match all_some rest with Some r => Some (x :: r) | None => None end
  end.

Definition const_of_sexp (s : sexp) : option const :=
  match to_N (nth_s 1 s) with
  | 0 => Some (KNum (to_text (nth_s 2 s)))
  | 1 => Some (KStr (to_text (nth_s 2 s)))
  | 2 => Some (KBytes (to_text (nth_s 2 s)))
  | 3 => Some KNone | 4 => Some KTrue | 5 => Some KFalse | 6 => Some KEllipsis
  | _ => None
  end.

Fixpoint expr_of_sexp (fuel : nat) (s : sexp) : option expr :=
  match fuel with
  | O => None
  | S f =>
    let sub := expr_of_sexp f in
    let subs := fun x => all_some (map sub (to_list x)) in
    match to_N (nth_s 0 s) with
    | 0 => match const_of_sexp s with Some c => Some (ELeaf (LConst c)) | None => None end
    | 1 => Some (EName (to_text (nth_s 1 s)))
    | 2 => match sub (nth_s 1 s) with
           | Some v => Some (EAttr v (to_text (nth_s 2 s)) (to_text (nth_s 3 s)))
           | None => None end
    | 3 => match unop_of_N (to_N (nth_s 1 s)), sub (nth_s 2 s) with
           | Some u, Some x => Some (EUn u x) | _, _ => None end
    | 4 => match binop_of_N (to_N (nth_s 1 s)), sub (nth_s 2 s), sub (nth_s 3 s) with
           | Some b, Some l, Some r => Some (EBin b l r) | _, _, _ => None end
    | 5 => match boolop_of_N (to_N (nth_s 1 s)), subs (nth_s 2 s) with
           | Some o, Some es => Some (EBool o es) | _, _ => None end
    | 6 => match subs (nth_s 1 s) with Some es => Some (ETuple es) | None => None end
    | 7 => match subs (nth_s 1 s) with Some es => Some (EList es) | None => None end
    | 8 => match subs (nth_s 1 s) with Some es => Some (ESet es) | None => None end
    | 9 => match all_some (map (fun kv =>
                                  match to_list (nth_s 0 kv), sub (nth_s 1 kv) with
                                  | [], Some v => Some (None, v)
                                  | _, Some v => match sub (nth_s 0 kv) with Some k => Some (Some k, v) | None => None end
                                  | _, None => None
                                  end) (to_list (nth_s 1 s))) with
           | Some items => Some (EDict items) | None => None end
    | 10 => match sub (nth_s 1 s), sub (nth_s 2 s) with
            | Some v, Some sl => Some (ESub v sl) | _, _ => None end
    | 11 => match sub (nth_s 1 s), subs (nth_s 2 s),
                  all_some (map (fun kw =>
                                   match sub (nth_s 1 kw) with
                                   | Some v => Some (match to_list (nth_s 0 kw) with [] => None | _ => Some (to_text (nth_s 0 kw)) end, v)
                                   | None => None end) (to_list (nth_s 3 s))) with
            | Some f, Some args, Some kws => Some (ECall f args kws) | _, _, _ => None end
    | 12 => match sub (nth_s 1 s) with Some x => Some (EStarred x) | None => None end
    | 13 => Some (ELeaf (LGen (to_text (nth_s 1 s))))
    | _ => None
    end
  end.

Fixpoint sexp_depth (s : sexp) : nat :=
  match s with A _ => 1 | L l => S (fold_right (fun x acc => Nat.max (sexp_depth x) acc) 0%nat l) end.

Definition pctx_of_N (n : N) : pctx :=
  match n with
  | 2 => POther None
  | 3 => PBinR Sub
  | 4 => PUnary USub
  | 5 => PBool And
  | _ => PNone                 (* 0 fresh node, 1 Assign value, 6 default in ast.arguments: never parenthesised *)
  end.

Definition sexp_of_const (c : const) : sexp :=
  match c with
  | KNum t => L [A 0; A 0; of_text t]
  | KStr t => L [A 0; A 1; of_text t]
  | KBytes t => L [A 0; A 2; of_text t]
  | KNone => L [A 0; A 3; L []] | KTrue => L [A 0; A 4; L []] | KFalse => L [A 0; A 5; L []]
  | KEllipsis => L [A 0; A 6; L []]
  end.

Definition sexp_of_leaf (l : leaf) : sexp :=
  match l with LConst c => sexp_of_const c | LGen t => L [A 13; of_text t] end.

Fixpoint sexp_of_expr (e : expr) : sexp :=
  match e with
  | ELeaf l => sexp_of_leaf l
  | EName s => L [A 1; of_text s]
  | EAttr v a g => L [A 2; sexp_of_expr v; of_text a; of_text g]
  | EUn u x => L [A 3; of_N (unop_idx u); sexp_of_expr x]
  | EBin b l r => L [A 4; of_N (binop_idx b); sexp_of_expr l; sexp_of_expr r]
  | EBool o es => L [A 5; of_N (boolop_idx o); L (map sexp_of_expr es)]
  | ETuple es => L [A 6; L (map sexp_of_expr es)]
  | EList es => L [A 7; L (map sexp_of_expr es)]
  | ESet es => L [A 8; L (map sexp_of_expr es)]
  | EDict items => L [A 9; L (map (fun kv : option expr * expr =>
                                     L [match fst kv with Some k => sexp_of_expr k | None => L [] end;
                                        sexp_of_expr (snd kv)]) items)]
  | ESub v sl => L [A 10; sexp_of_expr v; sexp_of_expr sl]
  | ECall f args kws => L [A 11; sexp_of_expr f; L (map sexp_of_expr args);
                           L (map (fun kw : option text * expr =>
                                     L [match fst kw with Some n => of_text n | None => L [] end;
                                        sexp_of_expr (snd kw)]) kws)]
  | EStarred x => L [A 12; sexp_of_expr x]
  end.

(* the text of a leaf when it is displayed on one line (what the leaf token stands for) *)
Definition leaf_text (l : leaf) : text :=
  match l with
  | LConst c => flat (compile_const c)
  | LGen t => t
  end.

Definition optok_idx (o : optok) : N :=
  match o with OMinus => 0 | OPlus => 1 | OTilde => 2 | OStar => 3 | OSlash => 4 | ODSlash => 5 | OPercent => 6
             | ODStar => 7 | OLShift => 8 | ORShift => 9 | OBar => 10 | OCaret => 11 | OAmp => 12 | OAt => 13 end.
Definition optok_of_N (n : N) : option optok :=
  nth_error [OMinus; OPlus; OTilde; OStar; OSlash; ODSlash; OPercent; ODStar; OLShift; ORShift; OBar; OCaret; OAmp; OAt]
            (N.to_nat n).

(* tokens on the wire: (0 leaf-text leaf) (1 name) | 2..12 punctuation | (13 op) | 14 not 15 and 16 or *)
Definition sexp_of_token (t : token) : sexp :=
  match t with
  | TLeaf l => L [A 0; of_text (leaf_text l); sexp_of_leaf l]
  | TName s => L [A 1; of_text s]
  | TLP => A 2 | TRP => A 3 | TLB => A 4 | TRB => A 5 | TLC => A 6 | TRC => A 7
  | TComma => A 8 | TColon => A 9 | TDot => A 10 | TEq => A 11
  | TOp o => L [A 13; of_N (optok_idx o)]
  | TNot => A 14 | TAnd => A 15 | TOr => A 16
  end.

Definition token_of_sexp (s : sexp) : option token :=
  match s with
  | A 2%Z => Some TLP | A 3%Z => Some TRP | A 4%Z => Some TLB | A 5%Z => Some TRB | A 6%Z => Some TLC | A 7%Z => Some TRC
  | A 8%Z => Some TComma | A 9%Z => Some TColon | A 10%Z => Some TDot | A 11%Z => Some TEq
  | A 14%Z => Some TNot | A 15%Z => Some TAnd | A 16%Z => Some TOr
  | A _ => None
  | L _ =>
    match to_N (nth_s 0 s) with
    | 0 => match expr_of_sexp 3 (nth_s 2 s) with Some (ELeaf l) => Some (TLeaf l) | _ => None end
    | 1 => Some (TName (to_text (nth_s 1 s)))
    | 13 => match optok_of_N (to_N (nth_s 1 s)) with Some o => Some (TOp o) | None => None end
    | _ => None
    end
  end.

Definition nkind_of_N (n : N) : nkind :=
  match n with 0 => NText | 1 => NQuote | 2 => NString | 3 => NEllTag | 4 => NRef | 5 => NWbr | 6 => NLinewrap
             | 7 => NEllipsis | 8 => NUnknown | _ => NOther end.

Definition sexp_of_node (n : node) : sexp := L [of_N (nkind_idx (nk n)); of_text (ntext n)].

Definition unmodelled : sexp := L [A (-998)].

(* run:  (0 (linelen maxlines linebreakok) ctx expr) -> (complete lw_mutated fuel_ok (nodes))
         (1 ctx expr)  -> ((tokens) readback_ok (readback-tree | ()) lexable)   readback_ok: read (pp e) = Some (norm e)
         (2 (tokens))  -> (tree) | ()                                      the spec reader alone (spec validation)
         (3 text)      -> ((tokens)) | ()                                  the spec tokenizer alone
         (4 (linelen maxlines linebreakok) call-expr oracle) -> like 0        a call to re.compile displayed on its own;
                        oracle: () = the regex colouriser raised, (((text kind) ...)) = its _output calls *)
Definition run (s : sexp) : sexp :=
  match to_N (nth_s 0 s) with
  | 0 =>
    let ps := nth_s 1 s in
    let p := Params (to_N (nth_s 0 ps)) (to_N (nth_s 1 ps)) (to_bool (nth_s 2 ps)) in
    match expr_of_sexp (sexp_depth (nth_s 3 s)) (nth_s 3 s) with
    | None => bad_input
    | Some e =>
      if negb (modelled e) then unmodelled else
      let c := colorize p (compile (pctx_of_N (to_N (nth_s 2 s))) e) in
      L [of_bool (c_complete c); of_bool (c_lw_mutated c); of_bool (c_fuel_ok c); L (map sexp_of_node (c_nodes c))]
    end
  | 1 =>
    match expr_of_sexp (sexp_depth (nth_s 2 s)) (nth_s 2 s) with
    | None => bad_input
    | Some e =>
      if negb (modelled e) then unmodelled else
      let ts := pp (pctx_of_N (to_N (nth_s 1 s))) e in
      let r := read ts in
      L [L (map sexp_of_token ts);
         of_bool (match r with Some e' => expr_eqb e' (norm e) | None => false end);
         match r with Some e' => L [sexp_of_expr e'] | None => L [] end;
         of_bool (lexable e)]
    end
  | 2 =>
    match all_some (map token_of_sexp (to_list (nth_s 1 s))) with
    | None => bad_input
    | Some ts => match read ts with Some e => L [sexp_of_expr e] | None => L [] end
    end
  | 4 =>
    let ps := nth_s 1 s in
    let p := Params (to_N (nth_s 0 ps)) (to_N (nth_s 1 ps)) (to_bool (nth_s 2 ps)) in
    match expr_of_sexp (sexp_depth (nth_s 2 s)) (nth_s 2 s) with
    | Some (ECall f args kws) =>
      if negb (is_re_compile f) || negb (forallb modelled args && forallb (fun kw : option text * expr => modelled (snd kw)) kws)
      then unmodelled else
      let oracle := match to_list (nth_s 3 s) with
                    | [] => ReRaised
                    | x :: _ => RePieces (map (fun tk => (to_text (nth_s 0 tk), nkind_of_N (to_N (nth_s 1 tk)))) (to_list x))
                    end in
      let c := colorize p (re_cmd oracle f args kws) in
      L [of_bool (c_complete c); of_bool (c_lw_mutated c); of_bool (c_fuel_ok c); L (map sexp_of_node (c_nodes c))]
    | _ => bad_input
    end
  | 3 =>
    match tokenize (to_text (nth_s 1 s)) with
    | Some ts => L [L (map sexp_of_token ts)]
    | None => L []
    end
  | _ => bad_input
  end.
