(* Model/NamesIR.v -- a small deep-embedded expression/statement language, large enough for the bodies of
   pydoctor/model.py : Documentable.expandName, Module._localNameToFullName, Class._localNameToFullName, Class.find,
   and its interpreter over the state of Model/Names.v.  Gen/NamesCode.v (written by harness/gen/gen_c04_code.py on
   every run, fail-closed) holds those bodies translated statement by statement from the CURRENT source;
   Proofs/NamesIRProofs.v proves that interpreting them is Model/Names.v (l2f / find_member / expand_name).
   Definitions only.

   Data.  A Python str that is a (possibly dotted) name is a path; one segment is a singleton path (identifiers never
   contain '.', the standing convention of Base/ImportSyntax.v), so `s.split('.')`, `'.'.join(l)`, f'{a}.{b}' and
   `==` on such strings are list operations.  A Documentable reference is the object record of the registry.

   Primitive (not translated; their modelled meaning is the stated assumption):
     self.contents / x.contents            the registered objects one level below x (Model/Names.v `child`)
     x._localNameToFullName_map            the alias map o_amap
     x.fullName()                          o_path;  x.parent = the object registered under the parent full name
     self.system.objForFullName(s)         obj_for (allobjects.get)
     isinstance(x, Class)                  o_kind = KClass
     bool(x) for a Documentable x          True (Documentable defines neither __bool__ nor __len__)
     self.mro()                            the chain self, base, base of base, ... of resolved base objects (single
                                           inheritance, as everywhere in Model/Names.v; C3 is C05's subject)
     d.get(k, default) on a dict           d[k] if k in d else default  (default is a side-effect free expression here)
     a local bound to self.contents / x._localNameToFullName_map is the same dict (nothing mutates it in these bodies)
     next((e2 for y in (e1 for x in L) if c), default)   the for loop over L with an early return (the stages are
                                           side-effect free and pulled one element at a time)
     method calls x._localNameToFullName(p), x.find(p) on another object: parameters [call_l2f], [call_find] of the
       interpreter, instantiated in the theorems with the model functions -- each callee has its own obligation
       (Inheritable._localNameToFullName, i.e. Function objects, is pinned by the translator, not translated). *)
From Coq Require Import ZArith NArith List Bool.
From PydoctorVerif Require Import Base.ImportSyntax Model.Names.
Import ListNotations.

Inductive ival :=
| VNone
| VBool (b : bool)
| VInt (z : Z)
| VStr (p : path)
| VObjV (o : obj)
| VList (l : list ival).

Definition var := nat.

Inductive iexpr :=
| EConst (v : ival)
| EVar (x : var)
| ESelf                                   (* self *)
| EName                                   (* the parameter `name` *)
| ESplit (e : iexpr)                       (* e.split('.') *)
| EIndex (l i : iexpr)                     (* l[i] on a list *)
| ESliceFrom (l i : iexpr)                 (* l[i:] *)
| ELen (l : iexpr)                         (* len(l) *)
| ESingleton (e : iexpr)                   (* [e] *)
| EConcat (a b : iexpr)                    (* list + list *)
| EAddI (a b : iexpr)                      (* int + int *)
| EEq (a b : iexpr) | ENe (a b : iexpr) | ELt (a b : iexpr)
| EIsNone (e : iexpr) | EIsNotNone (e : iexpr)
| ENot (e : iexpr) | EAnd (a b : iexpr) | EOr (a b : iexpr)
| EIsClass (e : iexpr)                     (* isinstance(e, Class) *)
| EL2F (o p : iexpr)                       (* o._localNameToFullName(p) *)
| EFind (o p : iexpr)                      (* o.find(p) *)
| EMro (o : iexpr)                         (* o.mro() *)
| EFullName (o : iexpr)                    (* o.fullName() *)
| EParent (o : iexpr)                      (* o.parent *)
| EObjFor (e : iexpr)                      (* self.system.objForFullName(e) *)
| EInContents (o p : iexpr)                (* p in o.contents *)
| EContentsIdx (o p : iexpr)               (* o.contents[p] *)
| EContentsGet (o p : iexpr)               (* o.contents.get(p) *)
| EInAmap (o p : iexpr)                    (* p in o._localNameToFullName_map *)
| EAmapIdx (o p : iexpr)                   (* o._localNameToFullName_map[p] *)
| EDot (a b : iexpr)                       (* f'{a}.{b}' *)
| EJoin (l : iexpr)                        (* '.'.join(l) *)
| ECond (c a b : iexpr)                    (* a if c else b ; also the normal form of d.get(k, default) *)
| EPair (a b : iexpr).                     (* the tuple (a, b), as returned by a helper *)

Inductive istmt :=
| SSkip
| SSeq (a b : istmt)
| SAssign (x : var) (e : iexpr)
| SIf (e : iexpr) (a b : istmt)
| SFor (i : option var) (x : var) (e : iexpr) (body : istmt)   (* for x in e / for i, x in enumerate(e) *)
| SWhile (e : iexpr) (body : istmt)
| SBreak | SContinue
| SReturn (e : iexpr)
| SCall (targets : list var) (callee : istmt) (args : list iexpr).
    (* t1[, t2] = helper(args) : a module-level helper function of model.py, translated like the methods; its
       parameters are its locals 0, 1, ... ; a tuple result is unpacked into the targets *)

Definition env := var -> option ival.
Definition env0 : env := fun _ => None.
Definition setv (en : env) (x : var) (v : ival) : env := fun y => if Nat.eqb x y then Some v else en y.

Definition truthy (v : ival) : bool :=
  match v with
  | VNone => false
  | VBool b => b
  | VInt z => negb (Z.eqb z 0)
  | VStr p => match p with [] => false | _ => true end
  | VObjV _ => true
  | VList l => match l with [] => false | _ => true end
  end.

(* == on the values these bodies compare (strings, ints, None, bools); objects are never compared *)
Definition veq (a b : ival) : bool :=
  match a, b with
  | VNone, VNone => true
  | VBool x, VBool y => Bool.eqb x y
  | VInt x, VInt y => Z.eqb x y
  | VStr x, VStr y => path_eqb x y
  | _, _ => false
  end.

Definition split_dots (p : path) : list ival :=
  match p with [] => [VStr []] | _ => map (fun n => VStr [n]) p end.

Fixpoint join_dots (l : list ival) : option path :=
  match l with
  | [] => Some []
  | VStr p :: l' => match join_dots l' with Some q => Some (p ++ q) | None => None end
  | _ :: _ => None
  end.

Definition of_opt_obj (o : option obj) : ival := match o with Some x => VObjV x | None => VNone end.

(* the chain Class.mro() returns under single inheritance *)
Fixpoint mro_chain (fuel : nat) (st : state) (c : obj) : list obj :=
  c :: match fuel with
       | O => []
       | S f => match o_baseobj c with
                | Some b => match by_id st b with
                            | Some bo => mro_chain f st bo
                            | None => []
                            end
                | None => []
                end
       end.

(* what running a statement yields; RError = a Python exception or a ival of the wrong type *)
Inductive res :=
| RNormal (en : env)
| RBreak (en : env)
| RContinue (en : env)
| RReturn (v : ival)
| RError
| ROutOfFuel.

Section Interp.
  Variable st : state.
  Variable self : obj.
  Variable arg : ival.                       (* the argument `name` *)
  Variable call_l2f : obj -> name -> path.
  Variable call_find : obj -> name -> option obj.
  Variable call_mro : obj -> list obj.

  Definition seg (v : ival) : option name := match v with VStr [n] => Some n | _ => None end.

  Fixpoint eval (en : env) (e : iexpr) : option ival :=
    match e with
    | EConst v => Some v
    | EVar x => en x
    | ESelf => Some (VObjV self)
    | EName => Some arg
    | ESplit a => match eval en a with Some (VStr p) => Some (VList (split_dots p)) | _ => None end
    | EIndex l i =>
      match eval en l, eval en i with
      | Some (VList vs), Some (VInt z) => if Z.ltb z 0 then None else nth_error vs (Z.to_nat z)
      | _, _ => None
      end
    | ESliceFrom l i =>
      match eval en l, eval en i with
      | Some (VList vs), Some (VInt z) => if Z.ltb z 0 then None else Some (VList (skipn (Z.to_nat z) vs))
      | _, _ => None
      end
    | ELen l => match eval en l with Some (VList vs) => Some (VInt (Z.of_nat (length vs))) | _ => None end
    | ESingleton a => match eval en a with Some v => Some (VList [v]) | None => None end
    | EConcat a b =>
      match eval en a, eval en b with
      | Some (VList x), Some (VList y) => Some (VList (x ++ y))
      | _, _ => None
      end
    | EAddI a b =>
      match eval en a, eval en b with Some (VInt x), Some (VInt y) => Some (VInt (x + y)) | _, _ => None end
    | EEq a b => match eval en a, eval en b with Some x, Some y => Some (VBool (veq x y)) | _, _ => None end
    | ENe a b => match eval en a, eval en b with Some x, Some y => Some (VBool (negb (veq x y))) | _, _ => None end
    | ELt a b =>
      match eval en a, eval en b with Some (VInt x), Some (VInt y) => Some (VBool (Z.ltb x y)) | _, _ => None end
    | EIsNone a => match eval en a with Some VNone => Some (VBool true) | Some _ => Some (VBool false) | None => None end
    | EIsNotNone a => match eval en a with Some VNone => Some (VBool false) | Some _ => Some (VBool true) | None => None end
    | ENot a => match eval en a with Some v => Some (VBool (negb (truthy v))) | None => None end
    | EAnd a b => match eval en a with Some v => if truthy v then eval en b else Some v | None => None end
    | EOr a b => match eval en a with Some v => if truthy v then Some v else eval en b | None => None end
    | EIsClass a =>
      match eval en a with
      | Some (VObjV o) => Some (VBool (kind_eqb (o_kind o) KClass))
      | Some _ => Some (VBool false)
      | None => None
      end
    | EL2F o p =>
      match eval en o, eval en p with
      | Some (VObjV x), Some pv => match seg pv with Some n => Some (VStr (call_l2f x n)) | None => None end
      | _, _ => None
      end
    | EFind o p =>
      match eval en o, eval en p with
      | Some (VObjV x), Some pv => match seg pv with Some n => Some (of_opt_obj (call_find x n)) | None => None end
      | _, _ => None
      end
    | EMro o => match eval en o with Some (VObjV x) => Some (VList (map VObjV (call_mro x))) | _ => None end
    | EFullName o => match eval en o with Some (VObjV x) => Some (VStr (o_path x)) | _ => None end
    | EParent o => match eval en o with Some (VObjV x) => Some (of_opt_obj (parent_of st x)) | _ => None end
    | EObjFor a => match eval en a with Some (VStr q) => Some (of_opt_obj (obj_for st q)) | _ => None end
    | EInContents o p =>
      match eval en o, eval en p with
      | Some (VObjV x), Some pv => match seg pv with Some n => Some (VBool (is_some (child st x n))) | None => None end
      | _, _ => None
      end
    | EContentsIdx o p =>
      match eval en o, eval en p with
      | Some (VObjV x), Some pv =>
        match seg pv with
        | Some n => match child st x n with Some c => Some (VObjV c) | None => None end     (* KeyError *)
        | None => None
        end
      | _, _ => None
      end
    | EContentsGet o p =>
      match eval en o, eval en p with
      | Some (VObjV x), Some pv => match seg pv with Some n => Some (of_opt_obj (child st x n)) | None => None end
      | _, _ => None
      end
    | EInAmap o p =>
      match eval en o, eval en p with
      | Some (VObjV x), Some pv =>
        match seg pv with Some n => Some (VBool (is_some (assoc n (o_amap x)))) | None => None end
      | _, _ => None
      end
    | EAmapIdx o p =>
      match eval en o, eval en p with
      | Some (VObjV x), Some pv =>
        match seg pv with
        | Some n => match assoc n (o_amap x) with Some q => Some (VStr q) | None => None end   (* KeyError *)
        | None => None
        end
      | _, _ => None
      end
    | EDot a b =>
      match eval en a, eval en b with Some (VStr x), Some (VStr y) => Some (VStr (x ++ y)) | _, _ => None end
    | EJoin l =>
      match eval en l with
      | Some (VList vs) => match join_dots vs with Some q => Some (VStr q) | None => None end
      | _ => None
      end
    | ECond c a b => match eval en c with Some v => if truthy v then eval en a else eval en b | None => None end
    | EPair a b => match eval en a, eval en b with Some x, Some y => Some (VList [x; y]) | _, _ => None end
    end.

  Fixpoint eval_list (en : env) (es : list iexpr) : option (list ival) :=
    match es with
    | [] => Some []
    | e :: es' => match eval en e, eval_list en es' with Some v, Some vs => Some (v :: vs) | _, _ => None end
    end.

  Fixpoint bind_params (k : nat) (vs : list ival) (en : env) : env :=
    match vs with [] => en | v :: vs' => bind_params (S k) vs' (setv en k v) end.

  Fixpoint assign_all (en : env) (ts : list var) (vs : list ival) : option env :=
    match ts, vs with
    | [], [] => Some en
    | t :: ts', v :: vs' => assign_all (setv en t v) ts' vs'
    | _, _ => None
    end.

  Definition assign_targets (en : env) (ts : list var) (v : ival) : res :=
    match ts with
    | [t] => RNormal (setv en t v)
    | _ => match v with
           | VList vs => match assign_all en ts vs with Some en' => RNormal en' | None => RError end
           | _ => RError
           end
    end.

  (* for [i,] x in <list>: ... ; the list is evaluated once *)
  Fixpoint for_loop (body : env -> res) (i : option var) (x : var) (k : nat) (l : list ival) (en : env) : res :=
    match l with
    | [] => RNormal en
    | v :: l' =>
      let en1 := match i with Some iv => setv en iv (VInt (Z.of_nat k)) | None => en end in
      match body (setv en1 x v) with
      | RNormal en' | RContinue en' => for_loop body i x (S k) l' en'
      | RBreak en' => RNormal en'
      | r => r
      end
    end.

  (* while <cond>: ... ; at most [k] iterations *)
  Fixpoint while_loop (cond : env -> option ival) (body : env -> res) (k : nat) (en : env) : res :=
    match k with
    | O => ROutOfFuel
    | S k' =>
      match cond en with
      | None => RError
      | Some c =>
        if truthy c then
          match body en with
          | RNormal en' | RContinue en' => while_loop cond body k' en'
          | RBreak en' => RNormal en'
          | r => r
          end
        else RNormal en
      end
    end.

  Fixpoint exec (s : istmt) (fuel : nat) (en : env) {struct s} : res :=
    match s with
    | SSkip => RNormal en
    | SSeq a b => match exec a fuel en with RNormal en' => exec b fuel en' | r => r end
    | SAssign x e => match eval en e with Some v => RNormal (setv en x v) | None => RError end
    | SIf e a b =>
      match eval en e with
      | Some c => if truthy c then exec a fuel en else exec b fuel en
      | None => RError
      end
    | SFor i x e body =>
      match eval en e with
      | Some (VList l) => for_loop (exec body fuel) i x O l en
      | _ => RError
      end
    | SWhile e body => while_loop (fun en' => eval en' e) (exec body fuel) fuel en
    | SBreak => RBreak en
    | SContinue => RContinue en
    | SReturn e => match eval en e with Some v => RReturn v | None => RError end
    | SCall ts callee args =>
      match eval_list en args with
      | Some vs =>
        match exec callee fuel (bind_params O vs env0) with
        | RReturn v => assign_targets en ts v
        | RNormal _ => assign_targets en ts VNone
        | ROutOfFuel => ROutOfFuel
        | _ => RError
        end
      | None => RError
      end
    end.

  (* a function body: falling off the end returns None *)
  Definition run_body (s : istmt) (fuel : nat) : res :=
    match exec s fuel env0 with
    | RNormal _ => RReturn VNone
    | RBreak _ | RContinue _ => RError
    | r => r
    end.
End Interp.
