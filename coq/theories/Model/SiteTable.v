(* Model/SiteTable.v -- types of the LISTING SKELETON of pydoctor's template writer.
   Gen/Listings.v (regenerated from /repo on every run by harness/gen/gen_listings.py) instantiates
   `table_now : table`; Model/Site.v is parameterised by a `table`, so that a listing that loses its
   `isVisible` guard in /repo changes both the executable model and the proof obligation
   `listings_checked` of Props/C11.v / Props/C12.v.  Definitions only. *)
From Coq Require Import List Bool.
Import ListNotations.

(* which collection a producer iterates *)
Inductive domain : Type :=
| DContents      (* X.contents.values()  (also through Module.submodules()) *)
| DAllobjects    (* system.allobjects.values()  (also through System.objectsOfType) *)
| DRootobjects   (* system.rootobjects *)
| DSubclasses    (* cls.subclasses *)
| DInherited     (* util.inherited_members(cls) *)
| DGiven.        (* a list handed in by the caller (ChildTable.children, assembleList's names, the inventory subjects) *)

Definition domain_eqb (a b : domain) : bool :=
  match a, b with
  | DContents, DContents | DAllobjects, DAllobjects | DRootobjects, DRootobjects
  | DSubclasses, DSubclasses | DInherited, DInherited | DGiven, DGiven => true
  | _, _ => false
  end.

Record listing : Type := {
  l_domain : domain;
  l_visible : bool;    (* an `isVisible` test guards the loop *)
  l_nospace : bool     (* a `' ' not in name` test guards the loop (superseded duplicates are skipped) *)
}.

Record table : Type := {
  t_children : listing;          (* pages.CommonPage.children *)
  t_methods : listing;           (* pages.CommonPage.methods *)
  t_pkg_children : listing;      (* pages.PackagePage.children -> Module.submodules *)
  t_pkg_init : listing;          (* pages.PackagePage.packageInitTable *)
  t_pkg_methods : listing;       (* pages.PackagePage.methods *)
  t_table_rows : listing;        (* table.ChildTable.rows *)
  t_unmasked : listing;          (* util.unmasked_attrs *)
  t_sidebar_inherited : listing; (* sidebar.ObjContent._children(inherited=True) *)
  t_sidebar_direct : listing;    (* sidebar.ObjContent._children(inherited=False) *)
  t_modsummary_sub : listing;    (* summary.moduleSummary -> Module.submodules *)
  t_modindex_roots : listing;    (* summary.ModuleIndexPage.stuff *)
  t_index_roots : listing;       (* summary.IndexPage.roots *)
  t_rootclasses : listing;       (* summary.findRootClasses *)
  t_subclasses_from : listing;   (* summary.subclassesFrom *)
  t_nameindex : listing;         (* summary.NameIndexPage.__init__ *)
  t_undocced : listing;          (* summary.UndocumentedSummaryPage.stuff *)
  t_alldocs : listing;           (* search.get_all_documents_flattenable *)
  t_corpus : listing;            (* search.LunrIndexWriter.get_corpus *)
  t_inventory : listing;         (* sphinx.SphinxInventoryWriter._generateContent *)
  t_writer : listing;            (* writer.TemplateWriter._writeDocsFor *)
  t_assemble : listing;          (* pages.assembleList *)
  t_overriding : listing;        (* util.overriding_subclasses *)
  t_taglink_drops_hidden : bool; (* linker.taglink renders only the label of a target that is not visible *)
  t_css_private : bool;          (* util.css_class appends ' private' for a PRIVATE object *)
  t_sidebar_private : bool;      (* sidebar.ContentItem.class_ *)
  t_modsummary_private : bool;   (* summary.moduleSummary *)
  t_search_privacy : bool;       (* the 'privacy' field of search documents *)
  t_row_uses_css : bool;         (* TableRow.class_ = util.css_class(child) *)
  t_child_uses_css : bool        (* FunctionChild/AttributeChild.class_ = 'base' + util.css_class(ob) *)
}.

(* The domain Model/Site.v assumes for each producer, in the order of `listings_of`. *)
Definition listings_of (t : table) : list (listing * domain) := [
  (t_children t, DContents); (t_methods t, DContents); (t_pkg_children t, DContents);
  (t_pkg_init t, DContents); (t_pkg_methods t, DContents); (t_table_rows t, DGiven);
  (t_unmasked t, DContents); (t_sidebar_inherited t, DInherited); (t_sidebar_direct t, DContents);
  (t_modsummary_sub t, DContents); (t_rootclasses t, DAllobjects); (t_subclasses_from t, DSubclasses);
  (t_nameindex t, DAllobjects); (t_undocced t, DAllobjects); (t_alldocs t, DAllobjects);
  (t_corpus t, DAllobjects); (t_inventory t, DContents); (t_writer t, DContents);
  (t_assemble t, DGiven); (t_overriding t, DSubclasses);
  (t_modindex_roots t, DRootobjects); (t_index_roots t, DRootobjects)].   (* filtered since commit 989b1ee *)

Definition producer_ok (p : listing * domain) : bool :=
  l_visible (fst p) && domain_eqb (l_domain (fst p)) (snd p).

(* every listing filters on visibility and iterates what the model assumes *)
Definition table_ok (t : table) : bool :=
  forallb producer_ok (listings_of t).

Definition markers_ok (t : table) : bool :=
  t_css_private t && t_sidebar_private t && t_modsummary_private t && t_search_privacy t
  && t_row_uses_css t && t_child_uses_css t.
