(* Model/DelimRun.v -- wire entry for the interpretation of the translated _OperatorDelimiter.__init__ (Gen/DelimCode.v):
     ((kind idx) sit) -> (discard) | ()      kind 0 unary 1 binary 2 boolean;
     sit: (0) no parent | (1) parent not an expression | (2 u) | (3 b is_right) | (4 o) | (5 cls) | (5 cls p)   *)
From Coq Require Import ZArith NArith List Bool.
From PydoctorVerif Require Import Base.Sexp Base.PyExpr Model.ExprPrint Model.DelimIR Gen.DelimCode.
Import ListNotations.
Local Open Scope N_scope.

Definition opk_of_sexp (s : sexp) : option opk :=
  match to_N (nth_s 0 s) with
  | 0 => option_map OU (unop_of_N (to_N (nth_s 1 s)))
  | 1 => option_map OB (binop_of_N (to_N (nth_s 1 s)))
  | 2 => option_map OO (boolop_of_N (to_N (nth_s 1 s)))
  | _ => None
  end.

Definition sit_of_sexp (s : sexp) : option situation :=
  match to_N (nth_s 0 s) with
  | 0 => Some None
  | 1 => Some (Some PKNotExpr)
  | 2 => option_map (fun u => Some (PKUnary u)) (unop_of_N (to_N (nth_s 1 s)))
  | 3 => option_map (fun b => Some (PKBin b (to_bool (nth_s 2 s)))) (binop_of_N (to_N (nth_s 1 s)))
  | 4 => option_map (fun o => Some (PKBool o)) (boolop_of_N (to_N (nth_s 1 s)))
  | 5 => let c := match to_N (nth_s 1 s) with 0 => OExpr | 1 => OKeyword | _ => OComprehension end in
         Some (Some (PKOther c (match to_list s with [_; _; p] => Some (to_N p) | _ => None end)))
  | _ => None
  end.

Definition run (s : sexp) : sexp :=
  match opk_of_sexp (nth_s 0 s), sit_of_sexp (nth_s 1 s) with
  | Some o, Some sit =>
    match init_discard o sit delim_init_code with
    | Some d => L [of_bool d; of_bool (negb (needs_paren (pctx_of sit) o))]
    | None => L []
    end
  | _, _ => bad_input
  end.
