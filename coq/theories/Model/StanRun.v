(* Model/StanRun.v -- the single entry point of the extracted C10 model: run : sexp -> sexp.
   input := ( fn arg )
     0 flatten stan            -> (1 text) | (0)            (0: flattenString fails with an encoding error)
     1 escape_content text     -> text
     2 escape_attr text        -> text
     3 Spec.Xml.read text      -> (1 forest) | (0)
     4 Spec.Xml.unescape text  -> (1 text) | (0)
     5 docutils encode text    -> text
     6 docutils attval text    -> text
     7 starttag (...)          -> (1 text) | (0)
     8 html2stan text          -> (1 stan) | (0) parse error | (2) document path
     9 validate_identifier text -> bool
    10 deprecation (name package version (replacement)?) -> (1 text doc breaks) | (0) ValueError
    11 Spec.StanXml.norm stan  -> forest
    12 neutralise text         -> text
    17 the translated code of html2stan (Gen/ReparseCode.v) on text -> as 8, (3) assertion, (4) other
    18 the translated code of deprecatedToUsefulText on (name package version (replacement)?) -> (1 text) | (0) | (4) *)
From Coq Require Import ZArith NArith List Bool.
From PydoctorVerif Require Import Base.Sexp Gen.TablesC10 Model.Stan Model.DocutilsEsc Model.Html2Stan
  Model.DeprecateText Model.ReparseIR Gen.ReparseCode Spec.Xml Spec.StanXml.
Import ListNotations.

Definition some_text (o : option text) : sexp :=
  match o with Some t => L [A 1%Z; of_text t] | None => L [A 0%Z] end.

Definition run (s : sexp) : sexp :=
  let arg := nth_s 1 s in
  match to_Z (nth_s 0 s) with
  | 0%Z => some_text (flatten_outcome (stan_in arg))
  | 1%Z => of_text (escape_content (to_text arg))
  | 2%Z => of_text (escape_attr (to_text arg))
  | 3%Z => match read (to_text arg) with Some f => L [A 1%Z; forest_sexp f] | None => L [A 0%Z] end
  | 4%Z => some_text (unescape (to_text arg))
  | 5%Z => of_text (encode (to_text arg))
  | 6%Z => of_text (attval (to_text arg))
  | 7%Z => some_text (starttag (starttag_of_sexp arg))
  | 8%Z => match html2stan (to_text arg) with
           | H2Ok st => L [A 1%Z; stan_sexp st]
           | H2ParseError => L [A 0%Z]
           | H2Document => L [A 2%Z]
           end
  | 9%Z => of_bool (validate_identifier (to_text arg))
  | 10%Z =>
    let name := to_text (nth_s 0 arg) in
    let package := to_text (nth_s 1 arg) in
    let version := to_text (nth_s 2 arg) in
    let repl := to_option to_text (nth_s 3 arg) in
    match deprecation_text name package version repl with
    | Some t => let doc := deprecation_doc version t in
                L [A 1%Z; of_text t; of_text doc; of_nat (count_breaks doc)]
    | None => L [A 0%Z]
    end
  | 11%Z => forest_sexp (norm (stan_in arg))
  | 12%Z => of_text (neutralise (to_text arg))
  | 17%Z =>
    match run_html2stan code_html2stan (to_text arg) with
    | RReturn (VStan st) => L [A 1%Z; stan_sexp st]
    | RRaise ex => if N.eqb ex ExSAXParse then L [A 0%Z] else L [A 3%Z]
    | _ => L [A 4%Z]
    end
  | 18%Z =>
    match run_deprecate code_deprecate (to_text (nth_s 0 arg)) (to_text (nth_s 1 arg)) (to_text (nth_s 2 arg))
                        (to_option to_text (nth_s 3 arg)) with
    | RReturn (VPair (VStr _) (VStr t)) => L [A 1%Z; of_text t]
    | RRaise ex => if N.eqb ex ExValueError then L [A 0%Z] else L [A 3%Z]
    | _ => L [A 4%Z]
    end
  | _ => bad_input
  end.
