(* Model/Msg.v -- pydoctor/model.py : System.msg (thresh / topthresh / once / verbosity, the
   `violations` counter, what is printed), and pydoctor/driver.py : the exit-status tail of main().
   Definitions only.

   Not modelled: `needsnl` / `nonl` / `wantsnl` (whether an extra newline is printed between messages);
   `printed` is the list of message texts handed to print().

       def msg(self, section, msg, thresh=0, topthresh=100, nonl=False, wantsnl=True, once=False):
           if once:
               if (section, msg) in self.once_msgs: return
               else: self.once_msgs.add((section, msg))
           if thresh < 0:
               self.violations += 1
           if thresh <= self.options.verbosity <= topthresh:
               print(msg) ...                                                                  *)
From Coq Require Import ZArith NArith List Bool.
From PydoctorVerif Require Import Base.Sexp.
Import ListNotations.
Local Open Scope Z_scope.

Fixpoint text_eqb (a b : text) : bool :=
  match a, b with
  | [], [] => true
  | x :: a', y :: b' => N.eqb x y && text_eqb a' b'
  | _, _ => false
  end.

Definition key := (text * text)%type.
Definition key_eqb (a b : key) : bool := text_eqb (fst a) (fst b) && text_eqb (snd a) (snd b).

Record sys_state := {
  once_msgs : list key;        (* a set; insertion order is irrelevant, only membership is used *)
  violations : N;
  printed : list text
}.

Definition init_state : sys_state := {| once_msgs := []; violations := 0; printed := [] |}.

Record call := {
  c_section : text;
  c_msg : text;
  c_thresh : Z;
  c_topthresh : Z;
  c_once : bool
}.

Definition call_key (c : call) : key := (c_section c, c_msg c).

Definition msg (verbosity : Z) (st : sys_state) (c : call) : sys_state :=
  if c_once c && existsb (key_eqb (call_key c)) (once_msgs st) then st
  else
    let once1 := if c_once c then call_key c :: once_msgs st else once_msgs st in
    let viol1 := if c_thresh c <? 0 then (violations st + 1)%N else violations st in
    let printed1 :=
      if (c_thresh c <=? verbosity) && (verbosity <=? c_topthresh c)
      then printed st ++ [c_msg c] else printed st in
    {| once_msgs := once1; violations := viol1; printed := printed1 |}.

Definition msgs (verbosity : Z) (st : sys_state) (cs : list call) : sys_state :=
  fold_left (msg verbosity) cs st.

(* ---- System.parse_errors : Dict[str, Set[str]]  (section -> full names) ---------------------- *)
Definition parse_errors := list (text * list text).

Fixpoint pe_lookup (sec : text) (pe : parse_errors) : list text :=
  match pe with
  | [] => []
  | (s, names) :: r => if text_eqb s sec then names else pe_lookup sec r
  end.

Fixpoint pe_add (sec name : text) (pe : parse_errors) : parse_errors :=
  match pe with
  | [] => [(sec, [name])]
  | (s, names) :: r => if text_eqb s sec then (s, names ++ [name]) :: r else (s, names) :: pe_add sec name r
  end.

Definition nonempty {X} (l : list X) : bool := match l with [] => false | _ => true end.

(* ---- driver.main, after make(system) ------------------------------------------------------------
        docstring_syntax_errors = system.parse_errors['docstring']
        if docstring_syntax_errors:
            exitcode = 2
            def p(msg): system.msg('docstring-summary', msg, thresh=-1, topthresh=1)
            p("these %s objects' docstrings contain syntax errors:" % (len(docstring_syntax_errors),))
            for fn in sorted(docstring_syntax_errors): p('    '+fn)
        elif any(system.parse_errors.values()):
            exitcode = 2
        if system.violations and options.warnings_as_errors:
            exitcode = 3
   The text of the summary header is produced by the caller of the model (`header`); the names are
   printed in the order given (the harness compares the summary lines as a sorted list). *)
Definition sec_docstring : text := [100;111;99;115;116;114;105;110;103]%N.             (* "docstring" *)
Definition sec_summary : text :=
  [100;111;99;115;116;114;105;110;103;45;115;117;109;109;97;114;121]%N.                (* "docstring-summary" *)

Definition summary_call (m : text) : call :=
  {| c_section := sec_summary; c_msg := m; c_thresh := -1; c_topthresh := 1; c_once := false |}.

Definition main_tail (verbosity : Z) (warnings_as_errors : bool) (header : text)
           (st : sys_state) (pe : parse_errors) : Z * sys_state :=
  let dse := pe_lookup sec_docstring pe in
  let '(code, st1) :=
    if nonempty dse then
      (2, msgs verbosity st (summary_call header :: map (fun fn => summary_call ([32;32;32;32]%N ++ fn)) dse))
    else if existsb (fun e => nonempty (snd e)) pe then (2, st)
    else (0, st) in
  if negb (N.eqb (violations st1) 0) && warnings_as_errors then (3, st1) else (code, st1).
