(* Model/LinesIR.v -- a small deep-embedded expression/statement language, large enough for the bodies of
     pydoctor/model.py            : Documentable.report
     pydoctor/epydoc/docutils.py  : get_lineno (with its nested helper, or written as a loop)
     pydoctor/epydoc2stan.py      : reportErrors
   and its interpreter.  Gen/LinesCode.v (written by harness/gen/gen_c16_code.py on every run, fail-closed) holds those
   bodies translated statement by statement from the CURRENT source; Proofs/LinesIRProofs.v proves that interpreting them
   is the hand-written Model/Lines.v, for all inputs.  Definitions only.

   What is primitive (stated assumptions, not translated):
     integers            Python int + - and comparison = Z ; truth value of an int = (z <> 0)
     strings             str.find / str.index / `in` = Lines.find_sub ; s[:i].count('\n') = s.count('\n', 0, i) =
                         count_nl (firstn i s) for 0 <= i ; f-string formatting of an int = Lines.show_Z, of a str = the str
     s.partition(sub) = (text before the first occurrence | all of s, sub | '', ...) via Lines.find_sub; s.count('\n') = count_nl
     a helper called with its own arguments sees them first, then (nested helper) the parameters of the enclosing function
     `x or y`, `x and y` return an operand (Python semantics), `not`, `is`/`is not` on None and on objects by identity
     self.<attr>         docstring_lineno, linenumber (ints; LineFromAst is an int subclass without __add__ of its own),
                         description (str), `self.module is self` (object identity; module read from Lines.o_is_module)
     node.line / .rawsource / .parent of a docutils node: Lines.dnode, a missing or zero line is 0 (only its truth value
                         and, when true, its integer value are used); a node without parent has parent None
     self.system.msg(section, text, thresh=..)   emits one Msg.call (topthresh=100, once=False: the defaults of System.msg,
                         pinned by the translator)
     err.linenum(), err.descr(), obj.fullName(), system.parse_errors[section] (a set: `in`, `.add`) for reportErrors
   A value of the wrong kind for an operation, a `raise`-ing primitive (index of a missing substring) and running out of
   fuel all give None ("stuck"); the theorems show Some. *)
From Coq Require Import ZArith NArith List Bool.
From PydoctorVerif Require Import Base.Sexp Spec.CleanDoc Model.Msg Model.Lines.
Import ListNotations.
Local Open Scope Z_scope.

Inductive value :=
| VInt (z : Z) | VStr (t : text) | VBool (b : bool) | VNone
| VObj (id : N)                      (* 0 = self, 1 = another Documentable *)
| VNode (chain : list dnode)         (* a docutils node followed by its ancestors, innermost first; never [] *)
| VErr (i : nat)                     (* the i-th ParseError of `errs` *)
| VList (n : nat).                   (* the list `errs` itself (only its length matters) *)

Definition var := N.

Inductive attr :=
| ADocstringLineno | ALinenumber | ADescription | AModule     (* of a Documentable *)
| ALine | ARawsource | AParent.                               (* of a docutils node *)

Inductive expr :=
| EConst (v : value)
| EVar (x : var)
| EParam (i : nat)
| ESelf
| EAttr (a : attr) (e : expr)
| EIs (a b : expr) | EIsNot (a b : expr)
| ENot (a : expr) | EAnd (a b : expr) | EOr (a b : expr)
| EIfExp (c a b : expr)
| EAdd (a b : expr) | ESub (a b : expr)
| EEq (a b : expr) | ENe (a b : expr)
| EInStr (sub s : expr)                    (* sub in s, both strings *)
| EInTuple (a : expr) (items : list text)  (* a in ('x', 'y') *)
| EIndex (s sub : expr)                    (* s.index(sub): stuck when absent *)
| EFind (s sub : expr)                     (* s.find(sub): -1 when absent *)
| ECountNlPrefix (s i : expr)              (* s[:i].count('\n') / s.count('\n', 0, i) *)
| EFormat (parts : list expr)              (* f'...': literal pieces are string constants *)
| EPartBefore (s sub : expr)               (* s.partition(sub)[0]: the text before the first sub, all of s if absent *)
| EPartFound (s sub : expr)                (* s.partition(sub)[1]: sub if it occurs in s, else '' *)
| ECountNl (s : expr)                      (* s.count('\n') *)
| ECallLocal (args : list expr)            (* the helper function (nested, or a private function of the same module) *)
| EErrLinenum (e : expr) | EErrDescr (e : expr)   (* err.linenum(), err.descr() *)
| EFullName (e : expr)                     (* obj.fullName() *)
| EInErrors (name : expr) (section : expr).    (* name in system.parse_errors[section] *)

Inductive stmt :=
| SSkip
| SSeq (a b : stmt)
| SAssign (x : var) (e : expr)
| SIf (c : expr) (th el : stmt)
| SWhile (c : expr) (body : stmt)
| SReturn (e : expr)
| SMsg (section text thresh : expr)              (* self.system.msg(section, text, thresh=thresh) *)
| SReport (target descr section offset : expr)   (* target.report(descr, lineno_offset=offset, section=section) *)
| SAddError (name section : expr)                (* system.parse_errors[section].add(name) *)
| SForErrs (x : var) (body : stmt).              (* for x in errs: body *)

Definition env := var -> value.
Definition env0 : env := fun _ => VNone.
Definition set (e : env) (x : var) (v : value) : env := fun y => if N.eqb x y then v else e y.

Definition truthy (v : value) : bool :=
  match v with
  | VInt z => negb (z =? 0)
  | VStr t => match t with [] => false | _ => true end
  | VBool b => b
  | VNone => false
  | VObj _ | VNode _ | VErr _ => true
  | VList n => negb (Nat.eqb n 0)
  end.

Definition is_same (a b : value) : option bool :=
  match a, b with
  | VNone, VNone => Some true
  | VObj i, VObj j => Some (N.eqb i j)
  | VNone, _ | _, VNone => Some false                (* `x is None` for any value that is not None *)
  | _, _ => None
  end.

Definition str_of (v : value) : option text :=
  match v with VInt z => Some (show_Z z) | VStr t => Some t | _ => None end.

Definition bind {A B} (x : option A) (f : A -> option B) : option B :=
  match x with Some a => f a | None => None end.
Notation "'do' x <- a ; b" := (bind a (fun x => b)) (at level 200, x name, a at level 100, b at level 200).

(* the world a function body runs in *)
Record world := {
  w_self : obj;                          (* the Documentable `self` / `obj` *)
  w_params : list value;
  w_errs : list perr;                    (* the ParseErrors of `errs` *)
  w_pe : parse_errors                    (* system.parse_errors *)
}.

Inductive outcome := ONormal | OReturn (v : value).
(* effects: the msg() calls made, the names added to parse_errors *)
Inductive effect := FxMsg (c : call) | FxAdd (sec name : text).
Definition res := option (list effect * env * outcome).

(* `while cond: body` with fuel *)
Fixpoint while_loop (cond : env -> option value) (body : env -> res) (n : nat) (e0 : env) (acc : list effect) : res :=
  match n with
  | O => None
  | S n' =>
    do v <- cond e0;
    if truthy v then
      do r <- body e0;
      let '(fx, e1, o) := r in
      match o with
      | ONormal => while_loop cond body n' e1 (acc ++ fx)
      | OReturn _ => Some (acc ++ fx, e1, o)
      end
    else Some (acc, e0, ONormal)
  end.

(* `for x in errs: body` : i = index of the next error, k = how many are left *)
Fixpoint for_loop (x : var) (body : env -> res) (i k : nat) (e0 : env) (acc : list effect) : res :=
  match k with
  | O => Some (acc, e0, ONormal)
  | S k' =>
    do r <- body (set e0 x (VErr i));
    let '(fx, e1, o) := r in
    match o with
    | ONormal => for_loop x body (S i) k' e1 (acc ++ fx)
    | OReturn _ => Some (acc ++ fx, e1, o)
    end
  end.

Section Exec.
  Variable W : world.
  Variable call_local : list value -> option value.  (* the helper, knot tied outside *)
  Variable loop_fuel : nat.

  Definition eval_attr (a : attr) (v : value) : option value :=
    match a, v with
    | ADocstringLineno, VObj 0%N => Some (VInt (o_docstring_lineno (w_self W)))
    | ALinenumber, VObj 0%N => Some (VInt (o_linenumber (w_self W)))
    | ADescription, VObj 0%N => Some (VStr (o_description (w_self W)))
    | AModule, VObj 0%N => Some (VObj (if o_is_module (w_self W) then 0 else 1))
    | ALine, VNode (n :: _) => Some (VInt (n_line n))
    | ARawsource, VNode (n :: _) => Some (VStr (n_raw n))
    | AParent, VNode (_ :: rest) => Some (match rest with [] => VNone | _ => VNode rest end)
    | _, _ => None
    end.

  Fixpoint eval (e : env) (x : expr) : option value :=
    match x with
    | EConst v => Some v
    | EVar y => Some (e y)
    | EParam i => nth_error (w_params W) i
    | ESelf => Some (VObj 0)
    | EAttr a b => do v <- eval e b; eval_attr a v
    | EIs a b => do u <- eval e a; do v <- eval e b; do r <- is_same u v; Some (VBool r)
    | EIsNot a b => do u <- eval e a; do v <- eval e b; do r <- is_same u v; Some (VBool (negb r))
    | ENot a => do u <- eval e a; Some (VBool (negb (truthy u)))
    | EAnd a b => do u <- eval e a; if truthy u then eval e b else Some u
    | EOr a b => do u <- eval e a; if truthy u then Some u else eval e b
    | EIfExp c a b => do u <- eval e c; if truthy u then eval e a else eval e b
    | EAdd a b => do u <- eval e a; do v <- eval e b;
                  match u, v with
                  | VInt p, VInt q => Some (VInt (p + q))
                  | VStr p, VStr q => Some (VStr (p ++ q))
                  | _, _ => None
                  end
    | ESub a b => do u <- eval e a; do v <- eval e b;
                  match u, v with VInt p, VInt q => Some (VInt (p - q)) | _, _ => None end
    | EEq a b => do u <- eval e a; do v <- eval e b;
                 match u, v with
                 | VInt p, VInt q => Some (VBool (p =? q))
                 | VStr p, VStr q => Some (VBool (text_eqb p q))
                 | _, _ => None
                 end
    | ENe a b => do u <- eval e a; do v <- eval e b;
                 match u, v with
                 | VInt p, VInt q => Some (VBool (negb (p =? q)))
                 | VStr p, VStr q => Some (VBool (negb (text_eqb p q)))
                 | _, _ => None
                 end
    | EInStr a b => do u <- eval e a; do v <- eval e b;
                    match u, v with
                    | VStr p, VStr q => Some (VBool (match find_sub p q with Some _ => true | None => false end))
                    | _, _ => None
                    end
    | EInTuple a items => do u <- eval e a;
                          match u with VStr p => Some (VBool (existsb (text_eqb p) items)) | _ => None end
    | EIndex s b => do u <- eval e s; do v <- eval e b;
                    match u, v with
                    | VStr q, VStr p => match find_sub p q with Some i => Some (VInt (Z.of_nat i)) | None => None end
                    | _, _ => None
                    end
    | EFind s b => do u <- eval e s; do v <- eval e b;
                   match u, v with
                   | VStr q, VStr p => Some (VInt (match find_sub p q with Some i => Z.of_nat i | None => -1 end))
                   | _, _ => None
                   end
    | ECountNlPrefix s i => do u <- eval e s; do v <- eval e i;
                            match u, v with
                            | VStr q, VInt k => if k <? 0 then None else Some (VInt (count_nl (firstn (Z.to_nat k) q)))
                            | _, _ => None
                            end
    | EFormat parts =>
        match (fix go (ps : list expr) : option text :=
                 match ps with
                 | [] => Some []
                 | x' :: r => do v <- eval e x'; do t <- str_of v; do rest <- go r; Some (t ++ rest)
                 end) parts with
        | Some t => Some (VStr t)
        | None => None
        end
    | EPartBefore s b => do u <- eval e s; do v <- eval e b;
                         match u, v with
                         | VStr q, VStr p => Some (VStr (match find_sub p q with Some i => firstn i q | None => q end))
                         | _, _ => None
                         end
    | EPartFound s b => do u <- eval e s; do v <- eval e b;
                        match u, v with
                        | VStr q, VStr p => Some (VStr (match find_sub p q with Some _ => p | None => [] end))
                        | _, _ => None
                        end
    | ECountNl s => do u <- eval e s; match u with VStr q => Some (VInt (count_nl q)) | _ => None end
    | ECallLocal args =>
        match (fix go (xs : list expr) : option (list value) :=
                 match xs with
                 | [] => Some []
                 | x' :: r => do v <- eval e x'; do rest <- go r; Some (v :: rest)
                 end) args with
        | Some vs => call_local vs
        | None => None
        end
    | EErrLinenum a => do u <- eval e a;
                       match u with
                       | VErr i => do pe <- nth_error (w_errs W) i;
                                   Some (match perr_linenum pe with Some z => VInt z | None => VNone end)
                       | _ => None
                       end
    | EErrDescr a => do u <- eval e a;
                     match u with VErr i => do pe <- nth_error (w_errs W) i; Some (VStr (pe_descr pe)) | _ => None end
    | EFullName a => do u <- eval e a; match u with VObj 0%N => Some (VStr (o_fullname (w_self W))) | _ => None end
    | EInErrors n s => do u <- eval e n; do v <- eval e s;
                       match u, v with
                       | VStr name, VStr sec => Some (VBool (existsb (text_eqb name) (pe_lookup sec (w_pe W))))
                       | _, _ => None
                       end
    end.

  Definition as_str (v : value) : option text := match v with VStr t => Some t | _ => None end.
  Definition as_int (v : value) : option Z := match v with VInt z => Some z | _ => None end.

  (* target.report(descr, lineno_offset=off, section=sec): Model.Lines.report_call of the same object *)
  Definition do_report (target descr sec off : value) : option (list effect) :=
    match target, descr, sec, off with
    | VObj 0%N, VStr d, VStr s, VInt k => Some [FxMsg (report_call (w_self W) d s k (-1))]
    | _, _, _, _ => None
    end.

  Fixpoint exec (s : stmt) (e : env) : res :=
    match s with
    | SSkip => Some ([], e, ONormal)
    | SSeq a b =>
        do r <- exec a e;
        let '(fx, e1, o) := r in
        match o with
        | ONormal => do r2 <- exec b e1; let '(fx2, e2, o2) := r2 in Some (fx ++ fx2, e2, o2)
        | OReturn _ => Some r
        end
    | SAssign x a => do v <- eval e a; Some ([], set e x v, ONormal)
    | SIf c th el => do v <- eval e c; if truthy v then exec th e else exec el e
    | SWhile c body => while_loop (fun e0 => eval e0 c) (exec body) loop_fuel e []
    | SReturn a => do v <- eval e a; Some ([], e, OReturn v)
    | SMsg sec txt th =>
        do s' <- eval e sec; do t <- eval e txt; do h <- eval e th;
        do s'' <- as_str s'; do t' <- as_str t; do h' <- as_int h;
        Some ([FxMsg {| c_section := s''; c_msg := t'; c_thresh := h'; c_topthresh := 100; c_once := false |}], e, ONormal)
    | SReport tg d sec off =>
        do a <- eval e tg; do b <- eval e d; do c <- eval e sec; do k <- eval e off;
        do fx <- do_report a b c k; Some (fx, e, ONormal)
    | SAddError n sec =>
        do a <- eval e n; do b <- eval e sec; do a' <- as_str a; do b' <- as_str b;
        Some ([FxAdd b' a'], e, ONormal)
    | SForErrs x body => for_loop x (exec body) O (length (w_errs W)) e []
    end.
End Exec.

(* a translated function: its body and, if it has one, the body of its nested one-argument helper *)
Record fn := { f_body : stmt; f_helper : option stmt }.

(* the nested helper may call itself: tie the knot on fuel *)
Fixpoint helper_call (W : world) (loop_fuel : nat) (h : stmt) (fuel : nat) (args : list value) : option value :=
  match fuel with
  | O => None
  | S f =>
    match exec {| w_self := w_self W; w_params := args ++ w_params W; w_errs := w_errs W; w_pe := w_pe W |}
               (helper_call W loop_fuel h f) loop_fuel h env0 with
    | Some (_, _, OReturn v) => Some v
    | Some (_, _, ONormal) => Some VNone
    | None => None
    end
  end.

Definition run_fn (W : world) (fuel : nat) (f : fn) : res :=
  exec W (match f_helper f with Some h => helper_call W fuel h fuel | None => fun _ => None end) fuel (f_body f) env0.

(* ---- entry points -------------------------------------------------------------------------------------------- *)
(* Documentable.report(self, descr, section, lineno_offset, thresh) *)
Definition report_ir (f : fn) (o : obj) (descr section : text) (lineno_offset thresh : Z) : res :=
  run_fn {| w_self := o; w_params := [VStr descr; VStr section; VInt lineno_offset; VInt thresh]; w_errs := []; w_pe := [] |}
         1 f.

(* get_lineno(node) *)
Definition dummy_obj : obj :=
  {| o_description := []; o_fullname := []; o_docstring_lineno := 0; o_linenumber := 0; o_is_module := false |}.
Definition get_lineno_ir (f : fn) (node : dnode) (ancs : list dnode) : res :=
  run_fn {| w_self := dummy_obj; w_params := [VNode (node :: ancs)]; w_errs := []; w_pe := [] |}
         (S (S (length ancs))) f.

(* reportErrors(obj, errs, section) *)
Definition report_errors_ir (f : fn) (o : obj) (errs : list perr) (section : text) (pe : parse_errors) : res :=
  run_fn {| w_self := o; w_params := [VObj 0; VList (length errs); VStr section]; w_errs := errs; w_pe := pe |} 1 f.

(* what a caller observes *)
Definition effects_of (r : res) : option (list effect) :=
  match r with Some (fx, _, _) => Some fx | None => None end.
Definition returned (r : res) : option value :=
  match r with Some (_, _, OReturn v) => Some v | Some (_, _, ONormal) => Some VNone | None => None end.
