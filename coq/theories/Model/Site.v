(* Model/Site.v -- the SITE pydoctor writes for a registry: which files, which anchors, which links and
   which listing entries, computed from
     - the registry (objects with name, parent, contents in order, kind, privacy class as System.privacyClass
       returned it, class relations mro / subclasses / baseobjects, hasdocstring; rootobjects; allobjects values),
     - the listing skeleton `table` (Model/SiteTable.v, instantiated from /repo by Gen/Listings.v).
   Mirrors: model.Documentable.fullName / isVisible / isPrivate / page_object / url, linker.taglink,
   writer.TemplateWriter._writeDocsFor, pages.CommonPage / PackagePage / ClassPage (children, methods, namespace,
   baseTables/baseName, extras, get_override_info, assembleList), table.ChildTable.rows, util.unmasked_attrs /
   nested_bases / inherited_members / overriding_subclasses / css_class, sidebar.SideBar / ObjContent / ContentItem,
   summary.moduleSummary / findRootClasses / subclassesFrom / NameIndexPage / UndocumentedSummaryPage / IndexPage,
   search.get_all_documents_flattenable / get_corpus, sphinx.SphinxInventoryWriter._generateContent.
   Definitions only; proofs are in Proofs/SiteProofs.v.  Object ids are positions in r_objs. *)
From Coq Require Import NArith ZArith List Bool Arith.
From PydoctorVerif Require Import Base.Sexp Model.SiteTable.
Import ListNotations.
Local Open Scope nat_scope.

(* ------------------------------------------------------------------ text helpers (text = list N) *)
Fixpoint text_eqb (a b : text) : bool :=
  match a, b with
  | [], [] => true
  | x :: a', y :: b' => N.eqb x y && text_eqb a' b'
  | _, _ => false
  end.

Fixpoint starts_with (p s : text) : bool :=
  match p, s with
  | [], _ => true
  | x :: p', y :: s' => N.eqb x y && starts_with p' s'
  | _ :: _, [] => false
  end.

Definition is_nil {X} (l : list X) : bool := match l with [] => true | _ => false end.

Definition c_hash : N := 35%N.     (* '#' *)
Definition c_dot : N := 46%N.      (* '.' *)
Definition c_space : N := 32%N.    (* ' ' *)
Definition f_html : text := [46; 104; 116; 109; 108]%N.                         (* ".html" *)
Definition f_index : text := [105; 110; 100; 101; 120; 46; 104; 116; 109; 108]%N. (* "index.html" *)
Definition f_moduleIndex : text := [109;111;100;117;108;101;73;110;100;101;120;46;104;116;109;108]%N.
Definition f_classIndex : text := [99;108;97;115;115;73;110;100;101;120;46;104;116;109;108]%N.
Definition f_nameIndex : text := [110;97;109;101;73;110;100;101;120;46;104;116;109;108]%N.
Definition f_undocced : text := [117;110;100;111;99;99;101;100;83;117;109;109;97;114;121;46;104;116;109;108]%N.
Definition f_alldocuments : text := [97;108;108;45;100;111;99;117;109;101;110;116;115;46;104;116;109;108]%N.

Definition has_space (t : text) : bool := existsb (N.eqb c_space) t.

(* split an href at its first '#':  (file part, fragment) *)
Fixpoint split_hash (s : text) : text * option text :=
  match s with
  | [] => ([], None)
  | c :: s' => if N.eqb c c_hash then ([], Some s')
               else let (f, fr) := split_hash s' in (c :: f, fr)
  end.

(* what a relative href found on page `cur` denotes *)
Definition resolve (cur href : text) : text * option text :=
  let (f, fr) := split_hash href in ((if is_nil f then cur else f), fr).

(* ------------------------------------------------------------------ registry *)
Inductive privacy : Type := PUBLIC | PRIVATE | HIDDEN.
Inductive okind : Type := KPackage | KModule | KClass | KFunction | KAttribute.

Record obj : Type := {
  o_name : text;
  o_parent : option nat;
  o_contents : list nat;                (* parent.contents.values(), in order *)
  o_kind : okind;
  o_priv : privacy;                     (* System.privacyClass(obj), as the real System computed it (C13's subject) *)
  o_doc : bool;                         (* summary.hasdocstring *)
  o_mro : list nat;                     (* Class.mro(): in-system classes, self first *)
  o_subclasses : list nat;
  o_bases : list (option nat);          (* Class.baseobjects *)
  o_docsource : option nat;             (* epydoc2stan.ensure_parsed_docstring(obj): the object whose docstring is shown
                                           for obj (obj itself, or the base-class member it inherits the docstring from) *)
  o_xrefs : list nat;                   (* ORACLE: the objects _EpydocLinker.link_xref / link_to resolved the cross
                                           references of that docstring (and of its fields) to; any registered object *)
  o_sum_xrefs : list nat;               (* ORACLE: same for the summary (first paragraph) of that docstring *)
  o_linker_page : option nat;           (* the page object the object's docstring linker HOLDS (_EpydocLinker._page_object):
                                           recorded when the linker is created -- possibly while the source is parsed, before a
                                           re-export moves the object -- and never updated; None = no linker yet (page_object) *)
  o_module : option nat                 (* obj.parentMod (Documentable.module); NOT updated for the members of a
                                           re-exported class, so it is an input and not derived from the parent chain *)
}.

Record registry : Type := {
  r_objs : list obj;
  r_roots : list nat;                   (* system.rootobjects *)
  r_all : list nat;                     (* system.allobjects.values() *)
  r_root_names : list text              (* list(system.root_names) *)
}.

Definition get (r : registry) (i : nat) : option obj := nth_error (r_objs r) i.
Definition fuel_of (r : registry) : nat := S (length (r_objs r)).

Definition own_kind (k : okind) : bool :=
  match k with KFunction | KAttribute => false | _ => true end.    (* DocLocation.OWN_PAGE *)
Definition is_module_kind (k : okind) : bool := match k with KPackage | KModule => true | _ => false end.
Definition is_class_kind (k : okind) : bool := match k with KClass => true | _ => false end.
Definition is_hidden (p : privacy) : bool := match p with HIDDEN => true | _ => false end.
Definition is_public (p : privacy) : bool := match p with PUBLIC => true | _ => false end.
Definition is_private_class (p : privacy) : bool := match p with PRIVATE => true | _ => false end.

Definition name_of (r : registry) (i : nat) : text := match get r i with Some o => o_name o | None => [] end.
Definition contents_of (r : registry) (i : nat) : list nat := match get r i with Some o => o_contents o | None => [] end.
Definition parent_of (r : registry) (i : nat) : option nat := match get r i with Some o => o_parent o | None => None end.
Definition kind_of (r : registry) (i : nat) : okind := match get r i with Some o => o_kind o | None => KAttribute end.
(* Documentable.privacyClass = system.privacyClass(self), overridden by Module.privacyClass:
   a module named `__main__` is PRIVATE whatever the rules say *)
Definition t_main : text := [95; 95; 109; 97; 105; 110; 95; 95]%N.      (* "__main__" *)
Definition eff_priv (o : obj) : privacy :=
  if is_module_kind (o_kind o) && text_eqb (o_name o) t_main then PRIVATE else o_priv o.
Definition priv_of (r : registry) (i : nat) : privacy := match get r i with Some o => eff_priv o | None => HIDDEN end.
Definition own_page (r : registry) (i : nat) : bool := own_kind (kind_of r i).

(* Documentable.fullName: None = the fuel ran out or a dangling id *)
Fixpoint fullname_f (fuel : nat) (r : registry) (i : nat) : option text :=
  match fuel with
  | O => None
  | S f =>
    match get r i with
    | None => None
    | Some o =>
      match o_parent o with
      | None => Some (o_name o)
      | Some p => match fullname_f f r p with
                  | Some pn => Some (pn ++ [c_dot] ++ o_name o)
                  | None => None
                  end
      end
    end
  end.
Definition fullname (r : registry) (i : nat) : text :=
  match fullname_f (fuel_of r) r i with Some t => t | None => [] end.

(* Documentable.isVisible *)
Fixpoint visible_f (fuel : nat) (r : registry) (i : nat) : option bool :=
  match fuel with
  | O => None
  | S f =>
    match get r i with
    | None => None
    | Some o =>
      if is_hidden (eff_priv o) then Some false
      else match o_parent o with
           | None => Some true
           | Some p => visible_f f r p
           end
    end
  end.
Definition visible (r : registry) (i : nat) : bool :=
  match visible_f (fuel_of r) r i with Some b => b | None => false end.

(* Documentable.isPrivate *)
Definition is_private (r : registry) (i : nat) : bool := negb (is_public (priv_of r i)).

(* summary.isPrivate: the object or one of its containers is not PUBLIC *)
Fixpoint ctx_private_f (fuel : nat) (r : registry) (i : nat) : bool :=
  match fuel with
  | O => false
  | S f => if is_private r i then true
           else match parent_of r i with None => false | Some p => ctx_private_f f r p end
  end.
Definition ctx_private (r : registry) (i : nat) : bool := ctx_private_f (fuel_of r) r i.

(* ------------------------------------------------------------------ urls (quote = urllib.parse.quote, an oracle) *)
Section WithQuote.
Variable quote : text -> text.

Definition page_obj (r : registry) (i : nat) : option nat :=
  match get r i with
  | None => None
  | Some o => if own_kind (o_kind o) then Some i else o_parent o
  end.

Definition single_root_is (r : registry) (fn : text) : bool :=
  match r_root_names r with [n] => text_eqb n fn | _ => false end.

Definition page_url (r : registry) (p : nat) : text :=
  if single_root_is r (fullname r p) then f_index else quote (fullname r p) ++ f_html.

Definition url (r : registry) (i : nat) : text :=
  match page_obj r i with
  | None => []
  | Some p => if Nat.eqb p i then page_url r p
              else page_url r p ++ [c_hash] ++ quote (name_of r i)
  end.

(* linker.taglink: None = only the label is rendered *)
Definition shorten (ctx u : text) : text :=
  if negb (is_nil ctx) && starts_with (ctx ++ [c_hash]) u then skipn (length ctx) u else u.

Definition taglink (tbl : table) (r : registry) (o : nat) (ctx : text) : option text :=
  if negb (visible r o) && t_taglink_drops_hidden tbl then None
  else Some (shorten ctx (url r o)).

(* the code before commit fd84d91: logs and still builds the <a href> *)
Definition taglink_old (r : registry) (o : nat) (ctx : text) : option text := Some (shorten ctx (url r o)).

(* ------------------------------------------------------------------ listings *)
Definition keep_gen (l : listing) (r : registry) (i : nat) (nm : text) : bool :=
  (negb (l_visible l) || visible r i) && (negb (l_nospace l) || negb (has_space nm)).
Definition keep (l : listing) (r : registry) (i : nat) : bool := keep_gen l r i (name_of r i).

Definition css_private (tbl : table) (r : registry) (i : nat) : bool :=
  t_css_private tbl && is_private_class (priv_of r i).

(* pages.CommonPage.methods / PackagePage.methods *)
Definition methods_of (tbl : table) (r : registry) (p : nat) : list nat :=
  let l := match kind_of r p with KPackage => t_pkg_methods tbl | _ => t_methods tbl end in
  filter (fun c => negb (own_page r c) && keep l r c) (contents_of r p).

(* pages.CommonPage.children / PackagePage.children, then ChildTable.rows *)
Definition children_of (tbl : table) (r : registry) (p : nat) : list nat :=
  match kind_of r p with
  | KPackage => filter (fun c => is_module_kind (kind_of r c) && keep (t_pkg_children tbl) r c) (contents_of r p)
  | _ => filter (keep (t_children tbl) r) (contents_of r p)
  end.
Definition rows_of (tbl : table) (r : registry) (l : list nat) : list nat := filter (keep (t_table_rows tbl) r) l.
Definition pkg_init_of (tbl : table) (r : registry) (p : nat) : list nat :=
  match kind_of r p with
  | KPackage => filter (fun c => negb (is_module_kind (kind_of r c)) && keep (t_pkg_init tbl) r c) (contents_of r p)
  | _ => []
  end.

(* util.nested_bases / unmasked_attrs: for the i-th class b of the mro (i >= 1) with the classes before it *)
Definition mro_of (r : registry) (i : nat) : list nat := match get r i with Some o => o_mro o | None => [] end.
Definition subclasses_of (r : registry) (i : nat) : list nat := match get r i with Some o => o_subclasses o | None => [] end.
Definition bases_of (r : registry) (i : nat) : list (option nat) := match get r i with Some o => o_bases o | None => [] end.

Definition has_member (r : registry) (b : nat) (n : text) : bool :=
  existsb (fun x => text_eqb (name_of r x) n) (contents_of r b).
Definition masked (r : registry) (lower : list nat) (c : nat) : bool :=
  existsb (fun b => has_member r b (name_of r c)) lower.
Fixpoint base_chains (lower : list nat) (rest : list nat) : list (nat * list nat) :=
  match rest with
  | [] => []
  | b :: tl => (b, lower) :: base_chains (b :: lower) tl
  end.
Definition unmasked (tbl : table) (r : registry) (ch : nat * list nat) : list nat :=
  filter (fun c => keep (t_unmasked tbl) r c && negb (masked r (snd ch) c)) (contents_of r (fst ch)).
(* class_members(cls) without the chain (cls,): (base, classes between, attrs) with attrs non-empty *)
Definition base_lists (tbl : table) (r : registry) (c : nat) : list ((nat * list nat) * list nat) :=
  match mro_of r c with
  | [] => []
  | m0 :: rest =>
    filter (fun x => negb (is_nil (snd x))) (map (fun ch => (ch, unmasked tbl r ch)) (base_chains [m0] rest))
  end.
Definition inherited_members (tbl : table) (r : registry) (c : nat) : list nat :=
  flat_map snd (base_lists tbl r c).

(* util.overriding_subclasses *)
Fixpoint overriding (fuel : nat) (tbl : table) (r : registry) (c : nat) (n : text) (firstcall : bool) : list nat :=
  match fuel with
  | O => []
  | S f =>
    if negb firstcall && has_member r c n then [c]
    else flat_map (fun s => overriding f tbl r s n false) (filter (keep (t_overriding tbl) r) (subclasses_of r c))
  end.

(* ------------------------------------------------------------------ entries *)
Record entry : Type := {
  e_page : text;      (* file the entry is rendered on *)
  e_prod : N;         (* producer, see the constants below *)
  e_obj : nat;        (* the object listed / linked to *)
  e_ctx : text;       (* page_url argument handed to taglink *)
  e_private : bool    (* the entry carries the `private` marker *)
}.
Definition P_heading : N := 1.        Definition P_sidebar_title : N := 2.  Definition P_sidebar_item : N := 3.
Definition P_main_table : N := 4.     Definition P_pkginit : N := 5.        Definition P_base_table : N := 6.
Definition P_base_name : N := 7.      Definition P_childlist : N := 8.      Definition P_known_subclasses : N := 9.
Definition P_class_signature : N := 10. Definition P_overrides : N := 11.   Definition P_overridden_in : N := 12.
Definition P_hierarchy : N := 13.     Definition P_sidebar_inherited : N := 14.
Definition P_xref : N := 30.           Definition P_xref_summary : N := 31.
Definition P_module_index : N := 20.  Definition P_class_index : N := 21.   Definition P_name_index : N := 22.
Definition P_undocced : N := 23.      Definition P_index_roots : N := 24.   Definition P_alldocs : N := 25.
Definition P_corpus : N := 26.        Definition P_inventory : N := 27.

Definition mk (page : text) (prod : N) (ctx : text) (priv : bool) (o : nat) : entry :=
  {| e_page := page; e_prod := prod; e_obj := o; e_ctx := ctx; e_private := priv |}.

(* ancestors-or-self, innermost first *)
Fixpoint chain_up (fuel : nat) (r : registry) (i : nat) : list nat :=
  match fuel with
  | O => []
  | S f => i :: match parent_of r i with None => [] | Some p => chain_up f r p end
  end.
(* Documentable.module = self.parentMod *)
Definition module_of (r : registry) (i : nat) : option nat :=
  match get r i with Some o => o_module o | None => None end.

(* sidebar.ObjContent (level = the constructor argument; self._level = level + 1) *)
Fixpoint obj_content (fuel : nat) (tbl : table) (r : registry) (depth level : nat) (page ctx : text)
         (s : nat) : list entry :=
  match fuel with
  | O => []
  | S f =>
    let item c := mk page P_sidebar_item ctx (t_sidebar_private tbl && is_private r c) c in
    let item_inh c := mk page P_sidebar_inherited ctx (t_sidebar_private tbl && is_private r c) c in
    let direct := filter (keep (t_sidebar_direct tbl) r) (contents_of r s) in
    let inh := if is_class_kind (kind_of r s)
               then filter (fun c => negb (own_page r c) && keep (t_sidebar_inherited tbl) r c) (inherited_members tbl r s)
               else [] in
    flat_map (fun c => item c ::
                (if own_page r c && Nat.ltb (S level) depth
                 then obj_content f tbl r depth (S level) page ctx c else [])) direct
    ++ map item_inh inh
  end.

(* pages.get_override_info: the member overridden by `name` in the first class of mro[1:] that has it *)
Definition overridden_member (r : registry) (c : nat) (n : text) : option nat :=
  match find (fun b => has_member r b n) (tl (mro_of r c)) with
  | None => None
  | Some b => find (fun x => text_eqb (name_of r x) n) (rev (contents_of r b))   (* dict lookup: the last binding *)
  end.

Definition opt_list {X} (o : option X) : list X := match o with Some x => [x] | None => [] end.

(* everything rendered on the page of the own-page object p *)
Definition page_entries (tbl : table) (r : registry) (depth : nat) (nosidebar : bool) (p : nat) : list entry :=
  let pg := url r p in
  let own_anc := filter (own_page r) (chain_up (fuel_of r) r p) in
  let sections :=
      p :: (if is_module_kind (kind_of r p) then opt_list (parent_of r p) else opt_list (module_of r p)) in
  let is_cls := is_class_kind (kind_of r p) in
  let bl := if is_cls then base_lists tbl r p else [] in
  let members := methods_of tbl r p in
  map (mk pg P_heading pg false) own_anc
  ++ (if nosidebar then [] else
        map (fun s => mk pg P_sidebar_title (url r s) false s) sections
        ++ flat_map (fun s => obj_content (S depth) tbl r depth 0 pg pg s) sections)
  ++ map (fun c => mk pg P_main_table pg (t_row_uses_css tbl && css_private tbl r c) c) (rows_of tbl r (children_of tbl r p))
  ++ map (fun c => mk pg P_pkginit pg (t_row_uses_css tbl && css_private tbl r c) c) (rows_of tbl r (pkg_init_of tbl r p))
  ++ flat_map (fun x => map (fun c => mk pg P_base_table pg (t_row_uses_css tbl && css_private tbl r c) c)
                            (rows_of tbl r (snd x))) bl
  ++ flat_map (fun x => map (mk pg P_base_name pg false) (fst (fst x) :: removelast (snd (fst x)))) bl
  ++ map (fun c => mk pg P_childlist pg (t_child_uses_css tbl && css_private tbl r c) c) members
  ++ (if is_cls then
        map (mk pg P_known_subclasses pg false) (filter (keep (t_assemble tbl) r) (subclasses_of r p))
        ++ map (mk pg P_class_signature pg false) (flat_map opt_list (bases_of r p))
        ++ flat_map (fun c => map (mk pg P_overrides pg false) (opt_list (overridden_member r p (name_of r c)))) members
        ++ flat_map (fun c => map (mk pg P_overridden_in pg false)
                                  (filter (keep (t_assemble tbl) r) (overriding (fuel_of r) tbl r p (name_of r c) true))) members
        ++ [mk pg P_hierarchy pg false p]
      else []).

(* writer.TemplateWriter._writeDocsFor: the own-page objects a file is written for, in order *)
Fixpoint written_f (fuel : nat) (tbl : table) (r : registry) (i : nat) : list nat :=
  match fuel with
  | O => []
  | S f =>
    if negb (l_visible (t_writer tbl)) || visible r i
    then (if own_page r i then [i] else []) ++ flat_map (written_f f tbl r) (contents_of r i)
    else []
  end.
Definition written (tbl : table) (r : registry) : list nat := flat_map (written_f (fuel_of r) tbl r) (r_roots r).

(* Module.submodules() as summary.moduleSummary uses it *)
Definition submodules_of (tbl : table) (r : registry) (m : nat) : list nat :=
  filter (fun c => is_module_kind (kind_of r c) && keep (t_modsummary_sub tbl) r c) (contents_of r m).

(* summary.moduleSummary: more than 50 submodules, none of which has submodules, are listed in the compact form
   (one <span> per module, linked with page_url = the module's own url) *)
Definition compact_listing (tbl : table) (r : registry) (subs : list nat) : bool :=
  Nat.ltb 50 (length subs) && negb (existsb (fun s => negb (is_nil (submodules_of tbl r s))) subs).

Fixpoint module_summary (fuel : nat) (tbl : table) (r : registry) (m : nat) : list entry :=
  match fuel with
  | O => []
  | S f =>
    mk f_moduleIndex P_module_index f_moduleIndex (t_modsummary_private tbl && is_private r m) m
    :: (match kind_of r m with
        | KPackage =>
          let subs := submodules_of tbl r m in
          if compact_listing tbl r subs
          then map (fun c => mk f_moduleIndex P_module_index (url r c) (t_modsummary_private tbl && is_private r c) c) subs
          else flat_map (module_summary f tbl r) subs
        | _ => []
        end)
  end.

(* summary.findRootClasses + subclassesFrom *)
Definition base_outside (r : registry) (b : option nat) : bool :=
  match b with None => true | Some x => negb (visible r x) end.
Definition is_root_class (tbl : table) (r : registry) (c : nat) : bool :=
  is_class_kind (kind_of r c) && keep (t_rootclasses tbl) r c &&
  (is_nil (bases_of r c) || existsb (base_outside r) (bases_of r c)).
Fixpoint subclasses_from (fuel : nat) (tbl : table) (r : registry) (c : nat) : list nat :=
  match fuel with
  | O => []
  | S f => c :: flat_map (subclasses_from f tbl r)
                  (filter (fun s => keep_gen (t_subclasses_from tbl) r s (fullname r s)) (subclasses_of r c))
  end.
Definition class_index (tbl : table) (r : registry) : list nat :=
  flat_map (subclasses_from (fuel_of r) tbl r) (filter (is_root_class tbl r) (r_all r)).

(* sphinx.SphinxInventoryWriter._generateContent *)
Fixpoint inventory_f (fuel : nat) (tbl : table) (r : registry) (i : nat) : list nat :=
  match fuel with
  | O => []
  | S f => if keep (t_inventory tbl) r i then i :: flat_map (inventory_f f tbl r) (contents_of r i) else []
  end.

Definition multi_root (r : registry) : bool := Nat.ltb 1 (length (r_root_names r)).

Definition summary_entries (tbl : table) (r : registry) : list entry :=
  flat_map (module_summary (fuel_of r) tbl r) (filter (keep (t_modindex_roots tbl) r) (r_roots r))
  ++ map (mk f_classIndex P_class_index f_classIndex false) (class_index tbl r)
  ++ map (fun o => mk f_nameIndex P_name_index f_nameIndex (ctx_private r o) o) (filter (keep (t_nameindex tbl) r) (r_all r))
  ++ map (mk f_undocced P_undocced f_undocced false)
         (filter (fun o => keep (t_undocced tbl) r o && negb match get r o with Some x => o_doc x | None => true end) (r_all r))
  ++ (if multi_root r then map (mk f_index P_index_roots f_index false) (filter (keep (t_index_roots tbl) r) (r_roots r)) else [])
  ++ map (fun o => mk f_alldocuments P_alldocs [] (t_search_privacy tbl && is_private_class (priv_of r o)) o)
         (filter (keep (t_alldocs tbl) r) (r_all r))
  ++ map (mk [] P_corpus [] false) (filter (keep (t_corpus tbl) r) (r_all r))
  ++ map (mk [] P_inventory [] false) (flat_map (inventory_f (fuel_of r) tbl r) (r_roots r)).

(* docstring cross references.  epydoc2stan.format_docstring(i) renders the docstring with the linker of its SOURCE:
   page_url = the url of the source's page; the result is placed on the page of i.  format_summary switches the
   linker context to None: page_url = '' and the url is never shortened. *)
Definition xrefs_of (r : registry) (i : nat) : list nat := match get r i with Some o => o_xrefs o | None => [] end.
Definition sum_xrefs_of (r : registry) (i : nat) : list nat := match get r i with Some o => o_sum_xrefs o | None => [] end.
Definition docsource_of (r : registry) (i : nat) : option nat := match get r i with Some o => o_docsource o | None => None end.
Definition linker_page_of (r : registry) (s : nat) : option nat :=
  match get r s with
  | Some o => match o_linker_page o with Some q => Some q | None => page_obj r s end
  | None => None
  end.
Definition doc_ctx (r : registry) (pg : text) (i : nat) : text :=
  match docsource_of r i with
  | Some s => match linker_page_of r s with Some q => url r q | None => [] end
  | None => pg
  end.

Definition xref_entries (tbl : table) (r : registry) (p : nat) : list entry :=
  let pg := url r p in
  let bl := if is_class_kind (kind_of r p) then base_lists tbl r p else [] in
  flat_map (fun i => map (mk pg P_xref (doc_ctx r pg i) false) (xrefs_of r i)) (p :: methods_of tbl r p)
  ++ flat_map (fun c => map (mk pg P_xref_summary [] false) (sum_xrefs_of r c))
       (rows_of tbl r (children_of tbl r p) ++ rows_of tbl r (pkg_init_of tbl r p)
        ++ flat_map (fun x => rows_of tbl r (snd x)) bl).

Definition summary_xref_entries (tbl : table) (r : registry) : list entry :=
  flat_map (fun e => if text_eqb (e_ctx e) f_moduleIndex
                     then map (mk f_moduleIndex P_xref_summary [] false) (sum_xrefs_of r (e_obj e)) else [])
           (flat_map (module_summary (fuel_of r) tbl r) (filter (keep (t_modindex_roots tbl) r) (r_roots r)))
  ++ flat_map (fun c => map (mk f_classIndex P_xref_summary [] false) (sum_xrefs_of r c)) (class_index tbl r).

Definition site_entries (tbl : table) (r : registry) (depth : nat) (nosidebar : bool) : list entry :=
  (flat_map (page_entries tbl r depth nosidebar) (written tbl r) ++ summary_entries tbl r)
  ++ (flat_map (xref_entries tbl r) (written tbl r) ++ summary_xref_entries tbl r).

(* the href an entry carries (None = label only / not a link) *)
Definition link_of (tbl : table) (r : registry) (e : entry) : option text :=
  let p := e_prod e in
  if N.eqb p P_hierarchy then Some (f_classIndex ++ [c_hash] ++ fullname r (e_obj e))
  else if N.eqb p P_childlist then Some (c_hash :: name_of r (e_obj e))
  else if N.eqb p P_alldocs || N.eqb p P_inventory then Some (url r (e_obj e))
  else if N.eqb p P_corpus then None
  else taglink tbl r (e_obj e) (e_ctx e).

(* files and anchors *)
Definition summary_files (r : registry) : list text :=
  [f_moduleIndex; f_classIndex; f_nameIndex; f_undocced; f_alldocuments]
  ++ (if multi_root r then [f_index] else [])
  ++ match r_root_names r with [n] => [n ++ f_html] | _ => [] end.    (* the <root>.html -> index.html symlink *)

Definition site_files (tbl : table) (r : registry) : list text :=
  map (url r) (written tbl r) ++ summary_files r.

(* (file, anchor name) pairs: member anchors (function-child.html / attribute-child.html) and classIndex <a name> *)
Definition site_anchors (tbl : table) (r : registry) : list (text * text) :=
  flat_map (fun p => flat_map (fun c => [(url r p, name_of r c); (url r p, fullname r c)]) (methods_of tbl r p))
           (written tbl r)
  ++ map (fun c => (f_classIndex, fullname r c)) (class_index tbl r).

(* a fragment denotes an anchor when it is the anchor's name, raw or percent-encoded *)
Definition frag_matches (fr a : text) : bool := text_eqb fr a || text_eqb fr (quote a).

Definition live (tbl : table) (r : registry) (cur href : text) : bool :=
  let (f, fr) := resolve cur href in
  existsb (text_eqb f) (site_files tbl r) &&
  match fr with
  | None => true
  | Some a => existsb (fun x => text_eqb f (fst x) && frag_matches a (snd x)) (site_anchors tbl r)
  end.

End WithQuote.

(* ------------------------------------------------------------------ decidable well-formedness (sound: Proofs/SiteProofs.wf_b_sound) *)
(* o is reached from a root through contents, decided by walking up the parent chain *)
Fixpoint reach_up (fuel : nat) (r : registry) (i : nat) : bool :=
  match fuel with
  | O => false
  | S f => match parent_of r i with
           | None => existsb (Nat.eqb i) (r_roots r)
           | Some p => existsb (Nat.eqb i) (contents_of r p) && reach_up f r p
           end
  end.

Definition wf_b (r : registry) : bool :=
  let n := length (r_objs r) in
  forallb (fun i => match parent_of r i with Some p => Nat.ltb p i && own_page r p | None => true end) (seq 0 n)
  && forallb (fun p => forallb (fun c => Nat.ltb c n && match parent_of r c with Some q => Nat.eqb q p | None => false end)
                               (contents_of r p)) (seq 0 n)
  && forallb (fun o => Nat.ltb o n && match parent_of r o with None => true | Some _ => false end && own_page r o) (r_roots r)
  && forallb (fun c => match module_of r c with Some m => own_page r m && reach_up (S n) r m | None => true end) (seq 0 n).


(* ------------------------------------------------------------------ urllib.parse.quote (safe = '/'), concrete *)
Local Open Scope N_scope.
Definition hexdigit (n : N) : N := if n <? 10 then 48 + n else 55 + n.        (* 0-9, A-F *)
Definition pct (b : N) : text := [37; hexdigit (b / 16); hexdigit (b mod 16)].
Definition utf8 (n : N) : list N :=
  if n <? 128 then [n]
  else if n <? 2048 then [192 + n / 64; 128 + n mod 64]
  else if n <? 65536 then [224 + n / 4096; 128 + (n / 64) mod 64; 128 + n mod 64]
  else [240 + n / 262144; 128 + (n / 4096) mod 64; 128 + (n / 64) mod 64; 128 + n mod 64].
Definition quote_safe (c : N) : bool :=
  ((48 <=? c) && (c <=? 57)) || ((65 <=? c) && (c <=? 90)) || ((97 <=? c) && (c <=? 122))
  || (c =? 95) || (c =? 46) || (c =? 45) || (c =? 126) || (c =? 47).
Definition cquote (t : text) : text :=
  flat_map (fun c => if quote_safe c then [c] else flat_map pct (utf8 c)) t.
Local Close Scope N_scope.

(* ------------------------------------------------------------------ wire *)
Definition dec_priv (s : sexp) : privacy :=
  match to_nat s with 0 => PUBLIC | 1 => PRIVATE | _ => HIDDEN end.
Definition dec_kind (s : sexp) : okind :=
  match to_nat s with 0 => KPackage | 1 => KModule | 2 => KClass | 3 => KFunction | _ => KAttribute end.
Definition dec_obj (s : sexp) : obj :=
  {| o_name := to_text (nth_s 0 s);
     o_parent := to_option to_nat (nth_s 1 s);
     o_contents := map to_nat (to_list (nth_s 2 s));
     o_kind := dec_kind (nth_s 3 s);
     o_priv := dec_priv (nth_s 4 s);
     o_doc := to_bool (nth_s 5 s);
     o_mro := map to_nat (to_list (nth_s 6 s));
     o_subclasses := map to_nat (to_list (nth_s 7 s));
     o_bases := map (to_option to_nat) (to_list (nth_s 8 s));
     o_docsource := to_option to_nat (nth_s 10 s);
     o_xrefs := map to_nat (to_list (nth_s 11 s));
     o_sum_xrefs := map to_nat (to_list (nth_s 12 s));
     o_linker_page := to_option to_nat (nth_s 13 s);
     o_module := to_option to_nat (nth_s 9 s) |}.
Definition dec_registry (s : sexp) : registry :=
  {| r_objs := map dec_obj (to_list (nth_s 0 s));
     r_roots := map to_nat (to_list (nth_s 1 s));
     r_all := map to_nat (to_list (nth_s 2 s));
     r_root_names := map to_text (to_list (nth_s 3 s)) |}.

Definition enc_entry (tbl : table) (r : registry) (e : entry) : sexp :=
  L [of_text (e_page e); of_N (e_prod e); of_nat (e_obj e);
     of_option of_text (link_of cquote tbl r e); of_bool (e_private e)].

(* input  L [registry; depth; nosidebar]
   output L [files; anchors (file, name); entries (page, producer, object, href?, private);
             per object (url, isVisible, fullName); wf_b registry] *)
Definition run_with (tbl : table) (s : sexp) : sexp :=
  let r := dec_registry (nth_s 0 s) in
  let depth := to_nat (nth_s 1 s) in
  let nosb := to_bool (nth_s 2 s) in
  L [ of_list of_text (site_files cquote tbl r);
      of_list (fun x => L [of_text (fst x); of_text (snd x)]) (site_anchors cquote tbl r);
      of_list (enc_entry tbl r) (site_entries cquote tbl r depth nosb);
      of_list (fun i => L [of_text (url cquote r i); of_bool (visible r i); of_text (fullname r i)])
              (seq 0 (length (r_objs r)));
      of_bool (wf_b r) ].
