(* Model/QnMatchIR.v -- a small deep-embedded imperative language, large enough for the body of
   pydoctor/qnmatch.py : translate() (an index-walking `while` loop that builds a string), and its interpreter.
   Gen/QnMatchCode.v (written by harness/gen/gen_c13_code.py on every run, fail-closed) holds that body
   translated statement by statement from the CURRENT source; Proofs/QnMatchIRProofs.v proves that
   interpreting it is the hand-written Model/QnMatch.v : translate, for every pattern.  Definitions only.

   Values: int, str (list of code points), bool, list of str.  Anything the language gives no meaning to
   (an operand of the wrong type, an unbound local, a needle that is not one character, a format directive
   other than %s ...) evaluates to Err Unsupported -- the theorem shows the generated code never does.

   Primitives = the Python operations the body uses, with CPython's semantics written out here (stated
   assumptions, exercised by the correspondence check which runs the interpretation of the generated code
   against the real function):
     len(s)  s[i] (IndexError; negative index from the end)  s[a:b] (clamping)  a + b (int, str)
     comparisons of ints, == / != of strs, `x in (c1, c2)`, and / or / not on bools (short-circuit)
     s.replace(a, b) with a one-character a       s.startswith(p, i)       s.find(c, i) with a one-character c
     fmt % args with %s directives only            sep.join(list)            list.append(x)
     re.escape(s) = Model.QnMatch.re_escape of every character (table checked against re.escape over the code points) *)
From Coq Require Import ZArith NArith List Bool.
From PydoctorVerif Require Import Base.Sexp Spec.ReFrag Model.QnMatch.
Import ListNotations.
Local Open Scope Z_scope.

Definition var := N.

Inductive value : Type :=
| VInt (z : Z)
| VStr (s : text)
| VBool (b : bool)
| VList (l : list text).

Inductive cmpop : Type := CEq | CNe | CLt | CLe | CGt | CGe.

Inductive expr : Type :=
| EInt (z : Z)
| EStr (s : text)
| EVar (x : var)
| EEmptyList                                         (* [] *)
| ELen (e : expr)                                    (* len(e) *)
| EIndex (e i : expr)                                (* e[i] *)
| ESlice (e : expr) (lo hi : option expr)            (* e[lo:hi] *)
| EAdd (a b : expr)                                  (* a + b *)
| ECmp (op : cmpop) (a b : expr)
| EAnd (a b : expr)
| EOr (a b : expr)
| ENot (a : expr)
| EInConsts (a : expr) (cs : list text)              (* a in ('x', 'y') *)
| EReplace (e a b : expr)                            (* e.replace(a, b) *)
| EStartsWith (e p i : expr)                         (* e.startswith(p, i) *)
| EFind (e c i : expr)                               (* e.find(c, i) *)
| EReEscape (e : expr)                               (* re.escape(e) *)
| EFormat (fmt : text) (args : list expr)            (* fmt % (a1, ..., an) *)
| EJoin (sep : text) (e : expr).                     (* sep.join(e) *)

Inductive stmt : Type :=
| SSkip
| SSeq (a b : stmt)
| SAssign (x : var) (e : expr)
| SAppend (x : var) (e : expr)                       (* x.append(e) *)
| SIf (c : expr) (th el : stmt)
| SWhile (c : expr) (body : stmt)
| SReturn (e : expr).

(* ---- CPython's string operations ---------------------------------------------------------------- *)
Definition zlen (s : text) : Z := Z.of_nat (length s).

(* s[i] *)
Definition py_index (s : text) (i : Z) : outcome value :=
  let j := if i <? 0 then i + zlen s else i in
  if (j <? 0) || (zlen s <=? j) then Err PyIndexError
  else match nth_error s (Z.to_nat j) with
       | Some c => Ok (VStr [c])
       | None => Err PyIndexError
       end.

(* a slice bound: negative counts from the end, then clamped to [0, len] *)
Definition clamp (s : text) (i : Z) : nat :=
  let j := if i <? 0 then i + zlen s else i in
  if j <? 0 then O else if zlen s <? j then length s else Z.to_nat j.

Definition py_slice (s : text) (lo hi : option Z) : text :=
  let a := match lo with Some z => clamp s z | None => O end in
  let b := match hi with Some z => clamp s z | None => length s end in
  firstn (b - a) (skipn a s).

Fixpoint text_eqb (a b : text) : bool :=
  match a, b with
  | [], [] => true
  | x :: a', y :: b' => N.eqb x y && text_eqb a' b'
  | _, _ => false
  end.

Fixpoint is_prefix (pre s : text) : bool :=
  match pre, s with
  | [], _ => true
  | x :: pre', y :: s' => N.eqb x y && is_prefix pre' s'
  | _ :: _, [] => false
  end.

(* s.startswith(pre, i) *)
Definition py_startswith (s pre : text) (i : Z) : bool :=
  if zlen s <? i then false else is_prefix pre (skipn (clamp s i) s).

(* index of the first c in t, counted from k; None when there is none *)
Fixpoint find_char (c : N) (t : text) (k : nat) : option nat :=
  match t with
  | [] => None
  | d :: t' => if N.eqb d c then Some k else find_char c t' (S k)
  end.

(* s.find(c, i) for a one-character c *)
Definition py_find (s : text) (c : N) (i : Z) : Z :=
  if zlen s <? i then -1
  else match find_char c (skipn (clamp s i) s) (clamp s i) with
       | Some k => Z.of_nat k
       | None => -1
       end.

(* s.replace(a, b) for a one-character a *)
Definition py_replace (s : text) (a : N) (b : text) : text :=
  flat_map (fun c => if N.eqb c a then b else [c]) s.

Definition py_re_escape (s : text) : text := flat_map re_escape s.

(* fmt % args, %s directives only, every argument a str *)
Fixpoint py_format (fmt : text) (args : list text) : outcome text :=
  match fmt with
  | [] => match args with [] => Ok [] | _ => Err Unsupported end       (* not all arguments converted *)
  | c :: r =>
    if N.eqb c 37 then                                                  (* % *)
      match r with
      | d :: r' =>
        if N.eqb d 115 then                                             (* s *)
          match args with
          | a :: args' => bind (py_format r' args') (fun t => Ok (a ++ t))
          | [] => Err Unsupported                                       (* not enough arguments *)
          end
        else Err Unsupported
      | [] => Err Unsupported
      end
    else bind (py_format r args) (fun t => Ok (c :: t))
  end.

Fixpoint py_join (sep : text) (l : list text) : text :=
  match l with
  | [] => []
  | [a] => a
  | a :: r => a ++ sep ++ py_join sep r
  end.

Definition cmp_int (op : cmpop) (a b : Z) : bool :=
  match op with
  | CEq => a =? b | CNe => negb (a =? b) | CLt => a <? b | CLe => a <=? b | CGt => b <? a | CGe => b <=? a
  end.

(* ---- environments ------------------------------------------------------------------------------ *)
Definition env := var -> option value.
Definition env0 : env := fun _ => None.
Definition set (e : env) (x : var) (v : value) : env := fun y => if N.eqb x y then Some v else e y.

Definition stuck {X} : outcome X := Err Unsupported.

Definition as_str (v : value) : outcome text := match v with VStr s => Ok s | _ => stuck end.
Definition as_int (v : value) : outcome Z := match v with VInt z => Ok z | _ => stuck end.
Definition as_bool (v : value) : outcome bool := match v with VBool b => Ok b | _ => stuck end.
Definition as_char (v : value) : outcome N := match v with VStr [c] => Ok c | _ => stuck end.

(* ---- expressions ------------------------------------------------------------------------------- *)
Fixpoint eval (e : env) (x : expr) : outcome value :=
  match x with
  | EInt z => Ok (VInt z)
  | EStr s => Ok (VStr s)
  | EVar v => match e v with Some w => Ok w | None => stuck end         (* UnboundLocalError *)
  | EEmptyList => Ok (VList [])
  | ELen a => bind (eval e a) (fun v => bind (as_str v) (fun s => Ok (VInt (zlen s))))
  | EIndex a i =>
    bind (eval e a) (fun v => bind (as_str v) (fun s =>
    bind (eval e i) (fun w => bind (as_int w) (fun z => py_index s z))))
  | ESlice a lo hi =>
    bind (eval e a) (fun v => bind (as_str v) (fun s =>
    bind (match lo with Some l => bind (eval e l) (fun w => bind (as_int w) (fun z => Ok (Some z))) | None => Ok None end)
         (fun l =>
    bind (match hi with Some h => bind (eval e h) (fun w => bind (as_int w) (fun z => Ok (Some z))) | None => Ok None end)
         (fun h => Ok (VStr (py_slice s l h))))))
  | EAdd a b =>
    bind (eval e a) (fun v => bind (eval e b) (fun w =>
    match v, w with
    | VInt x, VInt y => Ok (VInt (x + y))
    | VStr s, VStr t => Ok (VStr (s ++ t))
    | _, _ => stuck
    end))
  | ECmp op a b =>
    bind (eval e a) (fun v => bind (eval e b) (fun w =>
    match v, w with
    | VInt x, VInt y => Ok (VBool (cmp_int op x y))
    | VStr s, VStr t =>
      match op with
      | CEq => Ok (VBool (text_eqb s t))
      | CNe => Ok (VBool (negb (text_eqb s t)))
      | _ => stuck
      end
    | _, _ => stuck
    end))
  | EAnd a b =>
    bind (eval e a) (fun v => bind (as_bool v) (fun x =>
    if x then bind (eval e b) (fun w => bind (as_bool w) (fun y => Ok (VBool y))) else Ok (VBool false)))
  | EOr a b =>
    bind (eval e a) (fun v => bind (as_bool v) (fun x =>
    if x then Ok (VBool true) else bind (eval e b) (fun w => bind (as_bool w) (fun y => Ok (VBool y)))))
  | ENot a => bind (eval e a) (fun v => bind (as_bool v) (fun x => Ok (VBool (negb x))))
  | EInConsts a cs => bind (eval e a) (fun v => bind (as_str v) (fun s => Ok (VBool (existsb (text_eqb s) cs))))
  | EReplace a o n =>
    bind (eval e a) (fun v => bind (as_str v) (fun s =>
    bind (eval e o) (fun w => bind (as_char w) (fun c =>
    bind (eval e n) (fun u => bind (as_str u) (fun t => Ok (VStr (py_replace s c t))))))))
  | EStartsWith a p i =>
    bind (eval e a) (fun v => bind (as_str v) (fun s =>
    bind (eval e p) (fun w => bind (as_str w) (fun pre =>
    bind (eval e i) (fun u => bind (as_int u) (fun z => Ok (VBool (py_startswith s pre z))))))))
  | EFind a c i =>
    bind (eval e a) (fun v => bind (as_str v) (fun s =>
    bind (eval e c) (fun w => bind (as_char w) (fun ch =>
    bind (eval e i) (fun u => bind (as_int u) (fun z => Ok (VInt (py_find s ch z))))))))
  | EReEscape a => bind (eval e a) (fun v => bind (as_str v) (fun s => Ok (VStr (py_re_escape s))))
  | EFormat fmt args =>
    bind ((fix evals (l : list expr) : outcome (list text) :=
             match l with
             | [] => Ok []
             | a :: r => bind (eval e a) (fun v => bind (as_str v) (fun s => bind (evals r) (fun t => Ok (s :: t))))
             end) args)
         (fun l => bind (py_format fmt l) (fun t => Ok (VStr t)))
  | EJoin sep a =>
    bind (eval e a) (fun v => match v with VList l => Ok (VStr (py_join sep l)) | _ => stuck end)
  end.

Definition eval_bool (e : env) (c : expr) : outcome bool := bind (eval e c) as_bool.

(* ---- statements -------------------------------------------------------------------------------- *)
Inductive result : Type :=
| RNormal (e : env)          (* fell off the end *)
| RReturn (v : value)        (* return v *)
| RErr (x : err).            (* exception in flight (PyIndexError), meaningless program (Unsupported), OutOfFuel *)

(* while c: body   -- at most `k` iterations *)
Fixpoint while_loop (cond : env -> outcome bool) (body : env -> result) (k : nat) (e : env) : result :=
  match k with
  | O => RErr OutOfFuel
  | S k' =>
    match cond e with
    | Err x => RErr x
    | Ok false => RNormal e
    | Ok true =>
      match body e with
      | RNormal e' => while_loop cond body k' e'
      | r => r
      end
    end
  end.

(* `fuel` bounds the number of iterations of every `while` statement each time it is entered *)
Fixpoint exec (s : stmt) (fuel : nat) (e : env) : result :=
  match s with
  | SSkip => RNormal e
  | SSeq a b =>
    match exec a fuel e with
    | RNormal e' => exec b fuel e'
    | r => r
    end
  | SAssign x a =>
    match eval e a with
    | Ok v => RNormal (set e x v)
    | Err z => RErr z
    end
  | SAppend x a =>
    match e x with
    | Some (VList l) =>
      match eval e a with
      | Ok (VStr s) => RNormal (set e x (VList (l ++ [s])))
      | Ok _ => RErr Unsupported
      | Err z => RErr z
      end
    | _ => RErr Unsupported
    end
  | SIf c th el =>
    match eval_bool e c with
    | Ok true => exec th fuel e
    | Ok false => exec el fuel e
    | Err z => RErr z
    end
  | SWhile c body => while_loop (fun e' => eval_bool e' c) (exec body fuel) fuel e
  | SReturn a =>
    match eval e a with
    | Ok v => RReturn v
    | Err z => RErr z
    end
  end.

(* how the accumulated output is held (a hint the translator emits for the proof script) *)
Inductive acc_role : Type := AccStr (v : var) | AccList (v : var).

(* a function of one str parameter returning a str *)
Record func := { f_param : var; f_body : stmt }.

Definition call_str (f : func) (fuel : nat) (arg : text) : outcome text :=
  match exec (f_body f) fuel (set env0 (f_param f) (VStr arg)) with
  | RReturn (VStr s) => Ok s
  | RReturn _ => Err Unsupported
  | RNormal _ => Err Unsupported          (* falls off the end: returns None *)
  | RErr x => Err x
  end.

(* translate(pat): no `while` of the body iterates more than len(pat) times (+ 1 for the test that ends it) *)
Definition run_translate (f : func) (pat : text) : outcome text := call_str f (S (length pat)) pat.
