(* Model/FieldsIRRun.v -- the code translated from epydoc2stan.FieldHandler (Gen/FieldsCode.v), interpreted by
   Model/FieldsIR.v, as a third leg of the correspondence check: same input as Model.Fields.run; the fields are
   handled by the TRANSLATED handle / handle_* bodies, the warnings are the texts those bodies build, the parameter
   table is put in order by the TRANSLATED resolve_types.  format is the one of Model/Fields.v.  Definitions only.

   output := ( 0 )                                         the interpreter got stuck (excluded by C09_code_final_state_is_model)
           | ( 1 sections ( (field text) ... ) attr_type ) sections / attr_type as Model.Fields.run *)
From Coq Require Import ZArith NArith List Bool Arith.
From PydoctorVerif Require Import Base.Sexp Model.FieldTypes Gen.TablesC09 Model.Fields Model.FieldsIR Gen.FieldsCode.
Import ListNotations.

Definition run (x : sexp) : sexp :=
  let E := {| e_obj := obj_of_Z (to_Z (nth_s 0 x));
              e_sig := map (fun p => (pname_of_sexp p, to_bool (nth_s 2 p))) (to_list (nth_s 1 x));
              e_ret := to_N (nth_s 2 x);
              e_ctor := map pname_of_sexp (to_list (nth_s 3 x));
              e_unknown_base := to_bool (nth_s 4 x);
              e_gn := to_bool (nth_s 5 x) |} in
  let fs := map field_of_sexp (to_list (nth_s 6 x)) in
  match final_ir fields_code E fs with
  | None => L [A 0]
  | Some ms =>
    let st := ms_st ms in
    L [A 1; L (map section_sexp (format st));
       L (map (fun m : nat * text => L [of_nat (fst m); of_text (snd m)]) (ms_msgs ms));
       of_option of_nat (st_attr_type st)]
  end.
