(* Model/InventoryIRRun.v -- wire codec for the interpretation of the code translated from pydoctor/sphinx.py
   (Gen/InventoryCode.v, regenerated on every run): third leg of the correspondence check.  Definitions only.
   input  := ( 0 line )            -> as mode 0 of Model.Inventory.run:
                                       ( 0 name typ sign |prio| mod 1000000007 location display ) | ( 1 exn ) | ( 2 ) stuck / other
             ( 1 links name )      links := list of ( name base location )
                                    -> ( name found url ) | ( 2 ) stuck / other *)
From Coq Require Import ZArith NArith List Bool.
From PydoctorVerif Require Import Base.Sexp Model.Inventory Model.InventoryIR Gen.InventoryCode.
Import ListNotations.

Definition ir_stuck : sexp := L [A 2%Z].

Definition run (s : sexp) : sexp :=
  match to_Z (nth_s 0 s) with
  | 0%Z =>
    match parse_line_ir code_parse_line py_int (to_text (nth_s 1 s)) with
    | RReturn (VTuple [VStr n; VStr t; VInt z; VStr l; VStr d]) => cols_sexp (Cols n t z l d)
    | RRaise e => L [A 1%Z; A (exn_code e)]
    | _ => ir_stuck
    end
  | 1%Z =>
    let links := map (fun e => (to_text (nth_s 0 e), (to_text (nth_s 1 e), to_text (nth_s 2 e)))) (to_list (nth_s 1 s)) in
    let name := to_text (nth_s 2 s) in
    match get_link_ir code_get_link links name with
    | RReturn (VStr u) => L [of_text name; A 1%Z; of_text u]
    | RReturn VNone => L [of_text name; A 0%Z; L []]
    | _ => ir_stuck
    end
  | _ => bad_input
  end.
