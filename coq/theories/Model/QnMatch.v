(* Model/QnMatch.v -- pydoctor/qnmatch.py (translate, _compile_pattern, qnmatch), branch by branch.
   Definitions only.  Text = list of code points.  `re.compile(...).match` is Spec.ReFrag.

   Indices: the source walks `pat` with `i`; here the loop state is `rest` = pat[i:], so
   "pat[i]" is the head of `rest`, "i < n" is "rest is not empty".  `j` of the "[" branch is kept as
   an index (nat), relative to i (j_model = j_source - i, after the `i = i+1`). *)
From Coq Require Import NArith List Bool.
From PydoctorVerif Require Import Base.Sexp Spec.ReFrag.
Import ListNotations.
Local Open Scope N_scope.

(* re.escape(c) for one character, Python 3.12:
   _special_chars_map = {i: '\\' + chr(i) for i in b'()[]{}?*+-|^$\\.&~# \t\n\r\v\f'} *)
Definition re_escaped (c : N) : bool :=
  (c =? 40) || (c =? 41) || (c =? 91) || (c =? 93) || (c =? 123) || (c =? 125) ||   (* ( ) [ ] { } *)
  (c =? 63) || (c =? 42) || (c =? 43) || (c =? 45) || (c =? 124) || (c =? 94) ||    (* ? * + - | ^ *)
  (c =? 36) || (c =? 92) || (c =? 46) || (c =? 38) || (c =? 126) || (c =? 35) ||    (* $ \ . & ~ # *)
  (c =? 32) || (c =? 9) || (c =? 10) || (c =? 13) || (c =? 11) || (c =? 12).        (* space \t \n \r \v \f *)

Definition re_escape (c : N) : text := if re_escaped c then [c_bsl; c] else [c].

(* j < n and pat[j] == c   (j relative to rest) *)
Definition char_at (rest : text) (j : nat) (c : N) : bool :=
  match nth_error rest j with
  | Some d => d =? c
  | None => false
  end.

(* while j < n and pat[j] != ']': j = j+1        (t = pat[j:]) *)
Fixpoint find_close (t : text) (j : nat) : nat :=
  match t with
  | [] => j
  | d :: t' => if d =? c_rbr then j else find_close t' (S j)
  end.

(* stuff.replace('\\', r'\\') *)
Fixpoint double_bsl (s : text) : text :=
  match s with
  | [] => []
  | c :: r => if c =? c_bsl then c_bsl :: c_bsl :: double_bsl r else c :: double_bsl r
  end.

Definition t_starstar : text := [c_dot; c_star; c_qm].                              (* .*?      *)
Definition t_star : text := [c_lbr; c_hat; c_bsl; c_dot; c_rbr; c_star; c_qm].      (* [^\.]*?  *)
Definition t_qm : text := [c_dot].                                                  (* .        *)
Definition t_lit_lbr : text := [c_bsl; c_lbr].                                      (* \[       *)

(* the `while i < n` loop; fuel = number of iterations allowed *)
Fixpoint translate_loop (fuel : nat) (rest res : text) : outcome text :=
  match fuel with
  | O => Err OutOfFuel
  | S f =>
    match rest with
    | [] => Ok res
    | c :: r =>                                                   (* c = pat[i]; i = i+1 *)
      if c =? c_star then
        if char_at r 0 c_star then translate_loop f (skipn 1 r) (res ++ t_starstar)
        else translate_loop f r (res ++ t_star)
      else if c =? c_qm then translate_loop f r (res ++ t_qm)
      else if c =? c_lbr then
        let j := O in
        let j := if char_at r j c_bang then S j else j in
        let j := if char_at r j c_rbr then S j else j in
        let j := find_close (skipn j r) j in
        if Nat.leb (length r) j then translate_loop f r (res ++ t_lit_lbr)
        else
          let stuff := firstn j r in
          let stuff := double_bsl stuff in
          match stuff with
          | [] => Err PyIndexError                                (* stuff[0] *)
          | h :: tl =>
            let stuff' := if h =? c_bang then c_hat :: tl
                          else if (h =? c_hat) || (h =? c_lbr) then c_bsl :: stuff
                          else stuff in
            translate_loop f (skipn (S j) r) (res ++ [c_lbr] ++ stuff' ++ [c_rbr])
          end
      else translate_loop f r (res ++ re_escape c)
    end
  end.

Definition t_prefix : text := [c_lpar; c_qm; c_s; c_colon].     (* (?s:  *)
Definition t_suffix : text := [c_rpar; c_bsl; c_Z].             (* )\Z   *)

(* translate(pat): every iteration consumes at least one character *)
Definition translate (pat : text) : outcome text :=
  bind (translate_loop (S (length pat)) pat []) (fun res => Ok (t_prefix ++ res ++ t_suffix)).

(* _compile_pattern(pat) = re.compile(translate(pat)).match ; the lru_cache is transparent for a pure function *)
Definition compile_pattern (pat : text) : outcome regex :=
  bind (translate pat) read_re.

(* qnmatch(name, pattern) *)
Definition qnmatch (name pattern : text) : outcome bool :=
  match_re (compile_pattern pattern) name.
