(* Model/Project.v -- a whole project going through pydoctor's module work-list machine, with the registry,
   the per-scope alias maps and the class-base resolution that properties C06 and C07 talk about.
   Definitions only.

   Modelled code (pydoctor/model.py, pydoctor/astbuilder.py):
     System._addUnprocessedModule / addObject / handleDuplicate / _remove / objForFullName / find_object
     System.process / processModule / getProcessedModule        (work list; on-demand processing of imports)
     Documentable.fullName / reparent / _handle_reparenting_pre / _post / expandName / resolveName
     Module._localNameToFullName / Class._localNameToFullName / Inheritable._localNameToFullName
     ASTBuilder.processModuleAST (parseAll first) ; ModuleVistor.visit_ClassDef (initial bases at visit time),
       visit_ImportFrom (relative levels), _importNames, _importAll, _getCurrentModuleExports, _handleReExport,
       visit_Import, _handleAliasing, _handleModuleVar, _handleFunctionDef
     compute_mro.init_finalbaseobjects (second pass, only for bases that were None)

   The re-entrancy processModule -> visitor -> getProcessedModule -> processModule is made explicit as a
   stack of FRAMES (one per processModule activation = one ASTBuilder instance), each holding the rest of
   that module's walk as a list of micro-operations.  `step` performs one micro-operation; `run_machine`
   iterates it on fuel.  This is the recursion of Model/Proc.v with Python's call stack written out, so that
   invariants are statements about one step.

   Objects have an identity that does not depend on their name: (module index, statement index, member
   index); (m,0,0) is the module itself, (m,i,0) the object created by the i-th statement, (m,i,j) its j-th
   member.  Short names are numbers; a dotted name is a list of them.  The name "foo 0" that handleDuplicate
   gives to a replaced object is  dup_name foo 0.  Names whose bit 19 is set start with an underscore.

   Restrictions (the generator of harness/c06.py stays inside them; see residual in Props/C06.v):
   classes have leaf members only (methods, class variables) -- no nested classes, no imports inside class
   bodies; Class.find (inherited lookup inside expandName / _maybeAttribute) is not modelled; all modules parse. *)
From Coq Require Import ZArith NArith List Bool.
From PydoctorVerif Require Import Base.Sexp.
Import ListNotations.
Local Open Scope N_scope.

Definition path := list N.
Definition oid := (N * N * N)%type.

Fixpoint path_eqb (a b : path) : bool :=
  match a, b with
  | [], [] => true
  | x :: a', y :: b' => N.eqb x y && path_eqb a' b'
  | _, _ => false
  end.

Definition oid_eqb (a b : oid) : bool :=
  let '(a1, a2, a3) := a in let '(b1, b2, b3) := b in
  N.eqb a1 b1 && N.eqb a2 b2 && N.eqb a3 b3.

(* ---- syntax ---- *)
Inductive stmt :=
| SClass (name doc : N) (bases : list path) (members : list (N * N * N))  (* member = (0 method | 1 class var, name, doc) *)
| SFunc (name doc : N)
| SVar (name doc : N)                         (* name = <constant> , optionally followed by a docstring *)
| SAlias (target : N) (value : path)          (* name = dotted.name *)
| SImport (target : path) (asname : N)        (* import a.b [as c] ; asname 0 = none *)
| SImportFrom (level : N) (modname : path) (names : list (N * N))   (* (orgname, asname) *)
| SImportStar (level : N) (modname : path)
| SAll (names : list N).                      (* __all__ = [...] at module level *)

Record modinfo := {
  m_name : N; m_parent : option N; m_pkg : bool; m_doc : N; m_stmts : list stmt }.
Definition project := list modinfo.

(* ---- micro-operations of one module walk ---- *)
Inductive mop :=
| MStmt (i : N) (st : stmt)                   (* a statement that needs no other module *)
| MResolve (level : N) (modname : path)       (* visit_ImportFrom: absolute module name *)
| MEnsure                                     (* mod = getProcessedModule(modname) *)
| MEnsureSub (orgname : N)                    (* if isinstance(mod, Package): getProcessedModule(modname.orgname) *)
| MImportName (orgname asname : N)            (* one name of _importNames *)
| MImportAll.                                 (* _importAll after getProcessedModule *)

Definition expand_stmt (i : N) (st : stmt) : list mop :=
  match st with
  | SImportFrom level modname names =>
      MResolve level modname :: MEnsure ::
      flat_map (fun oa => [MEnsureSub (fst oa); MImportName (fst oa) (snd oa)]) names
  | SImportStar level modname => [MResolve level modname; MEnsure; MImportAll]
  | _ => [MStmt i st]
  end.

Fixpoint expand_from (i : N) (l : list stmt) : list mop :=
  match l with
  | [] => []
  | st :: l' => expand_stmt i st ++ expand_from (i + 1) l'
  end.
Definition expand_stmts (l : list stmt) : list mop := expand_from 1 l.

(* ---- state ---- *)
Inductive pstate := UNPROCESSED | PROCESSING | PROCESSED.

Definition T_MODULE : N := 0.  Definition T_PACKAGE : N := 1.  Definition T_CLASS : N := 2.
Definition T_FUNCTION : N := 3.  Definition T_ATTRIBUTE : N := 4.
Definition K_PACKAGE : N := 1.  Definition K_MODULE : N := 2.  Definition K_CLASS : N := 3.
Definition K_FUNCTION : N := 4.  Definition K_METHOD : N := 5.  Definition K_VARIABLE : N := 6.
Definition K_CLASS_VARIABLE : N := 7.

Record obj := {
  o_tag : N; o_kind : N; o_name : N; o_parent : option oid; o_doc : N;
  o_contents : list (N * oid);             (* Documentable.contents, insertion ordered *)
  o_alias : list (N * path);               (* _localNameToFullName_map *)
  o_all : option (list N);                 (* Module.all *)
  o_rawbases : list path;                  (* Class.rawbases (the dotted names as written) *)
  o_initbases : list (path * option oid)   (* Class._initialbases zipped with _initialbaseobjects *)
}.

Record frame := {
  f_mod : N; f_todo : list mop;
  f_modname : option path;                 (* local `modname` of visit_ImportFrom; None: the statement returned early *)
  f_modobj : option oid }.                 (* local `mod` of _importNames / _importAll *)

Record state := {
  objs : oid -> option obj;
  allobjs : list (path * oid);             (* System.allobjects *)
  mst : N -> pstate;                       (* Module.state, by module index *)
  unproc : list N;                         (* System.unprocessed_modules *)
  frames : list frame;                     (* active processModule calls, innermost first *)
  roots : list oid;                        (* System.rootobjects *)
  dfuel : nat }.                           (* bound for walks along parent / contents links *)

(* ---- association lists with dict semantics ---- *)
Fixpoint aget {V} (eqb : N -> N -> bool) (k : N) (l : list (N * V)) : option V :=
  match l with [] => None | (k', v) :: l' => if eqb k' k then Some v else aget eqb k l' end.
Definition nget {V} := @aget V N.eqb.
(* d[k] = v : in place when present, appended otherwise *)
Fixpoint nset {V} (k : N) (v : V) (l : list (N * V)) : list (N * V) :=
  match l with
  | [] => [(k, v)]
  | (k', v') :: l' => if N.eqb k' k then (k, v) :: l' else (k', v') :: nset k v l'
  end.
Fixpoint ndel {V} (k : N) (l : list (N * V)) : list (N * V) :=
  match l with
  | [] => []
  | (k', v') :: l' => if N.eqb k' k then l' else (k', v') :: ndel k l'
  end.

Fixpoint pget (k : path) (l : list (path * oid)) : option oid :=
  match l with [] => None | (k', v) :: l' => if path_eqb k' k then Some v else pget k l' end.
Fixpoint pset (k : path) (v : oid) (l : list (path * oid)) : list (path * oid) :=
  match l with
  | [] => [(k, v)]
  | (k', v') :: l' => if path_eqb k' k then (k, v) :: l' else (k', v') :: pset k v l'
  end.
Fixpoint pdel (k : path) (l : list (path * oid)) : list (path * oid) :=
  match l with
  | [] => []
  | (k', v') :: l' => if path_eqb k' k then l' else (k', v') :: pdel k l'
  end.

Fixpoint memN (x : N) (l : list N) : bool :=
  match l with [] => false | y :: l' => N.eqb y x || memN x l' end.
Fixpoint remove1 (m : N) (l : list N) : list N :=
  match l with [] => [] | x :: l' => if N.eqb x m then l' else x :: remove1 m l' end.

(* ---- state updates ---- *)
Definition set_obj (s : state) (o : oid) (ob : obj) : state :=
  {| objs := fun x => if oid_eqb x o then Some ob else objs s x; allobjs := allobjs s; mst := mst s;
     unproc := unproc s; frames := frames s; roots := roots s; dfuel := dfuel s |}.
Definition set_all (s : state) (a : list (path * oid)) : state :=
  {| objs := objs s; allobjs := a; mst := mst s; unproc := unproc s; frames := frames s; roots := roots s;
     dfuel := dfuel s |}.
Definition set_frames (s : state) (fs : list frame) : state :=
  {| objs := objs s; allobjs := allobjs s; mst := mst s; unproc := unproc s; frames := fs; roots := roots s;
     dfuel := dfuel s |}.
Definition upd_obj (s : state) (o : oid) (f : obj -> obj) : state :=
  match objs s o with Some ob => set_obj s o (f ob) | None => s end.

Definition with_contents (c : list (N * oid)) (ob : obj) : obj :=
  {| o_tag := o_tag ob; o_kind := o_kind ob; o_name := o_name ob; o_parent := o_parent ob; o_doc := o_doc ob;
     o_contents := c; o_alias := o_alias ob; o_all := o_all ob; o_rawbases := o_rawbases ob;
     o_initbases := o_initbases ob |}.
Definition with_alias (a : list (N * path)) (ob : obj) : obj :=
  {| o_tag := o_tag ob; o_kind := o_kind ob; o_name := o_name ob; o_parent := o_parent ob; o_doc := o_doc ob;
     o_contents := o_contents ob; o_alias := a; o_all := o_all ob; o_rawbases := o_rawbases ob;
     o_initbases := o_initbases ob |}.
Definition with_name_parent (n : N) (p : option oid) (ob : obj) : obj :=
  {| o_tag := o_tag ob; o_kind := o_kind ob; o_name := n; o_parent := p; o_doc := o_doc ob;
     o_contents := o_contents ob; o_alias := o_alias ob; o_all := o_all ob; o_rawbases := o_rawbases ob;
     o_initbases := o_initbases ob |}.
Definition with_doc (d : N) (ob : obj) : obj :=
  {| o_tag := o_tag ob; o_kind := o_kind ob; o_name := o_name ob; o_parent := o_parent ob; o_doc := d;
     o_contents := o_contents ob; o_alias := o_alias ob; o_all := o_all ob; o_rawbases := o_rawbases ob;
     o_initbases := o_initbases ob |}.
Definition with_all (a : option (list N)) (ob : obj) : obj :=
  {| o_tag := o_tag ob; o_kind := o_kind ob; o_name := o_name ob; o_parent := o_parent ob; o_doc := o_doc ob;
     o_contents := o_contents ob; o_alias := o_alias ob; o_all := a; o_rawbases := o_rawbases ob;
     o_initbases := o_initbases ob |}.

Definition new_obj (tag kind name : N) (parent : option oid) (doc : N) : obj :=
  {| o_tag := tag; o_kind := kind; o_name := name; o_parent := parent; o_doc := doc; o_contents := [];
     o_alias := []; o_all := None; o_rawbases := []; o_initbases := [] |}.

Definition is_module_tag (t : N) : bool := N.eqb t T_MODULE || N.eqb t T_PACKAGE.
Definition tag_of (s : state) (o : oid) : option N :=
  match objs s o with Some ob => Some (o_tag ob) | None => None end.
Definition contents_of (s : state) (o : oid) : list (N * oid) :=
  match objs s o with Some ob => o_contents ob | None => [] end.

(* ---- Documentable.fullName ---- *)
Fixpoint full_name_f (fuel : nat) (s : state) (o : oid) : path :=
  match fuel with
  | O => []
  | S f =>
    match objs s o with
    | None => []
    | Some ob =>
      match o_parent ob with
      | None => [o_name ob]
      | Some p => full_name_f f s p ++ [o_name ob]
      end
    end
  end.
Definition full_name (s : state) (o : oid) : path := full_name_f (dfuel s) s o.

(* ---- _localNameToFullName (Module / Class / Inheritable) ---- *)
Fixpoint local_to_full_f (fuel : nat) (s : state) (o : oid) (n : N) : path :=
  match fuel with
  | O => [n]
  | S f =>
    match objs s o with
    | None => [n]
    | Some ob =>
      if is_module_tag (o_tag ob) then
        match nget n (o_contents ob) with
        | Some c => full_name s c
        | None => match nget n (o_alias ob) with Some q => q | None => [n] end
        end
      else if N.eqb (o_tag ob) T_CLASS then
        match nget n (o_contents ob) with
        | Some c => full_name s c
        | None =>
          match nget n (o_alias ob) with
          | Some q => q
          | None => match o_parent ob with Some p => local_to_full_f f s p n | None => [n] end
          end
        end
      else match o_parent ob with Some p => local_to_full_f f s p n | None => [n] end
    end
  end.
Definition local_to_full (s : state) (o : oid) (n : N) : path := local_to_full_f (dfuel s) s o n.

(* ---- Documentable.expandName: the loop over the dotted parts (Class.find is not modelled) ---- *)
Fixpoint expand_loop (s : state) (o : oid) (first : bool) (parts : list N) : path :=
  match parts with
  | [] => []
  | p :: rest =>
    let fn := local_to_full s o p in
    if path_eqb fn [p] && negb first then full_name s o ++ p :: rest
    else
      match pget fn (allobjs s) with
      | None => fn ++ rest
      | Some nxt => match rest with [] => fn | _ => expand_loop s nxt false rest end
      end
  end.
Definition expand_name (s : state) (o : oid) (name : path) : path := expand_loop s o true name.
Definition resolve_name (s : state) (o : oid) (name : path) : option oid :=
  pget (expand_name s o name) (allobjs s).

(* ---- the objects below an object, through `contents`, parents before children ---- *)
Fixpoint subtree_f (fuel : nat) (s : state) (o : oid) : list oid :=
  match fuel with
  | O => [o]
  | S f => o :: flat_map (fun c => subtree_f f s (snd c)) (contents_of s o)
  end.
Definition subtree (s : state) (o : oid) : list oid := subtree_f (dfuel s) s o.

Definition unregister (s : state) (l : list oid) : state :=
  fold_left (fun s o => set_all s (pdel (full_name s o) (allobjs s))) l s.
Definition register (s : state) (l : list oid) : state :=
  fold_left (fun s o => set_all s (pset (full_name s o) o (allobjs s))) l s.

(* ---- Documentable.reparent, statement by statement (the second _handle_reparenting_post walks the contents as they
        are at that moment; on coherent states it re-assigns the same keys: Proofs/ProjectMove.v) ---- *)
Definition reparent (s : state) (o : oid) (new_parent : oid) (new_name : N) : state :=
  match objs s o with
  | None => s
  | Some ob =>
    match o_parent ob with
    | None => s
    | Some old_parent =>
      let sub := subtree s o in
      let s1 := unregister s sub in
      let old_name := o_name ob in
      let s2 := upd_obj s1 o (with_name_parent new_name (Some new_parent)) in
      let s3 := register s2 sub in
      let s4 := upd_obj s3 old_parent (fun pb => with_contents (ndel old_name (o_contents pb)) pb) in
      let s5 := upd_obj s4 old_parent (fun pb => with_alias (nset old_name (full_name s4 o) (o_alias pb)) pb) in
      let s6 := upd_obj s5 new_parent (fun pb => with_contents (nset new_name o (o_contents pb)) pb) in
      register s6 (subtree s6 o)
    end
  end.

(* ---- System.handleDuplicate ---- *)
Definition dup_name (n i : N) : N := n + 1048576 * (i + 1).
Definition is_private_name (n : N) : bool := N.testbit n 19.

Definition rename_last (k : path) (f : N -> N) : path :=
  match rev k with [] => [] | x :: r => rev r ++ [f x] end.

Fixpoint find_free (fuel : nat) (s : state) (k : path) (i : N) : N :=
  match fuel with
  | O => i
  | S f => match pget (rename_last k (fun n => dup_name n i)) (allobjs s) with
           | Some _ => find_free f s k (i + 1)
           | None => i
           end
  end.

Definition handle_duplicate (s : state) (o : oid) (k : path) (name : N) : state :=
  let i := find_free (S (length (allobjs s))) s k 0 in
  match pget k (allobjs s) with
  | None => s
  | Some prev =>
    let sub := subtree s prev in
    let s1 := unregister s sub in
    let s2 := upd_obj s1 prev (fun pb => with_name_parent (dup_name name i) (o_parent pb) pb) in
    let s3 := register s2 sub in
    set_all s3 (pset k o (allobjs s3))
  end.

(* ---- System.addObject (for objects that have a parent) ---- *)
Definition add_object (s : state) (o : oid) (ob : obj) : state :=
  let s1 := set_obj s o ob in
  let s2 := match o_parent ob with
            | Some p => upd_obj s1 p (fun pb => with_contents (nset (o_name ob) o (o_contents pb)) pb)
            | None => s1
            end in
  let k := full_name s2 o in
  match pget k (allobjs s2) with
  | None => set_all s2 (allobjs s2 ++ [(k, o)])
  | Some first => if oid_eqb first o then s2 else handle_duplicate s2 o k (o_name ob)
  end.

(* ---- statements that need no other module ---- *)
Definition class_of (s : state) (o : option oid) : option oid :=
  match o with
  | Some c => match tag_of s c with Some t => if N.eqb t T_CLASS then Some c else None | None => None end
  | None => None
  end.

Definition add_member (cls : oid) (m i : N) (sj : state * N) (mem : N * N * N) : state * N :=
  let '(s, j) := sj in
  let '(mkind, name, doc) := mem in
  let o := (m, i, j) in
  if N.eqb mkind 0 then
    (add_object s o (new_obj T_FUNCTION K_METHOD name (Some cls) doc), j + 1)
  else
    match nget name (contents_of s cls) with
    | None => (add_object s o (new_obj T_ATTRIBUTE K_CLASS_VARIABLE name (Some cls) doc), j + 1)
    | Some ex =>
      match tag_of s ex with
      | Some t => if N.eqb t T_ATTRIBUTE && negb (N.eqb doc 0) then (upd_obj s ex (with_doc doc), j + 1)
                  else (s, j + 1)
      | None => (s, j + 1)
      end
    end.

Definition exec_stmt (s : state) (m i : N) (st : stmt) : state :=
  let cur : oid := (m, 0, 0) in
  match st with
  | SClass name doc bases members =>
    let ib := map (fun b => let e := expand_name s cur b in (e, class_of s (pget e (allobjs s)))) bases in
    let o := (m, i, 0) in
    let ob := {| o_tag := T_CLASS; o_kind := K_CLASS; o_name := name; o_parent := Some cur; o_doc := doc;
                 o_contents := []; o_alias := []; o_all := None; o_rawbases := bases; o_initbases := ib |} in
    let s1 := add_object s o ob in
    fst (fold_left (add_member o m i) members (s1, 1))
  | SFunc name doc => add_object s (m, i, 0) (new_obj T_FUNCTION K_FUNCTION name (Some cur) doc)
  | SVar name doc =>
    match nget name (contents_of s cur) with
    | None => add_object s (m, i, 0) (new_obj T_ATTRIBUTE K_VARIABLE name (Some cur) doc)
    | Some ex =>
      match tag_of s ex with
      | Some t => if N.eqb t T_ATTRIBUTE && negb (N.eqb doc 0) then upd_obj s ex (with_doc doc) else s
      | None => s
      end
    end
  | SAlias target value =>
    match nget target (contents_of s cur) with
    | Some _ => s                              (* _handleModuleVar on an existing object: nothing we observe *)
    | None => let e := expand_name s cur value in
              upd_obj s cur (fun mb => with_alias (nset target e (o_alias mb)) mb)
    end
  | SImport target asname =>
    let '(a, t) := if N.eqb asname 0 then (hd 0 target, [hd 0 target]) else (asname, target) in
    upd_obj s cur (fun mb => with_alias (nset a t (o_alias mb)) mb)
  | SAll _ => s
  | SImportFrom _ _ _ => s
  | SImportStar _ _ => s
  end.

(* ---- imports ---- *)
Fixpoint up_parents (n : nat) (s : state) (o : option oid) : option oid :=
  match n with
  | O => o
  | S n' => match o with
            | None => None
            | Some x => up_parents n' s (match objs s x with Some ob => o_parent ob | None => None end)
            end
  end.

Definition resolve_modname (s : state) (m : N) (level : N) (modname : path) : option path :=
  if N.eqb level 0 then Some modname
  else
    let cur : oid := (m, 0, 0) in
    let lvl := match tag_of s cur with
               | Some t => if N.eqb t T_PACKAGE then level - 1 else level
               | None => level end in
    match up_parents (N.to_nat lvl) s (Some cur) with
    | None => None
    | Some p => Some (full_name s p ++ modname)
    end.

Definition exports_of (s : state) (cur : oid) : list N :=
  match objs s cur with
  | Some ob => match o_all ob with Some a => a | None => [] end
  | None => []
  end.

(* _handleReExport: (new state, moved?) *)
Definition handle_reexport (s : state) (cur : oid) (exports : list N) (orgname asname : N) (origin : oid)
  : state * bool :=
  if memN asname exports then
    let ob := match nget orgname (contents_of s origin) with
              | Some c => Some c
              | None => resolve_name s origin [orgname]
              end in
    match ob with
    | None => (s, false)
    | Some c =>
      (* a root module cannot be moved into another module: reported, not re-exported *)
      let is_root := match objs s c with
                     | Some cb => match o_parent cb with None => true | Some _ => false end
                     | None => false end in
      if is_root then (s, false)
      else
      let listed := match objs s origin with
                    | Some gb => match o_all gb with Some a => memN orgname a | None => false end
                    | None => false end in
      if listed then (s, false) else (reparent s c cur asname, true)
    end
  else (s, false).

Definition import_name (s : state) (m : N) (modname : path) (modobj : option oid) (orgname asname : N) : state :=
  let cur : oid := (m, 0, 0) in
  let exports := exports_of s cur in
  let '(s1, moved) := match modobj with
                      | Some origin => handle_reexport s cur exports orgname asname origin
                      | None => (s, false) end in
  if moved then s1
  else upd_obj s1 cur (fun mb => with_alias (nset asname (modname ++ [orgname]) (o_alias mb)) mb).

Definition import_all (s : state) (m : N) (origin : oid) : state :=
  let cur : oid := (m, 0, 0) in
  let names := match objs s origin with
               | Some gb =>
                 match o_all gb with
                 | Some a => a
                 | None => filter (fun n => negb (is_private_name n))
                                  (map fst (o_contents gb) ++ map fst (o_alias gb))
                 end
               | None => [] end in
  let exports := exports_of s cur in
  fold_left (fun s name =>
               let '(s1, moved) := handle_reexport s cur exports name name origin in
               if moved then s1
               else let e := expand_name s1 origin [name] in
                    upd_obj s1 cur (fun mb => with_alias (nset name e (o_alias mb)) mb))
            names s.

(* ---- one micro-operation of the innermost walk: new state, new frame variables, and the module (if any) that
        getProcessedModule found and that must be processed before the walk goes on ---- *)
Definition with_todo (t : list mop) (fr : frame) : frame :=
  {| f_mod := f_mod fr; f_todo := t; f_modname := f_modname fr; f_modobj := f_modobj fr |}.
Definition with_modvars (mn : option path) (mo : option oid) (fr : frame) : frame :=
  {| f_mod := f_mod fr; f_todo := f_todo fr; f_modname := mn; f_modobj := mo |}.

(* getProcessedModule(t), first half: the object registered under the name t when it is a module *)
Definition module_at (s : state) (t : path) : option oid :=
  match pget t (allobjs s) with
  | None => None
  | Some o =>
    match tag_of s o with
    | Some tg => if is_module_tag tg then Some o else None
    | None => None
    end
  end.

Definition exec_op (s : state) (fr : frame) (op : mop) : state * frame * option oid :=
  match op with
  | MStmt i st => (exec_stmt s (f_mod fr) i st, fr, None)
  | MResolve level modname => (s, with_modvars (resolve_modname s (f_mod fr) level modname) None fr, None)
  | MEnsure =>
    match f_modname fr with
    | None => (s, fr, None)
    | Some t => let mo := module_at s t in (s, with_modvars (f_modname fr) mo fr, mo)
    end
  | MEnsureSub orgname =>
    match f_modname fr, f_modobj fr with
    | Some t, Some mo =>
      match tag_of s mo with
      | Some tg => if N.eqb tg T_PACKAGE then (s, fr, module_at s (t ++ [orgname])) else (s, fr, None)
      | None => (s, fr, None)
      end
    | _, _ => (s, fr, None)
    end
  | MImportName orgname asname =>
    match f_modname fr with
    | None => (s, fr, None)
    | Some t => (import_name s (f_mod fr) t (f_modobj fr) orgname asname, fr, None)
    end
  | MImportAll =>
    match f_modname fr, f_modobj fr with
    | Some t, Some mo => (import_all s (f_mod fr) mo, fr, None)
    | _, _ => (s, fr, None)
    end
  end.

(* ---- the machine ---- *)
Inductive outcome :=
| Next (s : state)
| Halt
| Stuck (which : N).     (* a failing `assert` of processModule: 1 state is not UNPROCESSED, 2 not in unprocessed_modules *)

Fixpoint last_all (l : list stmt) (acc : option (list N)) : option (list N) :=
  match l with
  | [] => acc
  | SAll names :: l' => last_all l' (Some names)
  | _ :: l' => last_all l' acc
  end.

Definition set_mst (s : state) (m : N) (v : pstate) : state :=
  {| objs := objs s; allobjs := allobjs s; mst := fun x => if N.eqb x m then v else mst s x;
     unproc := unproc s; frames := frames s; roots := roots s; dfuel := dfuel s |}.
Definition set_unproc (s : state) (u : list N) : state :=
  {| objs := objs s; allobjs := allobjs s; mst := mst s; unproc := u; frames := frames s; roots := roots s;
     dfuel := dfuel s |}.

Section WithProject.
  Variable p : project.

  Definition modinfo_of (m : N) : option modinfo := nth_error p (N.to_nat m).

  (* processModule up to the start of the walk: state flip, removal from the list, parseAll, module docstring *)
  Definition begin_module (s : state) (m : N) : outcome :=
    match mst s m with
    | UNPROCESSED =>
      if memN m (unproc s) then
        match modinfo_of m with
        | None => Stuck 2
        | Some mi =>
          let s1 := set_unproc (set_mst s m PROCESSING) (remove1 m (unproc s)) in
          let s2 := upd_obj s1 (m, 0, 0) (fun mb => with_doc (m_doc mi) (with_all (last_all (m_stmts mi) None) mb)) in
          Next (set_frames s2 ({| f_mod := m; f_todo := expand_stmts (m_stmts mi); f_modname := None;
                                  f_modobj := None |} :: frames s2))
        end
      else Stuck 2
    | _ => Stuck 1
    end.

  (* getProcessedModule, second half: the nested processModule when the module found is still UNPROCESSED *)
  Definition ensure (s : state) (mo : option oid) : outcome :=
    match mo with
    | None => Next s
    | Some o =>
      match mst s (fst (fst o)) with
      | UNPROCESSED => begin_module s (fst (fst o))
      | _ => Next s
      end
    end.

  Definition step (s : state) : outcome :=
    match frames s with
    | [] =>
      match unproc s with
      | [] => Halt
      | m :: _ => begin_module s m
      end
    | fr :: rest =>
      match f_todo fr with
      | [] => Next (set_frames (set_mst s (f_mod fr) PROCESSED) rest)
      | op :: todo =>
        let '(s1, fr1, en) := exec_op s (with_todo todo fr) op in
        ensure (set_frames s1 (fr1 :: rest)) en
      end
    end.

  Inductive result :=
  | Ok (s : state)
  | OutOfFuel
  | AssertFail (which : N).

  Fixpoint run_machine (fuel : nat) (s : state) : result :=
    match fuel with
    | O => OutOfFuel
    | S f =>
      match step s with
      | Halt => Ok s
      | Stuck n => AssertFail n
      | Next s' => run_machine f s'
      end
    end.

  (* SystemBuilder.addModuleString for every module of the project, in project order (parents first) *)
  Definition add_module (s : state) (m : N) (mi : modinfo) : state :=
    let o : oid := (m, 0, 0) in
    let parent := match m_parent mi with Some q => Some (q, 0, 0) | None => None end in
    let ob := new_obj (if m_pkg mi then T_PACKAGE else T_MODULE) (if m_pkg mi then K_PACKAGE else K_MODULE)
                      (m_name mi) parent 0 in
    let s0 := set_unproc s (unproc s ++ [m]) in
    match parent with
    | Some _ => add_object s0 o ob
    | None =>
      let s1 := set_obj s0 o ob in
      let s2 := {| objs := objs s1; allobjs := allobjs s1; mst := mst s1; unproc := unproc s1;
                   frames := frames s1; roots := roots s1 ++ [o]; dfuel := dfuel s1 |} in
      match pget [m_name mi] (allobjs s2) with
      | None => set_all s2 (allobjs s2 ++ [([m_name mi], o)])
      | Some _ => s2                      (* duplicate module names (_handleDuplicateModule) are not modelled *)
      end
    end.

  Fixpoint add_modules (s : state) (m : N) (l : list modinfo) : state :=
    match l with
    | [] => s
    | mi :: l' => add_modules (add_module s m mi) (m + 1) l'
    end.

  Definition empty_state : state :=
    {| objs := fun _ => None; allobjs := []; mst := fun _ => UNPROCESSED; unproc := []; frames := [];
       roots := []; dfuel := length p + 4 |}.

  Definition init_state (sigma : list N) : state := set_unproc (add_modules empty_state 0 p) sigma.

  Definition mod_cost (mi : modinfo) : nat := length (expand_stmts (m_stmts mi)).
  Definition run_fuel : nat := fold_right (fun mi a => mod_cost mi + 2 + a)%nat 1%nat p.

  Definition run_state (sigma : list N) : result := run_machine run_fuel (init_state sigma).
End WithProject.

(* ---- post-processing: init_finalbaseobjects of compute_mro (bases that were None are resolved again) ---- *)
Definition final_base (s : state) (parent : option oid) (raw : path) (ib : path * option oid) : path * option oid :=
  match snd ib with
  | Some b => (full_name s b, Some b)
  | None =>
    match parent with
    | None => (fst ib, None)
    | Some par =>
      match class_of s (resolve_name s par raw) with
      | Some b => (full_name s b, Some b)
      | None => (fst ib, None)
      end
    end
  end.

Fixpoint zip_with {X Y Z} (f : X -> Y -> Z) (a : list X) (b : list Y) : list Z :=
  match a, b with
  | x :: a', y :: b' => f x y :: zip_with f a' b'
  | _, _ => []
  end.

Definition final_bases (s : state) (o : oid) : list (path * option oid) :=
  match objs s o with
  | Some ob => zip_with (final_base s (o_parent ob)) (o_rawbases ob) (o_initbases ob)
  | None => []
  end.

(* ---- System.find_object: 0 = None (external), 1 = found, 2 = LookupError ---- *)
Definition find_object (s : state) (k : path) : N * option oid :=
  match pget k (allobjs s) with
  | Some o => (1, Some o)
  | None =>
    match k with
    | [] => (0, None)
    | h :: rest =>
      match find (fun r => match objs s r with Some rb => N.eqb (o_name rb) h | None => false end) (roots s) with
      | None => (0, None)
      | Some r =>
        match pget (expand_name s r rest) (allobjs s) with
        | Some o => (1, Some o)
        | None => (2, None)
        end
      end
    end
  end.

(* ---- what the properties observe ---- *)
Definition reg_entry (s : state) (k : path) : option (N * N * N) :=
  match pget k (allobjs s) with
  | Some o => match objs s o with Some ob => Some (o_tag ob, o_kind ob, o_doc ob) | None => None end
  | None => None
  end.

(* the resolved bases of the class registered under k: (name as displayed, full name of the base object if resolved) *)
Definition bases_view (s : state) (k : path) : option (list (path * option path)) :=
  match pget k (allobjs s) with
  | Some o => Some (map (fun b => (fst b, match snd b with Some c => Some (full_name s c) | None => None end))
                        (final_bases s o))
  | None => None
  end.

(* an observation of the final state of a run; None when the machine does not reach one *)
Definition run_view {X} (p : project) (sigma : list N) (f : state -> X) : option X :=
  match run_state p sigma with
  | Ok s => Some (f s)
  | _ => None
  end.

Definition alias_view (s : state) (k : path) (n : N) : option path :=
  match pget k (allobjs s) with
  | Some o => match objs s o with Some ob => nget n (o_alias ob) | None => None end
  | None => None
  end.

Definition contents_view (s : state) (k : path) : option (list N) :=
  match pget k (allobjs s) with
  | Some o => match objs s o with Some ob => Some (map fst (o_contents ob)) | None => None end
  | None => None
  end.

Definition keys_view (s : state) : list path := map fst (allobjs s).

(* the base OBJECTS that compute_mro finally keeps for the class registered under k (None for each unresolved base) *)
Definition baseobjs_view (s : state) (k : path) : option (list (option path)) :=
  match pget k (allobjs s) with
  | Some o =>
    match tag_of s o with
    | Some t => if N.eqb t T_CLASS
                then Some (map (fun b => match snd b with Some c => Some (full_name s c) | None => None end) (final_bases s o))
                else None
    | None => None
    end
  | None => None
  end.
