(* Model/Mro.v -- pydoctor/mro.py (all of it) and the parts of pydoctor/model.py and
   pydoctor/templatewriter/util.py that consume the linearisation:
     mro.Dependency.head/tail, DependencyList.__contains__/heads/exhausted/remove, mro._merge, mro.mro,
     model.compute_mro (init_finalbaseobjects cycle detection, getbases), Class._init_mro, Class.allbases,
     Class.mro(), Class.find, Inheritable.docsources, model.get_docstring,
     templatewriter.util.nested_bases / unmasked_attrs, pages.get_override_info (first loop).
   Definitions only (no proofs) so that the model runs even when a proof breaks.

   Classes are numbers (N).  A hierarchy is an association list  class -> list of bases  (what
   `getbases` returns: resolved Class objects, or expanded names for bases that are not documented
   classes; the latter are exactly the numbers that are not keys of the list and they are leaves).
   Python truthiness of a class object / base name: the number 0 stands for a falsy object (an empty
   base-name string; Python's own 0 when mro.mro is driven with integers as the harness does).
   Exceptions are values: MValueError is `raise ValueError(...)`, MOutOfFuel is the explicit
   out-of-fuel value that the theorems exclude. *)
From Coq Require Import ZArith NArith List Bool.
From PydoctorVerif Require Import Base.Sexp.
Import ListNotations.

Definition cls := N.
Definition hier := list (cls * list cls).

Inductive mres : Type := MOk (l : list cls) | MValueError | MOutOfFuel.

(* bool(obj) *)
Definition truthy (c : cls) : bool := negb (N.eqb c 0).

(* ---- mro.Dependency (a deque) ------------------------------------------------------------- *)
(* head: self[0], None on IndexError *)
Definition d_head (d : list cls) : option cls :=
  match d with [] => None | x :: _ => Some x end.
(* tail: islice(self, 1, len(self)) *)
Definition d_tail (d : list cls) : list cls :=
  match d with [] => [] | _ :: t => t end.
(* `item in l.tail` *)
Definition mem (c : cls) (l : list cls) : bool := existsb (N.eqb c) l.

(* ---- mro.DependencyList ------------------------------------------------------------------- *)
(* __contains__: any([item in l.tail for l in self._lists]) *)
Definition in_tails (item : cls) (ls : list (list cls)) : bool :=
  existsb (fun l => mem item (d_tail l)) ls.
(* heads: [h.head for h in self._lists]  -- None for an exhausted list *)
Definition heads (ls : list (list cls)) : list (option cls) := map d_head ls.
(* exhausted: all(map(lambda x: len(x) == 0, self._lists)) *)
Definition exhausted (ls : list (list cls)) : bool :=
  forallb (fun l => Nat.eqb (length l) 0) ls.
(* remove: for i in self._lists: if i and i.head == item: i.popleft()   (every list, emptied lists stay) *)
Definition dl_remove (item : cls) (ls : list (list cls)) : list (list cls) :=
  map (fun d => match d with
                | [] => d
                | x :: t => if N.eqb x item then t else d
                end) ls.

(* ---- mro._merge ---------------------------------------------------------------------------- *)
(* for head in linearizations.heads: if head and (head not in linearizations.tails): ... break
   else: raise ValueError     -- returns the head the loop breaks on, None when it never breaks *)
Fixpoint first_candidate (hs : list (option cls)) (ls : list (list cls)) : option cls :=
  match hs with
  | [] => None
  | h :: hs' =>
    match h with
    | Some c => if truthy c && negb (in_tails c ls) then Some c else first_candidate hs' ls
    | None => first_candidate hs' ls
    end
  end.

(* while True: one unit of fuel per iteration *)
Fixpoint merge_loop (fuel : nat) (ls : list (list cls)) (result : list cls) : mres :=
  match fuel with
  | O => MOutOfFuel
  | S f =>
    if exhausted ls then MOk result
    else match first_candidate (heads ls) ls with
         | Some h => merge_loop f (dl_remove h ls) (result ++ [h])
         | None => MValueError
         end
  end.

Definition total_len (ls : list (list cls)) : nat :=
  fold_right (fun l n => length l + n) 0 ls.

Definition merge (ls : list (list cls)) : mres := merge_loop (S (total_len ls)) ls [].

(* ---- mro.mro ------------------------------------------------------------------------------- *)
Fixpoint assoc {X : Type} (c : cls) (h : list (cls * X)) : option X :=
  match h with
  | [] => None
  | (k, v) :: h' => if N.eqb k c then Some v else assoc c h'
  end.

Definition getbases (h : hier) (c : cls) : list cls :=
  match assoc c h with Some bs => bs | None => [] end.
(* isinstance(o, Class): a documented class, as opposed to the name of an unresolved base *)
Definition is_class (h : hier) (c : cls) : bool :=
  match assoc c h with Some _ => true | None => false end.

Inductive lres : Type := LOk (ms : list (list cls)) | LValueError | LOutOfFuel.

(* [mro(kls, getbases) for kls in getbases(cls)] : the first exception propagates *)
Fixpoint mro_all (f : cls -> mres) (bs : list cls) : lres :=
  match bs with
  | [] => LOk []
  | b :: bs' =>
    match f b with
    | MOk m => match mro_all f bs' with LOk ms => LOk (m :: ms) | e => e end
    | MValueError => LValueError
    | MOutOfFuel => LOutOfFuel
    end
  end.

Fixpoint mro (fuel : nat) (h : hier) (c : cls) : mres :=
  match fuel with
  | O => MOutOfFuel
  | S f =>
    match getbases h c with
    | [] => MOk [c]                                    (* if not getbases(cls): return result *)
    | bs =>
      match mro_all (mro f h) bs with
      | LOk ms => match merge (ms ++ [bs]) with        (* _merge( *[...], getbases(cls)) *)
                  | MOk r => MOk (c :: r)              (* result + ... *)
                  | e => e
                  end
      | LValueError => MValueError
      | LOutOfFuel => MOutOfFuel
      end
    end
  end.

(* ---- model.compute_mro --------------------------------------------------------------------- *)
Inductive dres : Type := DOk | DCycle | DOutOfFuel.

(* init_finalbaseobjects(o, path): `if o in path: raise ValueError(cycle)`, path.append(o), then for every
   base that is a Class object: init_finalbaseobjects(base, path.copy()).
   (The `_finalbaseobjects is not None: return` shortcut only skips sub-hierarchies that have already
   been walked to the end without an exception; it is not modelled.) *)
Fixpoint for_bases (f : cls -> dres) (bs : list cls) : dres :=
  match bs with
  | [] => DOk
  | b :: bs' => match f b with DOk => for_bases f bs' | e => e end
  end.

Fixpoint init_final (fuel : nat) (h : hier) (path : list cls) (o : cls) : dres :=
  match fuel with
  | O => DOutOfFuel
  | S f =>
    if mem o path then DCycle
    else for_bases (init_final f h (path ++ [o])) (filter (is_class h) (getbases h o))
  end.

Inductive cres_kind : Type := KOk | KLinearization | KCycle | KFuel.

Definition mro_fuel (h : hier) : nat := S (length h).

(* compute_mro(cls): init_finalbaseobjects(cls); return mro.mro(cls, getbases) *)
Definition compute_mro (h : hier) (c : cls) : cres_kind * list cls :=
  match init_final (mro_fuel h) h [] c with
  | DCycle => (KCycle, [])
  | DOutOfFuel => (KFuel, [])
  | DOk => match mro (mro_fuel h) h c with
           | MOk l => (KOk, l)
           | MValueError => (KLinearization, [])
           | MOutOfFuel => (KFuel, [])
           end
  end.

(* Class.allbases(include_self=True): yield self; for b in baseobjects: if b is not None: yield from b.allbases(True)
   (baseobjects holds None for the bases that are not Class objects).
   Exact whenever init_finalbaseobjects has succeeded (all bases are the final ones).  After a CYCLE
   error the real code walks the bases as resolved at visit time (creation order, hence finite); that
   list is not modelled and the harness does not compare it. *)
Fixpoint allbases (fuel : nat) (h : hier) (c : cls) : list cls :=
  match fuel with
  | O => []
  | S f => c :: flat_map (allbases f h) (filter (is_class h) (getbases h c))
  end.

(* Class._init_mro: try: self._mro = compute_mro(self) except ValueError as e: self.report(str(e), 'mro');
   self._mro = list(self.allbases(True)).     Returns (kind, _mro); kind <> KOk means a warning of section 'mro'. *)
Definition init_mro (h : hier) (c : cls) : cres_kind * list cls :=
  match compute_mro h c with
  | (KOk, l) => (KOk, l)
  | (k, _) => (k, allbases (mro_fuel h) h c)
  end.

(* Class.mro(include_external=False, include_self=True): drops the names of external bases *)
Definition class_mro (h : hier) (c : cls) : list cls := filter (is_class h) (snd (init_mro h c)).

(* ---- members ------------------------------------------------------------------------------- *)
(* A member: its name, its docstring (None = no docstring, Some 0 = the empty string '',
   Some k (k > 0) = a non-empty docstring identified by k) and whether it is hidden
   (m_hidden o = `not o.isVisible`: the member itself or the class/module that holds it has
   privacy class HIDDEN, e.g. through --privacy). *)
Record member : Type := { m_name : N; m_doc : option N; m_hidden : bool }.
Definition namespace := cls -> list member.        (* Class.contents, insertion order, names distinct *)

(* contents.get(name) *)
Definition contents_get (ns : namespace) (c : cls) (name : N) : option member :=
  find (fun m => N.eqb (m_name m) name) (ns c).

(* Class.find: for base in self.mro(): obj = base.contents.get(name); if obj is not None: return obj *)
Fixpoint find_in (ns : namespace) (m : list cls) (name : N) : option (cls * member) :=
  match m with
  | [] => None
  | base :: m' => match contents_get ns base name with
                  | Some obj => Some (base, obj)
                  | None => find_in ns m' name
                  end
  end.
Definition class_find (h : hier) (ns : namespace) (c : cls) (name : N) : option (cls * member) :=
  find_in ns (class_mro h c) name.

(* Inheritable.docsources of the member `name` defined in class c:
   yield self; for b in self.parent.mro(include_self=False): if self.name in b.contents: yield b.contents[self.name] *)
Definition docsources_of (ns : namespace) (m : list cls) (c : cls) (self : member) : list (cls * member) :=
  (c, self) ::
  flat_map (fun b => match contents_get ns b (m_name self) with Some o => [(b, o)] | None => [] end) (d_tail m).
Definition docsources (h : hier) (ns : namespace) (c : cls) (self : member) : list (cls * member) :=
  docsources_of ns (class_mro h c) c self.

(* model.get_docstring: for source in obj.docsources(): doc = source.docstring; if doc: return doc, source;
   if doc is not None: return None, source;    return None, None *)
Fixpoint get_docstring_from (srcs : list (cls * member)) : option N * option cls :=
  match srcs with
  | [] => (None, None)
  | (b, o) :: rest =>
    match m_doc o with
    | Some d => if negb (N.eqb d 0) then (Some d, Some b) else (None, Some b)
    | None => get_docstring_from rest
    end
  end.
Definition get_docstring (h : hier) (ns : namespace) (c : cls) (self : member) : option N * option cls :=
  get_docstring_from (docsources h ns c self).

(* templatewriter.util.nested_bases: for i, _ in enumerate(_mro): yield tuple(reversed(_mro[:(i+1)])) *)
Definition nested_bases_of (m : list cls) : list (list cls) :=
  map (fun i => rev (firstn (S i) m)) (seq 0 (length m)).
(* templatewriter.util.unmasked_attrs:
   maybe_masking = {o.name for b in baselist[1:] for o in b.contents.values()}      (hidden members mask too)
   [o for o in baselist[0].contents.values() if o.isVisible and o.name not in maybe_masking] *)
Definition unmasked_attrs (ns : namespace) (baselist : list cls) : list member :=
  match baselist with
  | [] => []
  | b0 :: rest =>
    let maybe_masking := flat_map (fun b => map m_name (ns b)) rest in
    filter (fun o => negb (m_hidden o) && negb (mem (m_name o) maybe_masking)) (ns b0)
  end.
(* templatewriter.util.class_members *)
Definition class_members (h : hier) (ns : namespace) (c : cls) : list (list cls * list member) :=
  filter (fun p => negb (Nat.eqb (length (snd p)) 0))
         (map (fun bl => (bl, unmasked_attrs ns bl)) (nested_bases_of (class_mro h c))).

(* pages.get_override_info, first loop: for b in cls.mro(include_self=False): if member_name in b.contents: ... break *)
Definition overrides (h : hier) (ns : namespace) (c : cls) (name : N) : option (cls * member) :=
  find_in ns (d_tail (class_mro h c)) name.

(* ---- wire codec ---------------------------------------------------------------------------- *)
(* input  := ( fn payload )
     fn 0 : payload = ( (c ...) ... )                      -> ( status (c ...) )          merge
            status: 0 ok | 1 ValueError | 2 out of fuel
     fn 1 : payload = hierarchy ( (c (b ...)) ... )        -> ( (c kind (m ...) (raw ...)) ... )   for every key, in order
            kind: 0 ok | 1 ValueError (linearization) | 2 out of fuel | 3 ValueError (cycle)
            m = Class._mro after _init_mro ; raw = what mro.mro alone answers: ( status (c ...) )
     fn 2 : payload = ( hierarchy members names )   members := ( (c ((name doc hidden) ...)) ... )  doc := () | (k)  hidden := 0 | 1
            -> for every key c: ( c (find ...) (member ...) (chain ...) (ovr ...) )
               find   := for every name of `names`: () | (definer)
               member := for every own member: ( name (source ...) doc src )   doc := ()|(k)  src := ()|(cls)
               chain  := ( (baselist ...) (name ...) )        templatewriter.util.class_members
               ovr    := for every own member: () | (overridden class)                                  *)
Definition mres_sexp (r : mres) : sexp :=
  match r with
  | MOk l => L [A 0; of_list of_N l]
  | MValueError => L [A 1; L []]
  | MOutOfFuel => L [A 2; L []]
  end.

Definition kind_Z (k : cres_kind) : Z :=
  match k with KOk => 0 | KLinearization => 1 | KFuel => 2 | KCycle => 3 end.

Definition to_clist (s : sexp) : list cls := map to_N (to_list s).
Definition to_hier (s : sexp) : hier :=
  map (fun e => (to_N (nth_s 0 e), to_clist (nth_s 1 e))) (to_list s).

Definition to_member (s : sexp) : member :=
  {| m_name := to_N (nth_s 0 s); m_doc := to_option to_N (nth_s 1 s); m_hidden := to_bool (nth_s 2 s) |}.
Definition to_namespace (s : sexp) : namespace :=
  let table := map (fun e => (to_N (nth_s 0 e), map to_member (to_list (nth_s 1 e)))) (to_list s) in
  fun c => match assoc c table with Some ms => ms | None => [] end.

Definition run_hier (h : hier) : sexp :=
  L (map (fun e => let c := fst e in
                   let '(k, m) := init_mro h c in
                   L [of_N c; A (kind_Z k); of_list of_N m; mres_sexp (mro (mro_fuel h) h c)]) h).

Definition run_members (h : hier) (ns : namespace) (names : list N) : sexp :=
  L (map (fun e =>
      let c := fst e in
      L [ of_N c;
          L (map (fun n => of_option (fun p => of_N (fst p)) (class_find h ns c n)) names);
          L (map (fun o =>
                let '(d, s) := get_docstring h ns c o in
                L [of_N (m_name o); of_list (fun p => of_N (fst p)) (docsources h ns c o);
                   of_option of_N d; of_option of_N s]) (ns c));
          L (map (fun p => L [of_list of_N (fst p); of_list (fun o => of_N (m_name o)) (snd p)])
                 (class_members h ns c));
          L (map (fun o => of_option (fun p => of_N (fst p)) (overrides h ns c (m_name o))) (ns c)) ]) h).

Definition run (s : sexp) : sexp :=
  let payload := nth_s 1 s in
  match to_Z (nth_s 0 s) with
  | 0%Z => mres_sexp (merge (map to_clist (to_list payload)))
  | 1%Z => run_hier (to_hier payload)
  | 2%Z => run_members (to_hier (nth_s 0 payload)) (to_namespace (nth_s 1 payload)) (to_clist (nth_s 2 payload))
  | _ => bad_input
  end.
