(* Model/SigIR.v -- a small deep-embedded language, large enough for the part of
   pydoctor/astbuilder.py : ModuleVistor._handleFunctionDef that walks ast.arguments, aligns the defaults and
   builds the list of inspect parameters, and for ModuleVistor._annotations_from_function; and its interpreter.
   Gen/SigCode.v (written by harness/gen/gen_c14_code.py on every run, fail-closed) holds the two pieces of code
   translated from the CURRENT source; Proofs/SigIRProofs.v proves that interpreting them is Model/Sig.v.
   Definitions only.

   The language is a language of PRODUCERS: both pieces of code compute one sequence (the inspect parameters; the
   (name, annotation) entries of the mapping) by loops, conditionals, generators and calls of local closures.
     prods   QEmit e            parameters.append(e) / yield e / mapping[k] = v (as the pair (k, v))
             QLet p e           p = e        (a local; visible in what follows in the same block)
             QFor p src body    for p in src: body
             QIf c th el        if c: th else: el
             QAssert c          assert c     (a failed assert leaves VErr in the sequence)
     expr    the pure expressions these bodies use; EProduced ps = the list of what a generator yields;
             EDictOf ps = the dict built from the (key, value) pairs produced; ELet / EAssert = the body of a local
             closure that returns a value, inlined at its call (call by value: the argument is let-bound first).
   What the translator does besides transcription (harness/gen/gen_c14_code.py says where): calls of local closures
   are inlined with let-bound arguments; `x = []` / `x = {}` followed only by x.append(..) / x[k] = v is read as the
   sequence produced; `if node:` on an optional AST node is read as `node is not None`.

   Primitives (their meaning here is a stated assumption, see each constructor): the AST accessors, len, enumerate,
   zip, subscript, + and - on ints (and + on lists), comparisons, dict.get, and
     EUnstring e      astutils.unstring_annotation(e, ctx)       -> Model.Sig.unstring_annotation (first component;
                                                                   the report it may make is outside this language)
     EFormatter e     _ValueFormatter(e, ctx=func) / _AnnotationValueFormatter(e, ctx=func) / cast(T, e):
                      the object stands for the expression it wraps (its text is C15)
     EParam n k d a   inspect's parameter constructor; EEmpty is its `empty` marker
     epydoc2stan.VariableArgument / KeywordArgument (str subclasses)  -> the string itself                      *)
From Coq Require Import ZArith NArith List Bool.
From PydoctorVerif Require Import Base.Sexp Spec.SigStr Model.Sig.
Import ListNotations.
Local Open Scope Z_scope.

Definition var := N.

(* attributes of the AST objects that are read *)
Inductive field :=
| FArgs | FReturns                                                        (* FunctionDef *)
| FPosonly | FArgsList | FVararg | FKwonly | FKwDefaults | FKwarg | FDefaults   (* ast.arguments *)
| FArg | FAnnotation.                                                     (* ast.arg *)

Inductive pat := PVar (x : var) | PTup (ps : list pat).

Inductive expr :=
| EVar (x : var) | ENone | EInt (z : Z) | EText (t : text) | EKind (k : kind) | EEmpty | ENil
| EField (e : expr) (f : field)
| ELen (e : expr) | EAdd (a b : expr) | EMinus (a b : expr)
| ELt (a b : expr) | ELe (a b : expr) | EEq (a b : expr) | EAnd (a b : expr) | EIsNone (e : expr) | ENot (e : expr)
| EIf (c a b : expr)                          (* a if c else b *)
| EIndex (l i : expr)                         (* l[i], Python indexing: negative i counts from the end *)
| ETuple (es : exprs)
| EEnumerate (l start : expr) | EZip (a b : expr)
| EListComp (p : pat) (src body : expr)       (* [body for p in src] *)
| ELet (x : var) (e body : expr)
| EAssert (c body : expr)
| EDictGet (d k : expr)
| EUnstring (e : expr) | EFormatter (e : expr)
| EParam (name knd default annot : expr)
| EAnnotationsOf (node : expr)                (* self._annotations_from_function(node) *)
with exprs := XNil | XCons (e : expr) (r : exprs).

Inductive prods :=
| QNil
| QEmit (e : expr) (r : prods)
| QLet (p : pat) (e : expr) (r : prods)
| QFor (p : pat) (src : source) (body r : prods)
| QIf (c : expr) (th el r : prods)
| QAssert (c : expr) (r : prods)
with source :=
| SExpr (e : expr)                            (* for p in <expression> *)
| SGen (ps : prods).                          (* for p in <call of a local generator>: what its body yields *)

Inductive value :=
| VNone | VBool (b : bool) | VInt (z : Z) | VStr (t : text) | VKind (k : kind) | VEmpty
| VExprV (e : SigStr.expr) | VArg (a : ast_arg) | VArgs (a : ast_args) | VDef (d : funcdef)
| VList (l : list value) | VTuple (l : list value)
| VParam (p : param) | VDict (d : dict)
| VErr.                                        (* the program did something the language gives no meaning to *)

(* the locals: an association list, most recent binding first; an unbound name reads as VErr *)
Definition env := list (var * value).
Definition env0 : env := [].
Definition set (e : env) (x : var) (v : value) : env := (x, v) :: e.
Fixpoint get (e : env) (x : var) : value :=
  match e with
  | [] => VErr
  | (y, v) :: r => if N.eqb y x then v else get r x
  end.

Fixpoint same_len {A B} (a : list A) (b : list B) : bool :=
  match a, b with
  | [], [] => true
  | _ :: a', _ :: b' => same_len a' b'
  | _, _ => false
  end.

(* tuple unpacking: a value that is not a tuple of the right length leaves VErr in every name *)
Fixpoint bind_tuple (p : pat) (v : value) (e : env) : env :=
  match p with
  | PVar x => set e x v
  | PTup ps =>
    (fix go (ps : list pat) (vs : list value) (e : env) : env :=
       match ps with
       | [] => e
       | p :: ps' =>
         match vs with
         | v :: vs' => go ps' vs' (bind_tuple p v e)
         | [] => go ps' [] (bind_tuple p VErr e)
         end
       end) ps (match v with VTuple vs => if same_len vs ps then vs else [] | _ => [] end) e
  end.

(* binding a loop / comprehension target; a plain name needs no look at the value *)
Definition bind (p : pat) (v : value) (e : env) : env :=
  match p with
  | PVar x => set e x v
  | PTup _ => bind_tuple p v e
  end.

Definition of_opt_expr (o : option SigStr.expr) : value := match o with Some e => VExprV e | None => VNone end.
Definition of_opt_arg (o : option ast_arg) : value := match o with Some a => VArg a | None => VNone end.

Definition get_field (v : value) (f : field) : value :=
  match v, f with
  | VDef d, FArgs => VArgs (fd_args d)
  | VDef d, FReturns => of_opt_expr (fd_returns d)
  | VArgs a, FPosonly => VList (map VArg (posonlyargs a))
  | VArgs a, FArgsList => VList (map VArg (args a))
  | VArgs a, FVararg => of_opt_arg (vararg a)
  | VArgs a, FKwonly => VList (map VArg (kwonlyargs a))
  | VArgs a, FKwDefaults => VList (map of_opt_expr (kw_defaults a))
  | VArgs a, FKwarg => of_opt_arg (kwarg a)
  | VArgs a, FDefaults => VList (map VExprV (defaults a))
  | VArg a, FArg => VStr (a_name a)
  | VArg a, FAnnotation => of_opt_expr (a_annot a)
  | _, _ => VErr
  end.

Definition as_list (v : value) : option (list value) :=
  match v with VList l => Some l | VTuple l => Some l | _ => None end.

Fixpoint enumerate_from (start : Z) (l : list value) : list value :=
  match l with
  | [] => []
  | x :: r => VTuple [VInt start; x] :: enumerate_from (start + 1) r
  end.

Fixpoint zip_values (a b : list value) : list value :=
  match a, b with
  | x :: a', y :: b' => VTuple [x; y] :: zip_values a' b'
  | _, _ => []
  end.

Definition index_value (l : list value) (i : Z) : value :=
  let n := Z.of_nat (length l) in
  if (0 <=? i) && (i <? n) then nth (Z.to_nat i) l VErr
  else if (- n <=? i) && (i <? 0) then nth (Z.to_nat (n + i)) l VErr
  else VErr.                                                                   (* IndexError *)

Definition to_opt_expr (v : value) : option (option SigStr.expr) :=
  match v with VNone | VEmpty => Some None | VExprV e => Some (Some e) | _ => None end.

(* the dict built by storing the produced (key, value) pairs in order *)
Fixpoint dict_of_pairs (l : list value) (d : dict) : option dict :=
  match l with
  | [] => Some d
  | VTuple [VStr k; v] :: r =>
    match to_opt_expr v with
    | Some o => dict_of_pairs r (dict_set k o d)
    | None => None
    end
  | _ => None
  end.

Definition value_eqb (a b : value) : option bool :=
  match a, b with
  | VInt x, VInt y => Some (Z.eqb x y)
  | _, _ => None
  end.

Section Eval.
  Variable annotations_of : value -> value.

  Fixpoint eval (x : expr) (e : env) : value :=
    match x with
    | EVar v => get e v
    | ENone => VNone
    | EInt z => VInt z
    | EText t => VStr t
    | EKind k => VKind k
    | EEmpty => VEmpty
    | ENil => VTuple []
    | EField a f => get_field (eval a e) f
    | ELen a => match as_list (eval a e) with Some l => VInt (Z.of_nat (length l)) | None => VErr end
    | EAdd a b =>
      match eval a e, eval b e with
      | VInt p, VInt q => VInt (p + q)
      | VList p, VList q => VList (p ++ q)
      | _, _ => VErr
      end
    | EMinus a b => match eval a e, eval b e with VInt p, VInt q => VInt (p - q) | _, _ => VErr end
    | ELt a b => match eval a e, eval b e with VInt p, VInt q => VBool (p <? q) | _, _ => VErr end
    | ELe a b => match eval a e, eval b e with VInt p, VInt q => VBool (p <=? q) | _, _ => VErr end
    | EEq a b => match value_eqb (eval a e) (eval b e) with Some r => VBool r | None => VErr end
    | EAnd a b => match eval a e with VBool false => VBool false | VBool true => eval b e | _ => VErr end
    | EIsNone a => match eval a e with VNone => VBool true | VErr => VErr | _ => VBool false end
    | ENot a => match eval a e with VBool r => VBool (negb r) | _ => VErr end
    | EIf c a b => match eval c e with VBool true => eval a e | VBool false => eval b e | _ => VErr end
    | EIndex l i =>
      match as_list (eval l e), eval i e with
      | Some vs, VInt z => index_value vs z
      | _, _ => VErr
      end
    | ETuple es => VTuple (eval_list es e)
    | EEnumerate l s =>
      match as_list (eval l e), eval s e with
      | Some vs, VInt z => VList (enumerate_from z vs)
      | _, _ => VErr
      end
    | EZip a b =>
      match as_list (eval a e), as_list (eval b e) with
      | Some p, Some q => VList (zip_values p q)
      | _, _ => VErr
      end
    | EListComp p src body =>
      match as_list (eval src e) with
      | Some vs => VList (map (fun v => eval body (bind p v e)) vs)
      | None => VErr
      end
    | ELet v a body => eval body (set e v (eval a e))
    | EAssert c body => match eval c e with VBool true => eval body e | _ => VErr end      (* AssertionError *)
    | EDictGet d k =>
      match eval d e, eval k e with
      | VDict m, VStr t => of_opt_expr (dict_get t m)
      | _, _ => VErr
      end
    | EUnstring a => match eval a e with VExprV u => VExprV (fst (unstring_annotation u)) | _ => VErr end
    | EFormatter a => match eval a e with VExprV u => VExprV u | _ => VErr end
    | EParam n k d a =>
      match eval n e, eval k e, to_opt_expr (eval d e), to_opt_expr (eval a e) with
      | VStr t, VKind kk, Some dd, Some aa => VParam (mkParam t kk dd aa)
      | _, _, _, _ => VErr
      end
    | EAnnotationsOf n => annotations_of (eval n e)
    end
  with eval_list (es : exprs) (e : env) : list value :=
    match es with
    | XNil => []
    | XCons a r => eval a e :: eval_list r e
    end.

  (* Loop bodies are run by `body_run`; the levels below give loops nested at most twice inside a loop body (the
     translated code has none).  Stratifying like this keeps a loop body a closed term `produce1 body env`. *)
  Section Level.
    Variable body_run : prods -> env -> list value.

    Fixpoint produce_with (ps : prods) (e : env) : list value :=
      match ps with
      | QNil => []
      | QEmit a r => eval a e :: produce_with r e
      | QLet p a r =>
        produce_with r (bind p (eval a e) e)
      | QFor p src body r =>
        match (match src with SExpr x => as_list (eval x e) | SGen g => Some (produce_with g e) end) with
        | Some vs => flat_map (fun v => body_run body (bind p v e)) vs ++ produce_with r e
        | None => VErr :: produce_with r e
        end
      | QIf c th el r =>
        match eval c e with
        | VBool true => produce_with th e ++ produce_with r e
        | VBool false => produce_with el e ++ produce_with r e
        | _ => VErr :: produce_with r e
        end
      | QAssert c r =>
        match eval c e with
        | VBool true => produce_with r e
        | _ => VErr :: produce_with r e
        end
      end.
  End Level.

  Definition produce0 : prods -> env -> list value := produce_with (fun _ _ => [VErr]).   (* too deep *)
  Definition produce1 : prods -> env -> list value := produce_with produce0.
  Definition produce2 : prods -> env -> list value := produce_with produce1.
  Definition produce : prods -> env -> list value := produce_with produce2.
End Eval.

(* The two pieces of code, as the translator emits them. *)
Record code := {
  c_annotations : prods; c_annotations_func : var;      (* _annotations_from_function(self, func): the (name, value) entries
                                                           stored in the mapping it returns, in order *)
  c_parameters : prods;  c_parameters_node : var;       (* the part of _handleFunctionDef(self, node, ..) producing `parameters` *)
}.

Section Interp.
  Variable C : code.

  Definition no_annotations (_ : value) : value := VErr.   (* _annotations_from_function does not call itself *)

  Definition annotations_ir (node : value) : value :=
    match dict_of_pairs (produce no_annotations (c_annotations C) (set env0 (c_annotations_func C) node)) [] with
    | Some d => VDict d
    | None => VErr
    end.

  Definition parameters_ir (d : funcdef) : list value :=
    produce annotations_ir (c_parameters C) (set env0 (c_parameters_node C) (VDef d)).
End Interp.

(* wire: (def)  ->  (annotations-as-list-of-(key [value])  parameters-or-error)  -- used as a third correspondence leg *)
Definition value_param (v : value) : option param := match v with VParam p => Some p | _ => None end.
Fixpoint all_params (l : list value) : option (list param) :=
  match l with
  | [] => Some []
  | v :: r => match value_param v, all_params r with Some p, Some ps => Some (p :: ps) | _, _ => None end
  end.
