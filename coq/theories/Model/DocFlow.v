(* Model/DocFlow.v -- the control flow of pydoctor's docstring pipeline (C08):

     epydoc2stan._get_docformat / parse_docstring / reportErrors / ensure_parsed_docstring /
     _get_parsed_summary / safe_to_stan / format_docstring(+_fallback) / format_summary(+_fallback) /
     format_toc / extract_fields,   markup.processtypes (the wrapper),   ParsedDocstring.get_summary /
     get_toc,   plaintext.parse_docstring / ParsedPlaintextDocstring.to_stan,   and the tail of
     epytext.parse (`raise next(e for e in errors if e.is_fatal())`).

   Definitions only (no proofs).  The markup parsers, docutils, node2stan and the type tokenizer are
   ORACLES (record `oracles`): the theorems quantify over every behaviour of them (return, raise
   ParseError, raise another Exception).  The plaintext parser/renderer is NOT an oracle: it is the
   total function  text -> <p class="pre">text</p>.

   Objects are ids (`oid`); `docstring`, `parent` and the module's `__docformat__` are fixed
   configuration (none of the modelled functions writes them); `model.get_docstring` is restricted to
   a given list of documentation sources per object (`inherits`: which objects those are is C05's business);
   the `source` argument is kept everywhere it exists in the Python code.  System.parse_errors is keyed by (section, fullName); the
   model keys it by (section, oid), i.e. it assumes fullName is injective on the objects involved. *)
From Coq Require Import ZArith NArith List Bool.
From PydoctorVerif Require Import Base.Sexp.
Import ListNotations.
Local Open Scope N_scope.

Definition oid := N.

(* ---- docformats: 0 epytext, 1 restructuredtext, 2 google, 3 numpy, 4 plaintext, >= 5: a name for which
   get_parser_by_name raises ImportError *)
Definition F_PLAINTEXT : N := 4.
Definition fmt_known (f : N) : bool := f <? 5.
(* _docformat_skip_processtypes = ('google', 'numpy', 'plaintext') *)
Definition skip_processtypes (f : N) : bool := (f =? 2) || (f =? 3) || (f =? 4).

(* section names: 0 = 'docstring' (the only one these functions use by default) *)
Definition SEC_DOCSTRING : N := 0.

(* ---- what is rendered *)
Inductive stan : Type :=
| SPre (t : text)            (* tags.p(text, class_='pre') : ParsedPlaintextDocstring.to_stan *)
| SMark (id : N)             (* whatever to_stan of an opaque parsed docstring returned *)
| SBroken                    (* epydoc2stan.BROKEN : <p class="undocumented">Broken description</p> *)
| SUndocSpan (o : oid)       (* format_undocumented(obj) *)
| SBrokenSummary             (* <span class="undocumented">Broken summary</span> *)
| SNoSummary.                (* <span class="undocumented">No summary</span> *)

Inductive parsed : Type :=
| PPlain (t : text)          (* ParsedPlaintextDocstring(t) *)
| PMark (id : N)             (* an opaque ParsedDocstring produced by an oracle *)
| PStanOnly (s : stan).      (* epydoc2stan.ParsedStanOnly(s) *)

(* ParseError objects that end up in reports *)
Inductive perr : Type :=
| EParser (k : N)            (* appended to `errs` by a parser / by processtypes *)
| EParseExc                  (* ParseError(f'{e.__class__.__name__}: {e}', 1)  made by parse_docstring *)
| EToStanExc.                (* get_to_stan_error(e) = ParseError(..., 0)      made by safe_to_stan *)

(* ---- oracle results *)
(* parser(doc, errs): errs = what was appended to the list before returning / raising *)
Inductive presult : Type :=
| PR_ok (p : N) (errs : list N)
| PR_parse_error (errs : list N)        (* raises ParseError *)
| PR_exception (errs : list N).         (* raises any other Exception *)

(* markup.processtypes._processtypes(doc, errs): replaces type-field bodies; may append warnings *)
Inductive ptresult : Type :=
| PT_ok (p' : N) (warns : list N)
| PT_parse_error (warns : list N)
| PT_exception (warns : list N).

(* to_node() + SummaryExtractor + walk, inside get_summary's try *)
Inductive sumres : Type := SumSome (p : N) | SumNone | SumRaise.

(* get_toc: to_node() raises NotImplementedError / raises something else / no titles / a toc document *)
Inductive tocres : Type := TocNotImpl | TocRaise | TocEmpty | TocSome (p : N).

Record oracles : Type := {
  parser : N -> text -> presult;           (* get_parser_by_name(docformat, obj)(doc, errs), docformat known, not plaintext *)
  ptypes : N -> ptresult;
  to_stan : N -> option N;                 (* None: to_stan raises some Exception *)
  fields_of : N -> list N;                 (* bodies of the fields FieldHandler renders, in rendering order *)
  var_fields : N -> list (oid * N);        (* @ivar/@cvar/@var fields as extract_fields sees them: (attribute, body) *)
  summary_node : N -> sumres;
  summary_plain : text -> sumres;          (* the same for ParsedPlaintextDocstring(text) (docutils nodes: an oracle too) *)
  toc_of : N -> tocres
}.

Record config : Type := {
  sys_fmt : N;                             (* system.options.docformat *)
  processtypes_on : bool;                  (* system.options.processtypes *)
  toc_enabled : bool;                      (* system.options.sidebartocdepth > 0 *)
  docstring : oid -> option text;          (* obj.docstring *)
  parent : oid -> option oid;              (* obj.parent *)
  mod_fmt : oid -> option N;               (* obj.module.docformat (None / '' = not set) *)
  inherits : oid -> list oid               (* obj.docsources() after obj itself: the same name in the base classes, MRO order *)
}.

Definition report : Type := (oid * N * perr)%type.     (* who, section, error *)

Record state : Type := mkState {
  parse_errors : list (N * oid);           (* System.parse_errors[section] as (section, object) pairs *)
  reports : list report;                   (* obj.report(...) calls made by reportErrors, in order *)
  pdoc : oid -> option parsed;             (* obj.parsed_docstring *)
  psum : oid -> option parsed              (* obj.parsed_summary *)
}.

Definition upd {X} (f : oid -> X) (o : oid) (v : X) : oid -> X := fun x => if N.eqb x o then v else f x.

Definition set_pdoc (st : state) (o : oid) (v : option parsed) : state :=
  mkState (parse_errors st) (reports st) (upd (pdoc st) o v) (psum st).
Definition set_psum (st : state) (o : oid) (v : option parsed) : state :=
  mkState (parse_errors st) (reports st) (pdoc st) (upd (psum st) o v).

Fixpoint mem_pe (sec : N) (o : oid) (l : list (N * oid)) : bool :=
  match l with
  | [] => false
  | (s, x) :: l' => (N.eqb s sec && N.eqb x o) || mem_pe sec o l'
  end.

Inductive outcome (X : Type) : Type := Ok (x : X) | Raised.
Arguments Ok {X} _.
Arguments Raised {X}.

(* ---- reportErrors(obj, errs, section) *)
Definition report_errors (st : state) (who : oid) (errs : list perr) (section : N) : state :=
  match errs with
  | [] => st                                                     (* if not errs: return *)
  | _ :: _ =>
    if mem_pe section who (parse_errors st) then st              (* if obj.fullName() not in errors: *)
    else mkState ((section, who) :: parse_errors st)             (*     errors.add(obj.fullName()) *)
                 (reports st ++ map (fun e => (who, section, e)) errs)   (* for err in errs: obj.report(...) *)
                 (pdoc st) (psum st)
  end.

(* ---- _get_docformat(source) *)
Definition get_docformat (c : config) (source : oid) : N :=
  if sys_fmt c =? F_PLAINTEXT then F_PLAINTEXT
  else match mod_fmt c source with Some f => f | None => sys_fmt c end.

(* what a call `parser(doc, errs)` amounts to: outcome + the errs list afterwards *)
Inductive pres : Type :=
| PRok (p : parsed) (errs : list perr)
| PRpe (errs : list perr)
| PRexc (errs : list perr).

(* get_parser_by_name(docformat, obj), with the ImportError branch of parse_docstring folded in:
   an unknown name gives the plaintext parser (after a once-only message), 'plaintext' is the
   plaintext parser itself; plaintext.parse_docstring(doc, errs) = ParsedPlaintextDocstring(doc), no errors. *)
Definition base_parser (O : oracles) (docformat : N) : text -> pres :=
  fun doc =>
    if fmt_known docformat && negb (docformat =? F_PLAINTEXT) then
      match parser O docformat doc with
      | PR_ok p errs => PRok (PMark p) (map EParser errs)
      | PR_parse_error errs => PRpe (map EParser errs)
      | PR_exception errs => PRexc (map EParser errs)
      end
    else PRok (PPlain doc) [].

(* markup.processtypes(parse): parse, then _processtypes(parsed_doc, errs) *)
Definition processtypes_wrap (O : oracles) (parse : text -> pres) : text -> pres :=
  fun doc =>
    match parse doc with
    | PRok (PMark p) errs =>
      match ptypes O p with
      | PT_ok p' w => PRok (PMark p') (errs ++ map EParser w)
      | PT_parse_error w => PRpe (errs ++ map EParser w)
      | PT_exception w => PRexc (errs ++ map EParser w)
      end
    | PRok other errs => PRok other errs      (* a plaintext docstring has no fields: nothing to process *)
    | PRpe errs => PRpe errs
    | PRexc errs => PRexc errs
    end.

Definition effective_parser (O : oracles) (c : config) (docformat : N) : text -> pres :=
  let p := base_parser O docformat in
  if processtypes_on c && negb (skip_processtypes docformat) then processtypes_wrap O p else p.

(* ---- parse_docstring(obj, doc, source, markup=None, section='docstring') *)
Definition parse_docstring (O : oracles) (c : config) (st : state)
           (obj : oid) (doc : text) (source : oid) (markup : option N) (section : N) : parsed * state :=
  let docformat := match markup with Some m => m | None => get_docformat c source end in
  let parse := effective_parser O c docformat in
  let '(parsed_doc, errs) :=
    match parse doc with
    | PRok p errs => (p, errs)
    | PRpe errs => (PPlain doc, errs)                           (* except ParseError: plaintext *)
    | PRexc errs => (PPlain doc, errs ++ [EParseExc])           (* except Exception: errs.append(...); plaintext *)
    end in
  (parsed_doc, match errs with [] => st | _ :: _ => report_errors st source errs section end).

(* ---- model.get_docstring(obj):
        for source in obj.docsources():
            doc = source.docstring
            if doc: return doc, source
            if doc is not None: return None, source      # empty docstring: undocumented, but a source
        return None, None *)
Fixpoint get_docstring_from (c : config) (sources : list oid) : option text * option oid :=
  match sources with
  | [] => (None, None)
  | s :: rest =>
    match docstring c s with
    | Some [] => (None, Some s)
    | Some t => (Some t, Some s)
    | None => get_docstring_from c rest
    end
  end.

Definition get_docstring (c : config) (o : oid) : option text * option oid :=
  get_docstring_from c (o :: inherits c o).

(* ---- ensure_parsed_docstring(obj) -> source | None ;  ds = model.get_docstring(obj) *)
Definition ensure_from (O : oracles) (c : config) (st : state) (o : oid) (ds : option text * option oid)
  : option oid * state :=
  let '(doc, source) := ds in
  let parsed_doc := pdoc st o in
  let source :=
    match source, parsed_doc with
    | None, Some _ => parent c o          (* a split field: documented by its parent's @ivar/@cvar/@var *)
    | _, _ => source
    end in
  let st1 :=
    match parsed_doc, doc, source with
    | None, Some d, Some src =>
      let '(pd, st') := parse_docstring O c st o d src None SEC_DOCSTRING in
      set_pdoc st' o (Some pd)
    | _, _, _ => st                       (* (None, Some d, None) cannot happen: get_docstring returns a source with every doc *)
    end in
  match pdoc st1 o with
  | Some _ => (source, st1)
  | None => (None, st1)
  end.

Definition ensure_parsed_docstring (O : oracles) (c : config) (st : state) (o : oid) : option oid * state :=
  ensure_from O c st o (get_docstring c o).

(* ---- ParsedDocstring.to_stan for the three kinds of parsed docstring *)
Definition to_stan_p (O : oracles) (pd : parsed) : option stan :=
  match pd with
  | PPlain t => Some (SPre t)
  | PMark p => match to_stan O p with Some s => Some (SMark s) | None => None end
  | PStanOnly s => Some s
  end.

Inductive fallback : Type :=
| FB_docstring       (* format_docstring_fallback *)
| FB_summary         (* format_summary_fallback *)
| FB_broken.         (* lambda _, __, ___: BROKEN *)

Definition run_fallback (c : config) (fb : fallback) (ctx : oid) (st : state) : stan * state :=
  match fb with
  | FB_docstring =>
    (match docstring c ctx with
     | None => SBroken
     | Some t => SPre t                  (* plaintext.parse_docstring(ctx.docstring, errs).to_stan(...) *)
     end, st)
  | FB_summary => (SBroken, set_psum st ctx (Some (PStanOnly SBroken)))
  | FB_broken => (SBroken, st)
  end.

(* ---- safe_to_stan(parsed_doc, linker, ctx, fallback, report=True, section='docstring') *)
Definition safe_to_stan (O : oracles) (c : config) (st : state) (pd : parsed) (ctx : oid)
           (fb : fallback) (do_report : bool) (section : N) : stan * state :=
  match to_stan_p O pd with
  | Some s => (s, st)
  | None =>
    let errs := [EToStanExc] in
    let '(s, st1) := run_fallback c fb ctx st in
    (s, if do_report then report_errors st1 ctx errs section else st1)
  end.

(* ---- format_docstring(obj) *)
Inductive body : Type := BUndocumented | BStan (s : stan).
Record docres : Type := { d_body : body; d_fields : list stan }.

(* Field.format() for every rendered field: safe_to_stan(body, ..., source, fallback=BROKEN) *)
Fixpoint format_fields (O : oracles) (c : config) (st : state) (src : oid) (fs : list N) : list stan * state :=
  match fs with
  | [] => ([], st)
  | f :: fs' =>
    let '(s, st1) := safe_to_stan O c st (PMark f) src FB_broken true SEC_DOCSTRING in
    let '(ss, st2) := format_fields O c st1 src fs' in
    (s :: ss, st2)
  end.

Definition fields_p (O : oracles) (pd : parsed) : list N :=
  match pd with PMark p => fields_of O p | _ => [] end.

Definition format_docstring (O : oracles) (c : config) (st : state) (o : oid) : docres * state :=
  let '(source, st1) := ensure_parsed_docstring O c st o in
  match source, pdoc st1 o with
  | Some src, Some pd =>
    let '(s, st2) := safe_to_stan O c st1 pd src FB_docstring true SEC_DOCSTRING in
    let '(fs, st3) := format_fields O c st2 src (fields_p O pd) in
    ({| d_body := BStan s; d_fields := fs |}, st3)
  | _, _ => ({| d_body := BUndocumented; d_fields := [] |}, st1)
  end.

(* ---- ParsedDocstring.get_summary() *)
Definition get_summary (O : oracles) (pd : parsed) : parsed :=
  let r := match pd with
           | PPlain t => summary_plain O t
           | PMark p => summary_node O p
           | PStanOnly _ => SumRaise           (* to_node() raises NotImplementedError, caught by `except Exception` *)
           end in
  match r with
  | SumSome p => PMark p
  | SumNone => PStanOnly SNoSummary
  | SumRaise => PStanOnly SBrokenSummary
  end.

(* ---- _get_parsed_summary(obj) *)
Definition get_parsed_summary (O : oracles) (c : config) (st : state) (o : oid) : option oid * parsed * state :=
  let '(source, st1) := ensure_parsed_docstring O c st o in
  match psum st1 o with
  | Some ps => (source, ps, st1)
  | None =>
    let sp := match source, pdoc st1 o with
              | Some _, Some pd => get_summary O pd
              | _, _ => PStanOnly (SUndocSpan o)
              end in
    (source, sp, set_psum st1 o (Some sp))
  end.

(* ---- format_summary(obj) *)
Definition format_summary (O : oracles) (c : config) (st : state) (o : oid) : stan * state :=
  let '(source, pd, st1) := get_parsed_summary O c st o in
  let src := match source with Some s => s | None => o end in
  safe_to_stan O c st1 pd src FB_summary false SEC_DOCSTRING.

(* ---- ParsedDocstring.get_toc(depth): `except Exception: return None` around to_node() (since ef2e650) *)
Definition get_toc (O : oracles) (pd : parsed) : outcome (option parsed) :=
  match pd with
  | PPlain _ => Ok None                  (* paragraphs only: build_table_of_content finds no section *)
  | PStanOnly _ => Ok None               (* to_node raises NotImplementedError: return None *)
  | PMark p =>
    match toc_of O p with
    | TocNotImpl => Ok None
    | TocRaise => Ok None                (* any other failure of to_node: return None as well *)
    | TocEmpty => Ok None
    | TocSome t => Ok (Some (PMark t))
    end
  end.

(* get_toc before ef2e650: `except NotImplementedError` only (kept for the _old_refuted witness) *)
Definition get_toc_old (O : oracles) (pd : parsed) : outcome (option parsed) :=
  match pd with
  | PMark p => match toc_of O p with TocRaise => Raised | _ => get_toc O pd end
  | _ => get_toc O pd
  end.

(* ---- format_toc(obj) *)
Definition format_toc (O : oracles) (c : config) (st : state) (o : oid) : outcome (option stan) * state :=
  let '(_, st1) := ensure_parsed_docstring O c st o in
  match pdoc st1 o with
  | Some pd =>
    if toc_enabled c then
      match get_toc O pd with
      | Raised => (Raised, st1)
      | Ok None => (Ok None, st1)
      | Ok (Some t) =>
        let '(s, st2) := safe_to_stan O c st1 t o FB_broken false SEC_DOCSTRING in
        (Ok (Some s), st2)
      end
    else (Ok None, st1)
  | None => (Ok None, st1)
  end.

(* ---- extract_fields(obj) *)
Definition var_fields_p (O : oracles) (pd : parsed) : list (oid * N) :=
  match pd with PMark p => var_fields O p | _ => [] end.

Definition extract_fields (O : oracles) (c : config) (st : state) (o : oid) : outcome unit * state :=
  match docstring c o with
  | None => (Raised, st)                                  (* assert doc is not None *)
  | Some doc =>
    let '(pd, st1) := parse_docstring O c st o doc o None SEC_DOCSTRING in
    let st2 := set_pdoc st1 o (Some pd) in
    (Ok tt, fold_left (fun s ab => set_pdoc s (fst ab) (Some (PMark (snd ab)))) (var_fields_p O pd) st2)
  end.

(* ---- the three rendering entry points under one name (used to state non-interference once) *)
Inductive opk : Type := OpDocstring | OpSummary | OpToc.
Inductive opres : Type := RDoc (r : docres) | RSum (s : stan) | RToc (r : outcome (option stan)).

Definition run_opk (O : oracles) (c : config) (st : state) (k : opk) (o : oid) : opres * state :=
  match k with
  | OpDocstring => let '(r, st') := format_docstring O c st o in (RDoc r, st')
  | OpSummary => let '(r, st') := format_summary O c st o in (RSum r, st')
  | OpToc => let '(r, st') := format_toc O c st o in (RToc r, st')
  end.

(* ---- the tail of epytext.parse: after the token loop,
        try: raise next(e for e in errors if e.is_fatal())
        except StopIteration: pass
        return doc
   errors are (id, is_fatal) pairs. *)
Definition epytext_tail {T : Type} (errors : list (N * bool)) (tree : T) : (N * bool) + T :=
  match find (fun e => snd e) errors with
  | Some e => inl e
  | None => inr tree
  end.

(* epytext.parse_docstring seen as a parser oracle value: the errors list is what the tokenizer and the
   block structure pass appended *)
Definition epytext_presult (errors : list (N * bool)) (p : N) : presult :=
  match epytext_tail errors p with
  | inl _ => PR_parse_error (map fst errors)
  | inr p' => PR_ok p' (map fst errors)
  end.

(* ---- ParsedEpytextDocstring.to_node() (since ef2e650):
        if self._document is not None: return self._document
        self._document = new_document('epytext')
        if self._tree is not None:
            try: node, = self._to_node(self._tree)                # may raise (AssertionError ...)
            except Exception: self._document = None; raise        # nothing is cached when the conversion fails
            self._document = set_node_attributes(self._document, children=node.children)
        return self._document
   `conv` is the oracle for self._to_node(self._tree); the state is self._document. *)
Inductive convres : Type := ConvOk (doc : N) | ConvRaise.
Definition EMPTY_DOCUMENT : N := 0.

Definition epytext_to_node (has_tree : bool) (conv : convres) (document : option N) : outcome N * option N :=
  match document with
  | Some d => (Ok d, document)
  | None =>
    if has_tree then
      match conv with
      | ConvOk d => (Ok d, Some d)
      | ConvRaise => (Raised, None)
      end
    else (Ok EMPTY_DOCUMENT, Some EMPTY_DOCUMENT)
  end.

(* to_node before ef2e650: the empty document stayed cached when the conversion raised (kept for the _old_refuted witness) *)
Definition epytext_to_node_old (has_tree : bool) (conv : convres) (document : option N) : outcome N * option N :=
  match document, has_tree, conv with
  | None, true, ConvRaise => (Raised, Some EMPTY_DOCUMENT)
  | _, _, _ => epytext_to_node has_tree conv document
  end.

(* ================================================================== wire codec ===== *)
(* input  := ( 0 cfg ops ) | ( 1 flags ) | ( 2 has_tree conv ncalls )   conv: () raises | (d)
                                                      output of mode 2: list of (0 d) returned d | (1) raised
   cfg    := ( sysfmt pt toc objs pdocs parsers ptypes plainsums )
     objs      := list of ( oid parent? modfmt? doc? preset? inherits )   x? = () | (x) ; inherits: list of oid
     pdocs     := list of ( pid to_stan fields varfields summ toc )
                    to_stan: () raises | (sid) ;  fields: list of pid ;  varfields: list of ( oid pid )
                    summ: (0) raises | (1) none | (2 sid) ;  toc: (0) not implemented | (1) raises | (2) empty | (3 tid)
     parsers   := list of ( text kind errs pid )     kind: 0 ok | 1 ParseError | 2 other exception ; errs: list of N
                  (the same behaviour for every known non-plaintext docformat; a text not listed parses to pid 99)
     ptypes    := list of ( pid kind warns pid' )    a pid not listed is returned unchanged without warnings
     plainsums := list of ( text summ )              a text not listed: (1)
   ops    := list of ( code oid ... )  0 format_docstring | 1 format_summary | 2 format_toc | 3 extract_fields
                                       | 4 parse_docstring ( 4 oid text source ) | 5 ensure_parsed_docstring
   output := ( opresults parse_errors caches )
     opresult := ( raised result newreports )
     stan   := (0 text) | (1 id) | (2) | (3) | (4) | (5) ; undocumented body: (6) ; None: (7)
     parsed := (0 text) | (1 id) | (2 stan)
     perr   := (0 k) | (1) | (2) *)

Fixpoint text_eqb (a b : text) : bool :=
  match a, b with
  | [], [] => true
  | x :: a', y :: b' => N.eqb x y && text_eqb a' b'
  | _, _ => false
  end.

Definition lookup_by {K V} (eqb : K -> K -> bool) (k : K) (l : list (K * V)) : option V :=
  match find (fun kv => eqb (fst kv) k) l with Some kv => Some (snd kv) | None => None end.

Definition dec_sum (s : sexp) : sumres :=
  match to_Z (nth_s 0 s) with
  | 0%Z => SumRaise | 1%Z => SumNone | _ => SumSome (to_N (nth_s 1 s))
  end.
Definition dec_toc (s : sexp) : tocres :=
  match to_Z (nth_s 0 s) with
  | 0%Z => TocNotImpl | 1%Z => TocRaise | 2%Z => TocEmpty | _ => TocSome (to_N (nth_s 1 s))
  end.

Definition dec_oracles (cfg : sexp) : oracles :=
  let pdocs := map (fun r => (to_N (nth_s 0 r), r)) (to_list (nth_s 4 cfg)) in
  let parsers := map (fun r => (to_text (nth_s 0 r), r)) (to_list (nth_s 5 cfg)) in
  let ptys := map (fun r => (to_N (nth_s 0 r), r)) (to_list (nth_s 6 cfg)) in
  let psums := map (fun r => (to_text (nth_s 0 r), nth_s 1 r)) (to_list (nth_s 7 cfg)) in
  let row p := lookup_by N.eqb p pdocs in
  {| parser := fun _ t =>
       match lookup_by text_eqb t parsers with
       | None => PR_ok 99 []
       | Some r =>
         let errs := map to_N (to_list (nth_s 2 r)) in
         match to_Z (nth_s 1 r) with
         | 0%Z => PR_ok (to_N (nth_s 3 r)) errs
         | 1%Z => PR_parse_error errs
         | _ => PR_exception errs
         end
       end;
     ptypes := fun p =>
       match lookup_by N.eqb p ptys with
       | None => PT_ok p []
       | Some r =>
         let w := map to_N (to_list (nth_s 2 r)) in
         match to_Z (nth_s 1 r) with
         | 0%Z => PT_ok (to_N (nth_s 3 r)) w
         | 1%Z => PT_parse_error w
         | _ => PT_exception w
         end
       end;
     to_stan := fun p => match row p with
                         | None => Some p
                         | Some r => to_option to_N (nth_s 1 r)
                         end;
     fields_of := fun p => match row p with None => [] | Some r => map to_N (to_list (nth_s 2 r)) end;
     var_fields := fun p => match row p with
                            | None => []
                            | Some r => map (fun x => (to_N (nth_s 0 x), to_N (nth_s 1 x))) (to_list (nth_s 3 r))
                            end;
     summary_node := fun p => match row p with None => SumNone | Some r => dec_sum (nth_s 4 r) end;
     summary_plain := fun t => match lookup_by text_eqb t psums with None => SumNone | Some s => dec_sum s end;
     toc_of := fun p => match row p with None => TocEmpty | Some r => dec_toc (nth_s 5 r) end |}.

Definition dec_config (cfg : sexp) : config :=
  let objs := map (fun r => (to_N (nth_s 0 r), r)) (to_list (nth_s 3 cfg)) in
  let row o := lookup_by N.eqb o objs in
  {| sys_fmt := to_N (nth_s 0 cfg);
     processtypes_on := to_bool (nth_s 1 cfg);
     toc_enabled := to_bool (nth_s 2 cfg);
     docstring := fun o => match row o with None => None | Some r => to_option to_text (nth_s 3 r) end;
     parent := fun o => match row o with None => None | Some r => to_option to_N (nth_s 1 r) end;
     mod_fmt := fun o => match row o with None => None | Some r => to_option to_N (nth_s 2 r) end;
     inherits := fun o => match row o with None => [] | Some r => map to_N (to_list (nth_s 5 r)) end |}.

Definition init_state (cfg : sexp) : state :=
  (* presets: objs rows may carry a 5th item ( pid ) = parsed_docstring already set (by the parent's extract_fields) *)
  fold_left (fun st r => match to_option to_N (nth_s 4 r) with
                         | Some p => set_pdoc st (to_N (nth_s 0 r)) (Some (PMark p))
                         | None => st
                         end)
            (to_list (nth_s 3 cfg))
            (mkState [] [] (fun _ => None) (fun _ => None)).

Definition enc_stan (s : stan) : sexp :=
  match s with
  | SPre t => L [A 0; of_text t]
  | SMark i => L [A 1; of_N i]
  | SBroken => L [A 2]
  | SUndocSpan _ => L [A 3]
  | SBrokenSummary => L [A 4]
  | SNoSummary => L [A 5]
  end.
Definition enc_parsed (p : parsed) : sexp :=
  match p with
  | PPlain t => L [A 0; of_text t]
  | PMark i => L [A 1; of_N i]
  | PStanOnly s => L [A 2; enc_stan s]
  end.
Definition enc_perr (e : perr) : sexp :=
  match e with EParser k => L [A 0; of_N k] | EParseExc => L [A 1] | EToStanExc => L [A 2] end.
Definition enc_report (r : report) : sexp :=
  let '(who, sec, e) := r in L [of_N who; of_N sec; enc_perr e].

Definition new_reports (st st' : state) : sexp :=
  L (map enc_report (skipn (length (reports st)) (reports st'))).

Definition run_op (O : oracles) (c : config) (st : state) (op : sexp) : sexp * state :=
  let o := to_N (nth_s 1 op) in
  match to_Z (nth_s 0 op) with
  | 0%Z => let '(r, st') := format_docstring O c st o in
           (L [A 0; L [match d_body r with BUndocumented => L [A 6] | BStan s => enc_stan s end;
                       L (map enc_stan (d_fields r))]; new_reports st st'], st')
  | 1%Z => let '(s, st') := format_summary O c st o in (L [A 0; enc_stan s; new_reports st st'], st')
  | 2%Z => let '(r, st') := format_toc O c st o in
           (match r with
            | Raised => L [A 1; L []; new_reports st st']
            | Ok None => L [A 0; L [A 7]; new_reports st st']
            | Ok (Some s) => L [A 0; enc_stan s; new_reports st st']
            end, st')
  | 3%Z => let '(r, st') := extract_fields O c st o in
           (L [A (match r with Raised => 1 | Ok _ => 0 end); L []; new_reports st st'], st')
  | 4%Z => let '(p, st') := parse_docstring O c st o (to_text (nth_s 2 op)) (to_N (nth_s 3 op)) None SEC_DOCSTRING in
           (L [A 0; enc_parsed p; new_reports st st'], st')
  | _ => let '(src, st') := ensure_parsed_docstring O c st o in
         (L [A 0; of_option of_N src; new_reports st st'], st')
  end.

Fixpoint run_ops (O : oracles) (c : config) (st : state) (ops : list sexp) : list sexp * state :=
  match ops with
  | [] => ([], st)
  | op :: ops' => let '(r, st1) := run_op O c st op in
                  let '(rs, st2) := run_ops O c st1 ops' in (r :: rs, st2)
  end.

Definition run_epytail (flags : list sexp) : sexp :=
  let errors := combine (map N.of_nat (seq 0 (length flags))) (map to_bool flags) in
  match epytext_tail errors tt with
  | inl e => L [A 0; of_N (fst e)]
  | inr _ => L [A 1]
  end.

Fixpoint run_to_node (has_tree : bool) (conv : convres) (document : option N) (n : nat) : list sexp :=
  match n with
  | O => []
  | S n' => let '(r, d') := epytext_to_node has_tree conv document in
            (match r with Ok d => L [A 0; of_N d] | Raised => L [A 1] end) :: run_to_node has_tree conv d' n'
  end.

Definition run (s : sexp) : sexp :=
  match to_Z (nth_s 0 s) with
  | 0%Z =>
    let cfg := nth_s 1 s in
    let O := dec_oracles cfg in
    let c := dec_config cfg in
    let '(rs, st) := run_ops O c (init_state cfg) (to_list (nth_s 2 s)) in
    let oids := map (fun r => to_N (nth_s 0 r)) (to_list (nth_s 3 cfg)) in
    L [L rs;
       L (map (fun so => L [of_N (fst so); of_N (snd so)]) (parse_errors st));
       L (map (fun o => L [of_N o; of_option enc_parsed (pdoc st o); of_option enc_parsed (psum st o)]) oids)]
  | 1%Z => run_epytail (to_list (nth_s 1 s))
  | 2%Z => L (run_to_node (to_bool (nth_s 1 s))
                          (match to_option to_N (nth_s 2 s) with Some d => ConvOk d | None => ConvRaise end)
                          None (to_nat (nth_s 3 s)))
  | _ => bad_input
  end.
