(* Model/TomlValue.v -- pydoctor/_configparser.py : parse_toml_section_name, get_toml_section,
   TomlConfigParser.parse.  Definitions only.

   The input is the value toml.load() returned (the TOML tokeniser is an oracle, DESIGN.md 5.C20
   residual), as a tree.  Values whose str() this model does not compute (floats, dates, and lists
   or tables nested inside a list) arrive as TOpaque with Python's truth value and str() attached. *)
From Coq Require Import ZArith NArith List Bool.
From Coq Require Decimal.
From PydoctorVerif Require Import Base.Sexp Model.OptTypes Model.Quote Model.IniValue.
Import ListNotations.
Local Open Scope N_scope.

Inductive tomlv : Type :=
| TStr (t : text)
| TInt (z : Z)
| TBool (b : bool)
| TList (l : list tomlv)
| TTable (kv : list (text * tomlv))
| TOpaque (truthy : bool) (str_ : text).

(* str(int) *)
Fixpoint uint_digits (u : Decimal.uint) : text :=
  match u with
  | Decimal.Nil => []
  | Decimal.D0 r => 48 :: uint_digits r
  | Decimal.D1 r => 49 :: uint_digits r
  | Decimal.D2 r => 50 :: uint_digits r
  | Decimal.D3 r => 51 :: uint_digits r
  | Decimal.D4 r => 52 :: uint_digits r
  | Decimal.D5 r => 53 :: uint_digits r
  | Decimal.D6 r => 54 :: uint_digits r
  | Decimal.D7 r => 55 :: uint_digits r
  | Decimal.D8 r => 56 :: uint_digits r
  | Decimal.D9 r => 57 :: uint_digits r
  end.

Definition str_N (n : N) : text := uint_digits (N.to_uint n).
Definition str_Z (z : Z) : text :=
  match z with
  | Z0 => [48]
  | Zpos p => str_N (Npos p)
  | Zneg p => 45 :: str_N (Npos p)
  end.

(* str(v) for the values the model knows *)
Definition py_str (v : tomlv) : option text :=
  match v with
  | TStr t => Some t
  | TInt z => Some (str_Z z)
  | TBool true => Some [84; 114; 117; 101]
  | TBool false => Some [70; 97; 108; 115; 101]
  | TOpaque _ s => Some s
  | TList _ => None
  | TTable _ => None
  end.

(* bool(v) *)
Definition truthy (v : tomlv) : bool :=
  match v with
  | TStr t => nonempty t
  | TInt z => negb (Z.eqb z 0)
  | TBool b => b
  | TList l => match l with [] => false | _ => true end
  | TTable kv => match kv with [] => false | _ => true end
  | TOpaque b _ => b
  end.

Fixpoint lookup {V : Type} (k : text) (d : list (text * V)) : option V :=
  match d with
  | [] => None
  | (k', v) :: r => if text_eqb k k' then Some v else lookup k r
  end.

(* ---- parse_toml_section_name: csv.reader([name], delimiter='.') then unquote_str(a.strip(), triple=False).
   Modelled for names without a double quote (csv's quotechar); the three names pydoctor uses have none,
   and Proofs/ConfigProofs.v checks the result against what the live function returns. *)
Fixpoint split_on (sep : N) (s : text) : list text :=
  match s with
  | [] => [[]]
  | c :: r =>
      match split_on sep r with
      | [] => [[c]]
      | l :: ls => if c =? sep then [] :: l :: ls else (c :: l) :: ls
      end
  end.

Definition is_py_space (c : N) : bool :=
  ((9 <=? c) && (c <=? 13)) || ((28 <=? c) && (c <=? 32)) || (c =? 133) || (c =? 160).

Fixpoint lstrip (s : text) : text :=
  match s with
  | [] => []
  | c :: r => if is_py_space c then lstrip r else s
  end.
Definition strip (s : text) : text := List.rev (lstrip (List.rev (lstrip s))).

Definition parse_toml_section_name (name : text) : list text :=
  map (fun a => match unquote_str (strip a) false with UOk t => t | _ => strip a end) (split_on 46 name).

(* ---- get_toml_section *)
Inductive sect : Type :=
| SNone                                   (* returns None *)
| SFound (kv : list (text * tomlv))
| SRaise.                                 (* AttributeError: .get on something that is not a dict *)

Fixpoint get_toml_section (data : list (text * tomlv)) (path : list text) : sect :=
  match path with
  | [] => SRaise                          (* sections[0] on an empty tuple *)
  | p :: ps =>
      match lookup p data with
      | None => SNone
      | Some item =>
          if negb (truthy item) then SNone
          else
            match ps with
            | [] => match item with TTable kv => SFound kv | _ => SNone end
            | _ :: _ => match item with TTable kv => get_toml_section kv ps | _ => SRaise end
            end
      end
  end.

(* ---- TomlConfigParser.parse: the first section that is found and non-empty is converted *)
Fixpoint strs (l : list tomlv) : option (list text) :=
  match l with
  | [] => Some []
  | v :: r => match py_str v, strs r with
              | Some t, Some ts => Some (t :: ts)
              | _, _ => None
              end
  end.

Fixpoint toml_items (kv : list (text * tomlv)) (acc : list (text * cval)) : pres :=
  match kv with
  | [] => POk acc
  | (k, v) :: r =>
      match v with
      | TList l => match strs l with
                   | Some ts => toml_items r (dict_set k (VList ts) acc)
                   | None => PUnsup
                   end
      | _ => match py_str v with
             | Some t => toml_items r (dict_set k (VStr t) acc)
             | None => PUnsup                    (* str(dict): not modelled *)
             end
      end
  end.

Fixpoint toml_sections (paths : list (list text)) (data : list (text * tomlv)) : pres :=
  match paths with
  | [] => POk []
  | p :: ps =>
      match get_toml_section data p with
      | SRaise => PError
      | SNone => toml_sections ps data
      | SFound kv => match kv with
                     | [] => toml_sections ps data          (* `if data:` is false for {} *)
                     | _ => toml_items kv []
                     end
      end
  end.

Definition toml_parse (sections : list text) (data : list (text * tomlv)) : pres :=
  toml_sections (map parse_toml_section_name sections) data.
