(* Model/Visitor.v -- pydoctor/visitor.py : Visitor.visit / depart / walk / walkabout, ExtList.
   Definitions only (no proofs) so that the model runs even when a proof breaks.

   Exceptions are values: each function returns its event trace and whether a
   SkipSiblings exception escapes it (the only pruning exception that can escape
   walk/walkabout; the other three are caught inside).

   Only the MAIN visitor prunes (that is what C19 quantifies over): `prune n` is the
   exception main's visit_X raises on node n, if any. *)
From Coq Require Import ZArith NArith List Bool.
From PydoctorVerif Require Import Base.Sexp.
Import ListNotations.

Inductive tree : Type := Node (id : N) (kids : list tree).

Inductive action := SkipChildren | SkipSiblings | SkipNode | SkipDeparture.
Inductive when_ := BEFORE | AFTER | INNER | OUTTER.
Inductive dir := Enter | Leave.

(* participant 0 is the main visitor; extensions carry their own id *)
Record ext := { ext_id : N; ext_when : when_ }.
Record event := Ev { who : N; edir : dir; enode : N }.

Definition when_eqb (a b : when_) : bool :=
  match a, b with
  | BEFORE, BEFORE | AFTER, AFTER | INNER, INNER | OUTTER, OUTTER => true
  | _, _ => false
  end.

(* ExtList: one list per timing, registration order kept inside each *)
Definition of_when (w : when_) (exts : list ext) : list N :=
  map ext_id (filter (fun e => when_eqb (ext_when e) w) exts).

Definition main_id : N := 0%N.

Section WithConfig.
  Variable exts : list ext.
  Variable prune : N -> option action.

  Definition before_ := of_when BEFORE exts.
  Definition after_ := of_when AFTER exts.
  Definition inner_ := of_when INNER exts.
  Definition outter_ := of_when OUTTER exts.

  (* Visitor.visit: before+outter, main (which may raise; the exception is deferred),
     after+inner; then the deferred exception is re-raised: the events are the same
     whether or not main raised. *)
  Definition visit_ev (n : N) : list event :=
    map (fun p => Ev p Enter n) ((before_ ++ outter_) ++ [main_id] ++ (after_ ++ inner_)).

  (* Visitor.depart(ob, extensions_only) *)
  Definition depart_ev (n : N) (extensions_only : bool) : list event :=
    map (fun p => Ev p Leave n)
        ((before_ ++ inner_) ++ (if extensions_only then [] else [main_id]) ++ (after_ ++ outter_)).

  (* for child in get_children(ob): self.walkabout(child)   -- inside `try ... except SkipSiblings: pass` *)
  Definition kids_loop (f : tree -> list event * bool) : list tree -> list event :=
    fix go (ks : list tree) : list event :=
      match ks with
      | [] => []
      | k :: ks' => let '(tr, esc) := f k in if esc then tr else tr ++ go ks'
      end.

  (* Visitor.walkabout, as repaired by the `fix:` commit (SkipSiblings from visit() is
     remembered, children and departure happen, then it is re-raised). *)
  Fixpoint walkabout (t : tree) : list event * bool :=
    match t with
    | Node n kids =>
      let v := visit_ev n in
      match prune n with
      | Some SkipNode => (v ++ depart_ev n true, false)
      | Some SkipDeparture => (v ++ kids_loop walkabout kids ++ depart_ev n true, false)
      | Some SkipChildren => (v ++ depart_ev n false, false)
      | Some SkipSiblings => (v ++ kids_loop walkabout kids ++ depart_ev n false, true)
      | None => (v ++ kids_loop walkabout kids ++ depart_ev n false, false)
      end
    end.

  (* Visitor.walkabout before the repair (kept for the _refuted witness and for the search) *)
  Fixpoint walkabout_old (t : tree) : list event * bool :=
    match t with
    | Node n kids =>
      let v := visit_ev n in
      match prune n with
      | Some SkipNode => (v ++ depart_ev n true, false)
      | Some SkipDeparture => (v ++ kids_loop walkabout_old kids ++ depart_ev n true, false)
      | Some SkipChildren => (v ++ depart_ev n false, false)
      | Some SkipSiblings => (v, true)
      | None => (v ++ kids_loop walkabout_old kids ++ depart_ev n false, false)
      end
    end.

  (* Visitor.walk (no departures). SkipSiblings raised by visit() escapes at once. *)
  Fixpoint walk (t : tree) : list event * bool :=
    match t with
    | Node n kids =>
      let v := visit_ev n in
      match prune n with
      | Some SkipNode | Some SkipChildren => (v, false)
      | Some SkipSiblings => (v, true)
      | Some SkipDeparture | None => (v ++ kids_loop walk kids, false)
      end
    end.
End WithConfig.

(* ---- wire codec ---------------------------------------------------------------- *)
(* Wire format.
   tree   := ( id kid ... )
   action := 0 none | 1 SkipChildren | 2 SkipSiblings | 3 SkipNode | 4 SkipDeparture
   input  := ( fn exts prunes tree )   fn: 0 walkabout | 1 walk | 2 walkabout_old
             exts   := list of ( id when )     when: 0 BEFORE 1 AFTER 2 INNER 3 OUTTER
             prunes := list of ( node action )
   output := ( escaped events )   events := list of ( who dir node )   dir: 0 Enter 1 Leave  *)
Fixpoint tree_of_sexp (fuel : nat) (s : sexp) : tree :=
  match fuel with
  | O => Node 0 []
  | S f => match s with
           | A z => Node (Z.to_N z) []
           | L [] => Node 0 []
           | L (h :: ks) => Node (to_N h) (map (tree_of_sexp f) ks)
           end
  end.

Fixpoint sexp_depth (s : sexp) : nat :=
  match s with A _ => 1 | L l => S (fold_right (fun x acc => Nat.max (sexp_depth x) acc) 0 l) end.

Definition when_of_Z (z : Z) : when_ :=
  match z with 0%Z => BEFORE | 1%Z => AFTER | 2%Z => INNER | _ => OUTTER end.
Definition action_of_Z (z : Z) : option action :=
  match z with
  | 1%Z => Some SkipChildren | 2%Z => Some SkipSiblings
  | 3%Z => Some SkipNode | 4%Z => Some SkipDeparture | _ => None
  end.

Definition prune_of (l : list sexp) (n : N) : option action :=
  match find (fun p => N.eqb (to_N (nth_s 0 p)) n) l with
  | Some p => action_of_Z (to_Z (nth_s 1 p))
  | None => None
  end.

Definition ev_sexp (e : event) : sexp :=
  L [of_N (who e); A (match edir e with Enter => 0 | Leave => 1 end); of_N (enode e)].

Definition run (s : sexp) : sexp :=
  let fn := to_Z (nth_s 0 s) in
  let exts := map (fun p => {| ext_id := to_N (nth_s 0 p); ext_when := when_of_Z (to_Z (nth_s 1 p)) |})
                  (to_list (nth_s 1 s)) in
  let prune := prune_of (to_list (nth_s 2 s)) in
  let t := tree_of_sexp (sexp_depth (nth_s 3 s)) (nth_s 3 s) in
  let '(tr, esc) :=
    match fn with
    | 0%Z => walkabout exts prune t
    | 1%Z => walk exts prune t
    | _ => walkabout_old exts prune t
    end in
  L [of_bool esc; L (map ev_sexp tr)].
