(* Model/DetTypes.v -- types shared by the regenerated table Gen/TablesC18.v and Model/Determinism.v (C18).
   Definitions only.

   A `site` is one occurrence, in pydoctor's source, of an expression whose iteration order is NOT a function of
   the inputs of a run (a Python set, `System.root_names`, a directory listing) together with the syntactic context
   that consumes it.  harness/gen/gen_c18.py prints the table; `order_free` below DECIDES which contexts cannot leak
   the order. *)
From Coq Require Import ZArith NArith List Bool.
Import ListNotations.

Inductive src_kind := SrcRootNames | SrcSetExpr | SrcSetName | SrcListing.

(* shape of the key= argument of sorted() *)
Inductive key_kind :=
| KeyNone        (* natural order of the elements (str / Path / enum names): total and injective on a set *)
| KeyLckey       (* summary._lckey = (fullName().lower(), fullName())  -- injective, see lckey_checked *)
| KeyAttrName    (* lambda k: k.name  on enum members -- injective, see kind_names_nodup *)
| KeyLowerSelf   (* lambda x: (x.lower(), x) -- injective *)
| KeyOrderFunc   (* alphabetical_order_func / source_order_func: NOT injective (ties left to input order) *)
| KeyOther.

Inductive ctx :=
| CtxSorted (k : key_kind)
| CtxLen | CtxMember | CtxTruth | CtxAnyAll | CtxSetEq
| CtxEqSingleton        (* list(S) == [e] *)
| CtxFirstLen1          (* list(S)[0] under `if len(S) == 1` *)
| CtxPopLen1            (* S.pop()  under `if len(S) == 1` *)
| CtxMutate | CtxDefine | CtxToSet | CtxSetOp | CtxPassTracked
| CtxIterate            (* for / comprehension / list() / join() / ... : the order reaches a sequence *)
| CtxEscapeCall.        (* handed to a callable the translator does not follow *)

Record site := mkSite { s_file : N; s_line : N; s_func : N; s_src : src_kind; s_ctx : ctx }.

Definition key_injective (k : key_kind) : bool :=
  match k with KeyNone | KeyLckey | KeyAttrName | KeyLowerSelf => true | KeyOrderFunc | KeyOther => false end.

(* the context cannot make the result depend on the iteration order of its source *)
Definition order_free (s : site) : bool :=
  match s_ctx s with
  | CtxSorted k => key_injective k
  | CtxIterate | CtxEscapeCall => false
  | _ => true
  end.

(* how a file of the output directory is opened *)
Inductive wmode := WTrunc (* 'w' / 'wb': what was there is gone *) | WAppend | WExcl | WUpdate.
Definition truncating (m : wmode) : bool := match m with WTrunc => true | _ => false end.

(* wall clock *)
Inductive clock_ctx := ClkDefaultBuildtime | ClkLocalTimer | ClkInMsg | ClkOther.
Definition clock_harmless (c : clock_ctx) : bool := match c with ClkOther => false | _ => true end.
Inductive bt_source := BEnvEpoch | BOption.
Definition bt_source_eqb (a b : bt_source) : bool :=
  match a, b with BEnvEpoch, BEnvEpoch | BOption, BOption => true | _, _ => false end.

(* components of the sort-key tuples of templatewriter.util / summary (printed by the translator, INTERPRETED by
   Model/Determinism.v) *)
Inductive kcomp :=
| KNegPrivacy        (* -o.privacyClass.value *)
| KNegKindMapped     (* -_map_kind(o.kind).value if o.kind else 0 *)
| KLowerFullName     (* o.fullName().lower() *)
| KFullName          (* o.fullName() *)
| KLineno.           (* o.linenumber *)

Definition kcomp_eqb (a b : kcomp) : bool :=
  match a, b with
  | KNegPrivacy, KNegPrivacy | KNegKindMapped, KNegKindMapped | KLowerFullName, KLowerFullName
  | KFullName, KFullName | KLineno, KLineno => true
  | _, _ => false
  end.
