(* Model/DiscoveryIRRun.v -- `run` for the third leg of the C18 correspondence: the wire input of Model/Determinism.v's
   fn 0 (the root directories with their children in LISTING order), answered by INTERPRETING the code translated from
   pydoctor/model.py (Gen/DiscoveryCode.v) instead of the hand-written model.  Definitions only. *)
From Coq Require Import ZArith NArith List Bool.
From PydoctorVerif Require Import Base.Sexp Model.DetTypes Gen.TablesC18 Model.Determinism Model.DiscoveryIR
     Gen.DiscoveryCode.
Import ListNotations.
Local Open Scope Z_scope.

Definition run (s : sexp) : sexp :=
  match to_Z (nth_s 0 s) with
  | 0 =>
      let roots := map (fun r => (to_N (nth_s 0 r), node_of_sexp (sexp_depth r) (nth_s 1 r))) (to_list (nth_s 1 s)) in
      let evs := add_roots_ir discovery_code (fun l => l) (sexp_depth s) [] roots in
      match reg_of_events_ir registry_code evs with
      | Some r => L [L (map ev_sexp evs); L (map mod_sexp (r_unproc r)); L (map of_text (r_roots r)); L (map A (r_rootkinds r))]
      | None => L [L (map ev_sexp evs); A (-3)]
      end
  | _ => bad_input
  end.
