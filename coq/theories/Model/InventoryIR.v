(* Model/InventoryIR.v -- a small deep-embedded expression / statement language, large enough for the bodies of
   pydoctor/sphinx.py : _parseInventoryLine and SphinxInventory.getLink (as they stand and as rewritten with other
   Python idioms), and its interpreter.  Gen/InventoryCode.v (written by harness/gen/gen_c17_code.py on every run,
   fail-closed) holds the two bodies translated statement by statement from the CURRENT source;
   Proofs/InventoryIRProofs.v proves that interpreting them is the hand-written Model/Inventory.v.
   Definitions only.

   Values: None, bool, int (Z), str (code points), list of str, tuple; locals live in numbered slots.
   Primitive (not translated, each a stated assumption about Python / the library):
     s.split(c)            Model.Inventory.split_on for a one-character separator (validated against CPython by the harness)
     sep.join(l)           Model.Inventory.join
     l[i], l[a:b], s[a:b]  Python indexing (IndexError when out of range) and slicing, negative indices from the end
     int(s)                the oracle int_of (ValueError = None), as in the hand model
     len, +, -, comparisons of ints, str + str, s.endswith(t) / s.startswith(t), not, is None / is not None, f-strings of str
     self._links.get(k[, d])  lookup in the `links` map of the hand model (a value is the pair (base_url, location))
     k in self._links / self._links[k]   the same lookup; indexing with a missing key (KeyError) has no meaning here (stuck)
     a, *m, z = l           starred unpacking of a list of str: the leading / trailing names get the first / last items,
                            the starred name the list in between; too few items is ValueError, as in Python
     x = f(a, ...)          a call of a function defined at module level in the same file: its translated body is run on
                            fresh locals holding the arguments; what it returns is assigned (or unpacked), what it raises
                            is raised at the call
     for x in range(a, b): B else: E   is desugared by the translator into the infinite loop SLoop with a hidden counter
   Second layer (istmt / exec_inv, for the body of SphinxInventory._parseInventory): statements with the effect
   self.error(...) and a dict local; a direct-style total interpreter that threads the list of reports.  Primitive there:
     s.splitlines()         Model.Inventory.splitlines (ESplitLines; validated against CPython by the harness)
     for x in l: B          structural iteration over the items of a list of str (no else clause)
     d = {} / d[k] = (b, l) an insertion ordered dict of str -> (str, str): Model.Inventory.dict_set
     self.error('sphinx', 'Failed to parse line "%s" for %s' % (a, b))   appends the report RLine a b; the translator
                            accepts exactly this message (or the same text as an f-string)
     t = _parseInventoryLine(a)   ICall: the translated code_parse_line run on fresh locals (call_fn), as SCall *)
From Coq Require Import ZArith NArith List Bool.
From PydoctorVerif Require Import Base.Sexp Model.Inventory.
Import ListNotations.

Definition var := nat.

Inductive value :=
| VUnbound | VNone | VBool (b : bool) | VInt (z : Z) | VStr (t : text) | VList (l : list text) | VTuple (vs : list value)
| VDict (d : dict).

Inductive cmpop := CLt | CLe | CGt | CGe | CEq | CNe.

Inductive expr :=
| EVar (x : var) | ENone | EBool (b : bool) | EInt (z : Z) | EStr (t : text)
| ETuple (es : list expr)
| ESplit (e sep : expr)                       (* e.split(sep) *)
| EJoin (sep e : expr)                        (* sep.join(e) *)
| EIndex (e i : expr)                         (* e[i] *)
| ESlice (e : expr) (lo hi : option expr)     (* e[lo:hi] *)
| EIntOf (e : expr)                           (* int(e) *)
| ELen (e : expr)
| EAdd (a b : expr) | ESub (a b : expr)
| ECmp (op : cmpop) (a b : expr)
| ENot (e : expr) | EIsNone (e : expr) | EIsNotNone (e : expr)
| EEndsWith (e suffix : expr) | EStartsWith (e prefix : expr)
| ELinksGet (key default : expr)              (* self._links.get(key, default) *)
| ELinksHas (key : expr)                      (* key in self._links *)
| ELinksIndex (key : expr)                    (* self._links[key] *)
| EFormat (parts : list expr)                 (* f'...': the concatenation of str pieces *)
| ESplitLines (e : expr).                     (* e.splitlines() *)

(* what an assignment binds: x = ... / a, b = ... / a, *m, z = ... *)
Inductive target :=
| TVar (x : var)
| TTuple (xs : list var)
| TStar (before : list var) (star : var) (after : list var).

Inductive stmt :=
| SSkip
| SSeq (a b : stmt)
| SAssign (x : var) (e : expr)
| SUnpack (xs : list var) (e : expr)          (* a, b = e *)
| SUnpackStar (before : list var) (star : var) (after : list var) (e : expr)     (* a, *m, z = e *)
| SCall (t : target) (nlocals : nat) (params : list var) (args : list expr) (body : stmt)
                                              (* t = f(args) with f's translated body, locals and parameter slots *)
| SIf (c : expr) (th el : stmt)
| SLoop (body : stmt)                         (* while True: body *)
| SBreak | SContinue
| STry (body : stmt) (hs : handlers) (orelse : stmt)   (* try / except ... / else, no finally *)
| SRaise (x : exn)                            (* raise ValueError(...) / IndexError(...): the message is dropped *)
| SReturn (e : expr)
with handlers :=
| HNil
| HCons (ks : list exn) (body : stmt) (rest : handlers).

Definition env := list value.
Definition getv (x : var) (e : env) : value := nth x e VUnbound.
Fixpoint setv (x : var) (v : value) (e : env) : env :=
  match e, x with
  | [], _ => []
  | _ :: r, O => v :: r
  | a :: r, S x' => a :: setv x' v r
  end.

Inductive eres := EV (v : value) | EX (x : exn) | EStuck.

Definition truthy (v : value) : option bool :=
  match v with
  | VUnbound => None
  | VNone => Some false
  | VBool b => Some b
  | VInt z => Some (negb (Z.eqb z 0))
  | VStr t => Some (negb (is_empty t))
  | VList l => Some (match l with [] => false | _ => true end)
  | VTuple l => Some (match l with [] => false | _ => true end)
  | VDict d => Some (match d with [] => false | _ => true end)
  end.

(* Python index normalisation: i < 0 counts from the end *)
Definition norm_idx (z : Z) (len : nat) : nat :=
  if (z <? 0)%Z then Z.to_nat (Z.of_nat len + z) else Z.to_nat z.

Definition py_index {X} (l : list X) (z : Z) : option X :=
  if (z <? 0)%Z then (if (Z.of_nat (length l) + z <? 0)%Z then None else nth_error l (Z.to_nat (Z.of_nat (length l) + z)))
  else nth_error l (Z.to_nat z).

Definition py_slice {X} (lo hi : option Z) (l : list X) : list X :=
  let a := match lo with None => O | Some z => norm_idx z (length l) end in
  let b := match hi with None => length l | Some z => norm_idx z (length l) end in
  firstn (b - a) (skipn a l).

Definition ends_with (suffix t : text) : bool := starts_with (rev suffix) (rev t).

Definition eval_cmp (op : cmpop) (a b : Z) : bool :=
  match op with
  | CLt => Z.ltb a b | CLe => Z.leb a b | CGt => Z.gtb a b | CGe => Z.geb a b
  | CEq => Z.eqb a b | CNe => negb (Z.eqb a b)
  end.

(* a translated function: its body, the number of local slots, and the slots of its parameters *)
Record fn_code := { f_body : stmt; f_locals : nat; f_params : list var }.

(* the second layer: statements of a method that reports errors and fills a dict *)
Inductive istmt :=
| ISkip
| ISeq (a b : istmt)
| ILocal (s : stmt)                           (* any statement of the first layer (no report, no dict store) *)
| INewDict (x : var)                          (* x = {} *)
| IDictStore (x : var) (k v : expr)           (* x[k] = v *)
| IErrorLine (line base : expr)               (* self.error('sphinx', 'Failed to parse line "%s" for %s' % (line, base)) *)
| ICall (t : target) (c : fn_code) (args : list expr)     (* t = f(args), f a translated module level function *)
| IIf (c : expr) (th el : istmt)
| IForEach (x : var) (e : expr) (body : istmt)            (* for x in e: body   (e a list of str) *)
| ITry (body : istmt) (ks : list exn) (handler : istmt) (orelse : istmt).   (* try / except ks / else *)

Record inv_code := { i_body : istmt; i_locals : nat; i_params : list var }.

Section Eval.
  Variable int_of : text -> option Z.
  Variable links : dict.

  Definition opt_z (r : eres) : option (option Z) :=      (* a slice bound: absent / int / ill-typed *)
    match r with EV (VInt z) => Some (Some z) | EV VNone => Some None | _ => None end.

  Fixpoint eval (ex : expr) (e : env) : eres :=
    match ex with
    | EVar x => match getv x e with VUnbound => EStuck | v => EV v end
    | ENone => EV VNone
    | EBool b => EV (VBool b)
    | EInt z => EV (VInt z)
    | EStr t => EV (VStr t)
    | ETuple es =>
        (fix go (es : list expr) (acc : list value) : eres :=
           match es with
           | [] => EV (VTuple (rev acc))
           | x :: r => match eval x e with EV v => go r (v :: acc) | o => o end
           end) es []
    | ESplit a sep =>
        match eval a e with
        | EV (VStr t) => match eval sep e with
                         | EV (VStr [c]) => EV (VList (split_on c t))
                         | EV _ => EStuck | o => o end
        | EV _ => EStuck | o => o
        end
    | EJoin sep a =>
        match eval sep e with
        | EV (VStr s) => match eval a e with
                         | EV (VList l) => EV (VStr (join s l))
                         | EV _ => EStuck | o => o end
        | EV _ => EStuck | o => o
        end
    | EIndex a i =>
        match eval a e with
        | EV (VList l) => match eval i e with
                          | EV (VInt z) => match py_index l z with Some t => EV (VStr t) | None => EX IndexError end
                          | EV _ => EStuck | o => o end
        | EV (VTuple l) => match eval i e with
                           | EV (VInt z) => match py_index l z with Some v => EV v | None => EX IndexError end
                           | EV _ => EStuck | o => o end
        | EV _ => EStuck | o => o
        end
    | ESlice a lo hi =>
        match eval a e with
        | EV va =>
            let rlo := match lo with None => Some None | Some x => opt_z (eval x e) end in
            let rhi := match hi with None => Some None | Some x => opt_z (eval x e) end in
            match rlo, rhi with
            | Some l, Some h =>
                match va with
                | VList xs => EV (VList (py_slice l h xs))
                | VStr t => EV (VStr (py_slice l h t))
                | _ => EStuck
                end
            | _, _ => EStuck
            end
        | o => o
        end
    | EIntOf a =>
        match eval a e with
        | EV (VStr t) => match int_of t with Some z => EV (VInt z) | None => EX ValueError end
        | EV _ => EStuck | o => o
        end
    | ELen a =>
        match eval a e with
        | EV (VList l) => EV (VInt (Z.of_nat (length l)))
        | EV (VStr t) => EV (VInt (Z.of_nat (length t)))
        | EV _ => EStuck | o => o
        end
    | EAdd a b =>
        match eval a e with
        | EV (VInt x) => match eval b e with EV (VInt y) => EV (VInt (x + y)) | EV _ => EStuck | o => o end
        | EV (VStr x) => match eval b e with EV (VStr y) => EV (VStr (x ++ y)) | EV _ => EStuck | o => o end
        | EV _ => EStuck | o => o
        end
    | ESub a b =>
        match eval a e with
        | EV (VInt x) => match eval b e with EV (VInt y) => EV (VInt (x - y)) | EV _ => EStuck | o => o end
        | EV _ => EStuck | o => o
        end
    | ECmp op a b =>
        match eval a e with
        | EV (VInt x) => match eval b e with EV (VInt y) => EV (VBool (eval_cmp op x y)) | EV _ => EStuck | o => o end
        | EV _ => EStuck | o => o
        end
    | ENot a =>
        match eval a e with
        | EV v => match truthy v with Some b => EV (VBool (negb b)) | None => EStuck end
        | o => o
        end
    | EIsNone a =>
        match eval a e with EV VNone => EV (VBool true) | EV _ => EV (VBool false) | o => o end
    | EIsNotNone a =>
        match eval a e with EV VNone => EV (VBool false) | EV _ => EV (VBool true) | o => o end
    | EEndsWith a s =>
        match eval a e with
        | EV (VStr t) => match eval s e with EV (VStr u) => EV (VBool (ends_with u t)) | EV _ => EStuck | o => o end
        | EV _ => EStuck | o => o
        end
    | EStartsWith a s =>
        match eval a e with
        | EV (VStr t) => match eval s e with EV (VStr u) => EV (VBool (starts_with u t)) | EV _ => EStuck | o => o end
        | EV _ => EStuck | o => o
        end
    | ELinksHas k =>
        match eval k e with
        | EV (VStr n) => EV (VBool (match lookup n links with Some _ => true | None => false end))
        | EV _ => EStuck | o => o
        end
    | ELinksIndex k =>
        match eval k e with
        | EV (VStr n) => match lookup n links with
                         | Some (b, l) => EV (VTuple [VStr b; VStr l])
                         | None => EStuck
                         end
        | EV _ => EStuck | o => o
        end
    | ELinksGet k d =>
        match eval k e with
        | EV (VStr n) => match eval d e with
                         | EV dv => EV (match lookup n links with
                                        | Some (b, l) => VTuple [VStr b; VStr l]
                                        | None => dv end)
                         | o => o end
        | EV _ => EStuck | o => o
        end
    | EFormat ps =>
        (fix go (ps : list expr) (acc : text) : eres :=
           match ps with
           | [] => EV (VStr acc)
           | x :: r => match eval x e with EV (VStr t) => go r (acc ++ t) | EV _ => EStuck | o => o end
           end) ps []
    | ESplitLines a =>
        match eval a e with
        | EV (VStr t) => EV (VList (splitlines t))
        | EV _ => EStuck | o => o
        end
    end.

  Inductive outcome :=
  | ONormal (e : env) | OBreak (e : env) | OContinue (e : env)
  | OReturn (v : value) | ORaise (x : exn) (e : env) | OStuck | OFuel.

  Definition exn_eqb (a b : exn) : bool :=
    match a, b with
    | ValueError, ValueError | IndexError, IndexError | OutOfFuel, OutOfFuel => true
    | _, _ => false
    end.

  Fixpoint set_all (xs : list var) (vs : list value) (e : env) : option env :=
    match xs, vs with
    | [], [] => Some e
    | x :: xs', v :: vs' => set_all xs' vs' (setv x v e)
    | _, _ => None
    end.

  (* binding a value to a target *)
  Inductive ares := AOk (e : env) | AExn (x : exn) | AStuck.

  Fixpoint set_strs (xs : list var) (l : list text) (i : nat) (e : env) : option env :=
    match xs with
    | [] => Some e
    | x :: xs' => match nth_error l i with
                  | Some t => set_strs xs' l (S i) (setv x (VStr t) e)
                  | None => None
                  end
    end.

  Definition assign_star (before : list var) (star : var) (after : list var) (l : list text) (e : env) : ares :=
    let n := length l in
    let tot := (length before + length after)%nat in
    if Nat.ltb n tot then AExn ValueError
    else
      match set_strs before l 0 e with
      | None => AStuck
      | Some e1 =>
        let e2 := setv star (VList (firstn (n - tot) (skipn (length before) l))) e1 in
        match set_strs after l (n - length after) e2 with
        | None => AStuck
        | Some e3 => AOk e3
        end
      end.

  Definition assign (t : target) (v : value) (e : env) : ares :=
    match t with
    | TVar x => AOk (setv x v e)
    | TTuple xs =>
        match v with
        | VTuple vs => match set_all xs vs e with Some e1 => AOk e1 | None => AStuck end
        | _ => AStuck
        end
    | TStar b s a =>
        match v with
        | VList l => assign_star b s a l e
        | _ => AStuck
        end
    end.

  Fixpoint eval_args (es : list expr) (e : env) (acc : list value) : option (list value) + exn :=
    match es with
    | [] => inl (Some (rev acc))
    | x :: r => match eval x e with
                | EV v => eval_args r e (v :: acc)
                | EX x' => inr x'
                | EStuck => inl None
                end
    end.

  Fixpoint bind_params (ps : list var) (vs : list value) (e : env) : option env :=
    match ps, vs with
    | [], [] => Some e
    | p :: ps', v :: vs' => bind_params ps' vs' (setv p v e)
    | _, _ => None
    end.

  (* one `while True:` : the body gets the continuation that decides between next iteration and exit *)
  Fixpoint iter (fuel : nat) (body : env -> (outcome -> outcome) -> outcome) (e : env) (K : outcome -> outcome)
    : outcome :=
    match fuel with
    | O => OFuel
    | S f =>
        body e (fun o => match o with
                         | ONormal e1 | OContinue e1 => iter f body e1 K
                         | OBreak e1 => K (ONormal e1)
                         | _ => K o
                         end)
    end.

  (* continuation passing big-step semantics; `fuel` bounds the iterations of every loop *)
  Fixpoint exec (fuel : nat) (s : stmt) (e : env) (K : outcome -> outcome) {struct s} : outcome :=
    match s with
    | SSkip => K (ONormal e)
    | SSeq a b => exec fuel a e (fun o => match o with ONormal e1 => exec fuel b e1 K | _ => K o end)
    | SAssign x ex =>
        match eval ex e with EV v => K (ONormal (setv x v e)) | EX x' => K (ORaise x' e) | EStuck => OStuck end
    | SUnpack xs ex =>
        match eval ex e with
        | EV (VTuple vs) => match set_all xs vs e with Some e1 => K (ONormal e1) | None => OStuck end
        | EV _ => OStuck
        | EX x' => K (ORaise x' e)
        | EStuck => OStuck
        end
    | SUnpackStar b st a ex =>
        match eval ex e with
        | EV (VList l) =>
            match assign_star b st a l e with
            | AOk e1 => K (ONormal e1) | AExn x' => K (ORaise x' e) | AStuck => OStuck
            end
        | EV _ => OStuck
        | EX x' => K (ORaise x' e)
        | EStuck => OStuck
        end
    | SCall t nlocals params args body =>
        match eval_args args e [] with
        | inr x' => K (ORaise x' e)
        | inl None => OStuck
        | inl (Some vs) =>
            match bind_params params vs (repeat VUnbound nlocals) with
            | None => OStuck
            | Some ec =>
                exec fuel body ec
                     (fun o =>
                        let ret v := match assign t v e with
                                     | AOk e1 => K (ONormal e1) | AExn x' => K (ORaise x' e) | AStuck => OStuck
                                     end in
                        match o with
                        | OReturn v => ret v
                        | ONormal _ => ret VNone
                        | ORaise x' _ => K (ORaise x' e)
                        | OFuel => OFuel
                        | _ => OStuck
                        end)
            end
        end
    | SIf c th el =>
        match eval c e with
        | EV v => match truthy v with
                  | Some true => exec fuel th e K
                  | Some false => exec fuel el e K
                  | None => OStuck
                  end
        | EX x' => K (ORaise x' e)
        | EStuck => OStuck
        end
    | SLoop b => iter fuel (exec fuel b) e K
    | SBreak => K (OBreak e)
    | SContinue => K (OContinue e)
    | STry body hs orelse =>
        exec fuel body e (fun o => match o with
                                   | ONormal e1 => exec fuel orelse e1 K
                                   | ORaise x e1 => handle fuel hs x e1 K
                                   | _ => K o
                                   end)
    | SRaise x => K (ORaise x e)
    | SReturn ex =>
        match eval ex e with EV v => K (OReturn v) | EX x' => K (ORaise x' e) | EStuck => OStuck end
    end
  with handle (fuel : nat) (hs : handlers) (x : exn) (e : env) (K : outcome -> outcome) {struct hs} : outcome :=
    match hs with
    | HNil => K (ORaise x e)
    | HCons ks body rest => if existsb (exn_eqb x) ks then exec fuel body e K else handle fuel rest x e K
    end.

  (* a function body: falls off the end = returns None; break/continue outside a loop has no meaning *)
  Inductive result := RReturn (v : value) | RRaise (x : exn) | RStuck | RFuel.
  Definition finish (o : outcome) : result :=
    match o with
    | ONormal _ => RReturn VNone
    | OReturn v => RReturn v
    | ORaise x _ => RRaise x
    | OFuel => RFuel
    | _ => RStuck
    end.

  Definition run_body (fuel : nat) (nlocals : nat) (params : list (var * value)) (body : stmt) : result :=
    finish (exec fuel body
                 (fold_left (fun e pv => setv (fst pv) (snd pv) e) params (repeat VUnbound nlocals))
                 (fun o => o)).

  (* f(vs) for a translated function: fresh locals, the parameters bound to the arguments *)
  Definition call_fn (fuel : nat) (c : fn_code) (vs : list value) : result :=
    match bind_params (f_params c) vs (repeat VUnbound (f_locals c)) with
    | Some ec => finish (exec fuel (f_body c) ec (fun o => o))
    | None => RStuck
    end.

  (* for x in l: B -- structural in l; `continue` goes to the next item, `break` leaves the loop *)
  Fixpoint foreach (B : env -> list report -> outcome * list report) (x : var) (l : list text) (e : env)
           (r : list report) : outcome * list report :=
    match l with
    | [] => (ONormal e, r)
    | t :: l' =>
        match B (setv x (VStr t) e) r with
        | (ONormal e1, r1) | (OContinue e1, r1) => foreach B x l' e1 r1
        | (OBreak e1, r1) => (ONormal e1, r1)
        | o => o
        end
    end.

  (* direct-style big-step semantics of the second layer; the reports made so far are threaded through *)
  Fixpoint exec_inv (fuel : nat) (s : istmt) (e : env) (r : list report) {struct s} : outcome * list report :=
    match s with
    | ISkip => (ONormal e, r)
    | ISeq a b => match exec_inv fuel a e r with (ONormal e1, r1) => exec_inv fuel b e1 r1 | o => o end
    | ILocal s' => (exec fuel s' e (fun o => o), r)
    | INewDict x => (ONormal (setv x (VDict []) e), r)
    | IDictStore x k v =>
        match eval v e with
        | EV (VTuple [VStr b; VStr l]) =>
            match getv x e with
            | VDict d =>
                match eval k e with
                | EV (VStr n) => (ONormal (setv x (VDict (dict_set n (b, l) d)) e), r)
                | EV _ => (OStuck, r) | EX x' => (ORaise x' e, r) | EStuck => (OStuck, r)
                end
            | _ => (OStuck, r)
            end
        | EV _ => (OStuck, r) | EX x' => (ORaise x' e, r) | EStuck => (OStuck, r)
        end
    | IErrorLine a b =>
        match eval a e with
        | EV (VStr l) =>
            match eval b e with
            | EV (VStr bs) => (ONormal e, r ++ [RLine l bs])
            | EV _ => (OStuck, r) | EX x' => (ORaise x' e, r) | EStuck => (OStuck, r)
            end
        | EV _ => (OStuck, r) | EX x' => (ORaise x' e, r) | EStuck => (OStuck, r)
        end
    | ICall t c args =>
        match eval_args args e [] with
        | inr x' => (ORaise x' e, r)
        | inl None => (OStuck, r)
        | inl (Some vs) =>
            match call_fn fuel c vs with
            | RReturn v => match assign t v e with
                           | AOk e1 => (ONormal e1, r) | AExn x' => (ORaise x' e, r) | AStuck => (OStuck, r)
                           end
            | RRaise x' => (ORaise x' e, r)
            | RStuck => (OStuck, r)
            | RFuel => (OFuel, r)
            end
        end
    | IIf c th el =>
        match eval c e with
        | EV v => match truthy v with
                  | Some true => exec_inv fuel th e r
                  | Some false => exec_inv fuel el e r
                  | None => (OStuck, r)
                  end
        | EX x' => (ORaise x' e, r)
        | EStuck => (OStuck, r)
        end
    | IForEach x ex body =>
        match eval ex e with
        | EV (VList l) => foreach (exec_inv fuel body) x l e r
        | EV _ => (OStuck, r)
        | EX x' => (ORaise x' e, r)
        | EStuck => (OStuck, r)
        end
    | ITry body ks h orelse =>
        match exec_inv fuel body e r with
        | (ONormal e1, r1) => exec_inv fuel orelse e1 r1
        | (ORaise x e1, r1) => if existsb (exn_eqb x) ks then exec_inv fuel h e1 r1 else (ORaise x e1, r1)
        | o => o
        end
    end.
End Eval.


(* _parseInventoryLine(line): iterations are bounded by the number of characters of the line *)
Definition parse_line_ir (c : fn_code) (int_of : text -> option Z) (line : text) : result :=
  match f_params c with
  | [p] => run_body int_of [] (length line + 3) (f_locals c) [(p, VStr line)] (f_body c)
  | _ => RStuck
  end.

(* SphinxInventory.getLink(self, name) on a given self._links *)
Definition get_link_ir (c : fn_code) (links : dict) (name : text) : result :=
  match f_params c with
  | [p] => run_body (fun _ => None) links 1 (f_locals c) [(p, VStr name)] (f_body c)
  | _ => RStuck
  end.

(* how the hand model's results look as results of the language *)
Definition result_of_columns (o : Inventory.outcome columns) : result :=
  match o with
  | Ok c => RReturn (VTuple [VStr (c_name c); VStr (c_typ c); VInt (c_prio c); VStr (c_loc c); VStr (c_disp c)])
  | Raise x => RRaise x
  end.
Definition result_of_link (o : option text) : result :=
  match o with Some u => RReturn (VStr u) | None => RReturn VNone end.

(* SphinxInventory._parseInventory(self, base_url, payload): the loops of _parseInventoryLine are bounded by the longest
   line; what is returned and the reports made, in order *)
Definition max_len (l : list text) : nat := fold_right (fun t m => Nat.max (length t) m) O l.

Definition parse_inventory_ir (c : inv_code) (int_of : text -> option Z) (base payload : text) : result * list report :=
  match i_params c with
  | [pb; pp] =>
      let (o, r) := exec_inv int_of [] (max_len (splitlines payload) + 3) (i_body c)
                             (setv pp (VStr payload) (setv pb (VStr base) (repeat VUnbound (i_locals c)))) [] in
      (finish o, r)
  | _ => (RStuck, [])
  end.

Definition result_of_inventory (o : Inventory.outcome (dict * list report)) : result * list report :=
  match o with
  | Ok (d, r) => (RReturn (VDict d), r)
  | Raise x => (RRaise x, [])
  end.
