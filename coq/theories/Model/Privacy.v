(* Model/Privacy.v -- pydoctor/model.py: System.privacyClass (+ _privacyClassCache),
   Documentable.privacyClass, Module.privacyClass; pydoctor/utils.py: parse_privacy_tuple.
   Definitions only; ends with the wire codec `run` for all C13 models (QnMatch, Privacy, and the
   Spec.Glob / Spec.ReFrag entry points used for spec validation). *)
From Coq Require Import ZArith NArith List Bool.
From PydoctorVerif Require Import Base.Sexp Spec.ReFrag Spec.Glob Spec.PrivacySpec Model.QnMatch.
Import ListNotations.
Local Open Scope N_scope.

(* class PrivacyClass(Enum): HIDDEN = 0, PRIVATE = 1, PUBLIC = 2, VISIBLE = PUBLIC  -- the type `priv` of Spec.PrivacySpec *)

Fixpoint text_eqb (a b : text) : bool :=
  match a, b with
  | [], [] => true
  | x :: a', y :: b' => (x =? y) && text_eqb a' b'
  | _, _ => false
  end.

(* what privacyClass reads of a Documentable *)
Record obj : Type := {
  o_full : text;        (* ob.fullName() *)
  o_name : text;        (* ob.name *)
  o_has_kind : bool;    (* ob.kind is not None *)
  o_is_module : bool    (* isinstance(ob, Module)  (packages are Modules too) *)
}.

(* options.privacy: list of (PrivacyClass, pattern) in command-line order = list rule *)

(* str.startswith / str.endswith *)
Fixpoint starts_with (pre s : text) : bool :=
  match pre, s with
  | [], _ => true
  | x :: pre', y :: s' => (x =? y) && starts_with pre' s'
  | _ :: _, [] => false
  end.
Definition ends_with (suf s : text) : bool := starts_with (rev suf) (rev s).

Definition us1 : text := [c_us].
Definition us2 : text := [c_us; c_us].

(* privacy = PUBLIC; if name.startswith('_') and not (name.startswith('__') and name.endswith('__')): PRIVATE *)
Definition default_privacy (name : text) : priv :=
  if starts_with us1 name && negb (starts_with us2 name && ends_with us2 name) then PRIVATE else PUBLIC.

(* for priv, match in <rs>: if ob_fullName == match: privacy = priv; found = True; break *)
Fixpoint find_exact (rs : list rule) (full : text) : option priv :=
  match rs with
  | [] => None
  | (p, m) :: r => if text_eqb full m then Some p else find_exact r full
  end.

(* for priv, match in <rs>: if qnmatch.qnmatch(ob_fullName, match): privacy = priv; break
   -- an exception of qnmatch leaves the loop (and privacyClass, and the run) *)
Fixpoint find_pattern (rs : list rule) (full : text) : outcome (option priv) :=
  match rs with
  | [] => Ok None
  | (p, m) :: r =>
    bind (qnmatch full m) (fun b => if b then Ok (Some p) else find_pattern r full)
  end.

(* the body of System.privacyClass after the cache lookup and the kind test *)
Definition compute_privacy (opts : list rule) (o : obj) : outcome priv :=
  let privacy := default_privacy (o_name o) in
  match find_exact (rev opts) (o_full o) with
  | Some p => Ok p
  | None =>
    bind (find_pattern (rev opts) (o_full o)) (fun r =>
    match r with Some p => Ok p | None => Ok privacy end)
  end.

Definition cache : Type := list (text * priv).          (* _privacyClassCache: Dict[str, PrivacyClass] *)

Fixpoint cache_get (c : cache) (k : text) : option priv :=
  match c with
  | [] => None
  | (k', v) :: r => if text_eqb k k' then Some v else cache_get r k
  end.

(* System.privacyClass(ob): result and the cache afterwards *)
Definition system_privacyClass (opts : list rule) (c : cache) (o : obj) : outcome priv * cache :=
  match cache_get c (o_full o) with
  | Some p => (Ok p, c)
  | None =>
    if negb (o_has_kind o) then (Ok HIDDEN, c)
    else match compute_privacy opts o with
         | Ok p => (Ok p, (o_full o, p) :: c)
         | Err e => (Err e, c)
         end
  end.

Definition main_name : text := [c_us; c_us; 109; 97; 105; 110; c_us; c_us].    (* __main__ *)

(* ob.privacyClass : Module overrides Documentable *)
Definition doc_privacyClass (opts : list rule) (c : cache) (o : obj) : outcome priv * cache :=
  if o_is_module o && text_eqb (o_name o) main_name then (Ok PRIVATE, c)
  else system_privacyClass opts c o.

(* a sequence of queries against one System *)
Fixpoint run_queries (opts : list rule) (c : cache) (qs : list obj) : list (outcome priv) :=
  match qs with
  | [] => []
  | o :: r => let '(x, c') := doc_privacyClass opts c o in x :: run_queries opts c' r
  end.

(* ---- Documentable.isPrivate / isVisible (properties; nothing is stored on the object: the only cache is the
   System's) ------------------------------------------------------------------------------------------- *)
Definition priv_eqb (a b : priv) : bool :=
  match a, b with
  | HIDDEN, HIDDEN | PRIVATE, PRIVATE | PUBLIC, PUBLIC => true
  | _, _ => false
  end.

(* return self.privacyClass is not PrivacyClass.PUBLIC *)
Definition is_private (opts : list rule) (c : cache) (o : obj) : outcome bool * cache :=
  let '(r, c') := doc_privacyClass opts c o in
  (bind r (fun p => Ok (negb (priv_eqb p PUBLIC))), c').

(* isVisible = self.privacyClass is not HIDDEN
   if isVisible and self.parent: isVisible = self.parent.isVisible          (parents: nearest first, up to the root) *)
Fixpoint is_visible (opts : list rule) (c : cache) (o : obj) (parents : list obj) : outcome bool * cache :=
  let '(r, c') := doc_privacyClass opts c o in
  match r with
  | Err e => (Err e, c')
  | Ok p =>
    if priv_eqb p HIDDEN then (Ok false, c')
    else match parents with
         | [] => (Ok true, c')
         | q :: ps => is_visible opts c' q ps
         end
  end.

(* a sequence of mixed queries against one System *)
Inductive query : Type :=
| QPrivacy (o : obj)
| QVisible (o : obj) (parents : list obj)
| QPrivate (o : obj).

Inductive answer : Type :=
| ALevel (r : outcome priv)
| ABool (r : outcome bool).

Definition ask (opts : list rule) (c : cache) (q : query) : answer * cache :=
  match q with
  | QPrivacy o => let '(x, c') := doc_privacyClass opts c o in (ALevel x, c')
  | QVisible o ps => let '(x, c') := is_visible opts c o ps in (ABool x, c')
  | QPrivate o => let '(x, c') := is_private opts c o in (ABool x, c')
  end.

Fixpoint run_asks (opts : list rule) (c : cache) (qs : list query) : list answer :=
  match qs with
  | [] => []
  | q :: r => let '(x, c') := ask opts c q in x :: run_asks opts c' r
  end.

(* ---- utils.parse_privacy_tuple ---------------------------------------------------- *)
(* str.split(':') *)
Fixpoint split_colon (s : text) (cur : text) : list text :=
  match s with
  | [] => [rev cur]
  | c :: r => if c =? c_colon then rev cur :: split_colon r [] else split_colon r (c :: cur)
  end.

(* Py_UNICODE_ISSPACE: what str.strip() removes *)
Definition py_isspace (c : N) : bool :=
  ((9 <=? c) && (c <=? 13)) || ((28 <=? c) && (c <=? 32)) || (c =? 133) || (c =? 160) || (c =? 5760) ||
  ((8192 <=? c) && (c <=? 8202)) || (c =? 8232) || (c =? 8233) || (c =? 8239) || (c =? 8287) || (c =? 12288).

Fixpoint lstrip (s : text) : text :=
  match s with
  | [] => []
  | c :: r => if py_isspace c then lstrip r else s
  end.
Definition strip (s : text) : text := rev (lstrip (rev (lstrip s))).

(* str.upper(), exact on every character whose uppercase is one ASCII capital letter; every other
   character is left alone (its real uppercase is never a string of ASCII capitals that occurs in a
   member name -- checked over all code points by the harness) *)
Definition upper_char (c : N) : N :=
  if (97 <=? c) && (c <=? 122) then c - 32
  else if c =? 305 then 73            (* dotless i -> I *)
  else if c =? 383 then 83            (* long s -> S *)
  else c.
Definition upper (s : text) : text := map upper_char s.

Definition n_HIDDEN : text := [72; 73; 68; 68; 69; 78].
Definition n_PRIVATE : text := [80; 82; 73; 86; 65; 84; 69].
Definition n_PUBLIC : text := [80; 85; 66; 76; 73; 67].
Definition n_VISIBLE : text := [86; 73; 83; 73; 66; 76; 69].

(* model.PrivacyClass[name] : KeyError -> None *)
Definition privacy_by_name (s : text) : option priv :=
  if text_eqb s n_HIDDEN then Some HIDDEN
  else if text_eqb s n_PRIVATE then Some PRIVATE
  else if text_eqb s n_PUBLIC then Some PUBLIC
  else if text_eqb s n_VISIBLE then Some PUBLIC
  else None.

(* the three ways out of parse_privacy_tuple: the tuple, or one of the two error(...) calls (print + SystemExit(1)) *)
Inductive parse_result : Type :=
| ParsedRule (r : rule)
| Malformatted                    (* "malformatted value ... should be like '<privacy>:<PATTERN>'" *)
| UnknownLevel (part : text).     (* "unknown privacy value {parts[0]!r} should be one of 'HIDDEN', 'PRIVATE', 'PUBLIC'" *)

Definition parse_privacy_tuple_result (value : text) : parse_result :=
  match split_colon value [] with
  | [a; b] =>                                       (* len(parts) == 2 *)
    match privacy_by_name (upper (strip a)) with    (* try: model.PrivacyClass[parts[0].strip().upper()] *)
    | Some p => ParsedRule (p, strip b)             (* else: return (priv, parts[1].strip()) *)
    | None => UnknownLevel a                        (* except: error(...) *)
    end
  | _ => Malformatted
  end.

(* None = error(...) = SystemExit *)
Definition parse_privacy_tuple (value : text) : option rule :=
  match parse_privacy_tuple_result value with
  | ParsedRule r => Some r
  | _ => None
  end.

(* ---- wire codec -------------------------------------------------------------------- *)
Definition of_err (e : err) : sexp :=
  L [A 1; A (match e with BadRange => 1 | ReOther => 2 | Unsupported => 3 | OutOfFuel => 4 | PyIndexError => 5 end)%Z].
Definition of_outcome {X} (f : X -> sexp) (r : outcome X) : sexp :=
  match r with Ok x => L [A 0%Z; f x] | Err e => of_err e end.
Definition of_priv (p : priv) : sexp := A (match p with HIDDEN => 0 | PRIVATE => 1 | PUBLIC => 2 end)%Z.
Definition priv_of_Z (z : Z) : priv := match z with 0%Z => HIDDEN | 1%Z => PRIVATE | _ => PUBLIC end.

(* all names over an alphabet, shortest first, each length in itertools.product order *)
Fixpoint names_of_len (alpha : text) (k : nat) : list text :=
  match k with
  | O => [[]]
  | S k' => flat_map (fun c => map (cons c) (names_of_len alpha k')) alpha
  end.
Definition all_names (alpha : text) (maxlen : nat) : list text :=
  flat_map (names_of_len alpha) (seq 0 (S maxlen)).

(* 60 booleans per integer, least significant first; a final (possibly empty) chunk is always emitted *)
Fixpoint pack (bs : list bool) (k : nat) (w acc : N) : list N :=
  match bs with
  | [] => [acc]
  | b :: r =>
    let acc' := if b then acc + w else acc in
    match k with
    | O => acc' :: pack r 59 1 0
    | S k' => pack r k' (2 * w) acc'
    end
  end.
Definition pack_bools (bs : list bool) : sexp := L (map of_N (pack bs 59 1 0)).

Definition rule_of_sexp (s : sexp) : rule := (priv_of_Z (to_Z (nth_s 0 s)), to_text (nth_s 1 s)).
Definition obj_of_sexp (s : sexp) : obj :=
  {| o_full := to_text (nth_s 0 s); o_name := to_text (nth_s 1 s);
     o_has_kind := to_bool (nth_s 2 s); o_is_module := to_bool (nth_s 3 s) |}.

(* query := ( full name has_kind is_module [ kind [ parents ] ] )   kind: 0 privacyClass, 1 isVisible, 2 isPrivate *)
Definition query_of_sexp (s : sexp) : query :=
  match to_Z (nth_s 4 s) with
  | 1%Z => QVisible (obj_of_sexp s) (map obj_of_sexp (to_list (nth_s 5 s)))
  | 2%Z => QPrivate (obj_of_sexp s)
  | _ => QPrivacy (obj_of_sexp s)
  end.
Definition of_answer (a : answer) : sexp :=
  match a with ALevel r => of_outcome of_priv r | ABool r => of_outcome of_bool r end.

(* input := ( op arg ... )
     0 pat                  translate                       -> outcome text
     1 pat alphabet maxlen  qnmatch(name, pat) for all names -> outcome (packed booleans)
     2 pat name             qnmatch                          -> outcome bool
     3 pat alphabet maxlen  Spec.Glob                        -> ( wf packed-booleans )
     4 pat name             Spec.Glob                        -> ( wf matches )
     5 rules queries        privacyClass / isVisible / isPrivate on one System -> list of outcome (level | bool)
     6 value                parse_privacy_tuple              -> ( 0 level pattern ) | ( 1 kind part )  kind 1 malformatted, 2 unknown level
     7 text                 re.escape of each character      -> list of text
     8 text                 upper of each / isspace of each  -> ( text , list bool )
     9 regex name           Spec.ReFrag on a raw regex       -> outcome bool
    10 pat name             qnmatch with the table matcher   -> outcome bool   (= op 2 by match_linear_spec) *)
Definition run_base (s : sexp) : sexp :=
  let a1 := nth_s 1 s in
  let a2 := nth_s 2 s in
  let a3 := nth_s 3 s in
  match to_Z (nth_s 0 s) with
  | 0%Z => of_outcome of_text (translate (to_text a1))
  | 1%Z =>
    match compile_pattern (to_text a1) with
    | Ok re => L [A 0%Z; pack_bools (map (match_items re) (all_names (to_text a2) (to_nat a3)))]
    | Err e => of_err e
    end
  | 2%Z => of_outcome of_bool (qnmatch (to_text a2) (to_text a1))
  | 3%Z =>
    let ts := lex (to_text a1) in
    L [of_bool (forallb tok_wf ts); pack_bools (map (gmatch ts) (all_names (to_text a2) (to_nat a3)))]
  | 4%Z => L [of_bool (wf_pattern (to_text a1)); of_bool (matches (to_text a1) (to_text a2))]
  | 5%Z => L (map of_answer (run_asks (map rule_of_sexp (to_list a1)) [] (map query_of_sexp (to_list a2))))
  | 6%Z =>
    match parse_privacy_tuple_result (to_text a1) with
    | ParsedRule (p, m) => L [A 0%Z; of_priv p; of_text m]
    | Malformatted => L [A 1%Z; A 1%Z; L []]
    | UnknownLevel part => L [A 1%Z; A 2%Z; of_text part]
    end
  | 7%Z => L (map (fun c => of_text (re_escape c)) (to_text a1))
  | 8%Z => L [of_text (upper (to_text a1)); L (map (fun c => of_bool (py_isspace c)) (to_text a1))]
  | 9%Z => of_outcome of_bool (match_re (read_re (to_text a1)) (to_text a2))
  | 10%Z => of_outcome of_bool (bind (compile_pattern (to_text a1)) (fun re => Ok (match_linear re (to_text a2))))
  | _ => bad_input
  end.
