(* Model/Segments.v -- pydoctor/epydoc/doctest.py : colorize_codeblock_body, subfunc, colorize_doctest_body.
   Definitions only (no proofs).

   The regular expressions are ORACLES (section variables):
     finditer     s  = [(m.start(), m.end(), named group that matched) for m in DOCTEST_RE.finditer(s)]
     examples     s  = [(m.start(), m.end('source'), m.end()) for m in DOCTEST_EXAMPLE_RE.finditer(s)]
     prompt2   line  = PROMPT2_RE.match(line).end()           (None when it does not match)
     define_match t  = lengths of the groups def / space / name of DEFINE_FUNC_RE.match(t)
     is_except want  = bool(EXCEPT_RE.match(want))
   Their contracts are in Spec/Conserve.v.  Concrete readings of PROMPT2_RE and DEFINE_FUNC_RE (whose
   patterns are pinned by harness/gen/gen_c09.py) are given at the end and used by `run`.

   A generator that raises is modelled by its whole outcome: Ok (everything yielded) or AssertFail. *)
From Coq Require Import ZArith NArith List Bool Arith.
From PydoctorVerif Require Import Base.Sexp Model.FieldTypes Gen.TablesC09.
Import ListNotations.

Inductive kind := KString | KComment | KDefine | KKeyword | KBuiltin | KPrompt1 | KPrompt2 | KEos.
Record span := { sp_start : nat; sp_end : nat; sp_kind : kind }.
Record example := { ex_start : nat; ex_src_end : nat; ex_end : nat }.

(* what is yielded: a plain str, or tags.span(text, class_=...) *)
Inductive style :=
| Plain | PyPrompt | PyMore | PyKeyword | PyBuiltin | PyComment | PyString | PyDefname | PyOutput | PyExcept.
Definition seg := (style * text)%type.

Inductive res (X : Type) :=
| Ok (x : X)
| AssertFail (code : N)      (* 1: assert idx == len(s)   2: assert m is not None   3: 'Unexpected match' *)
| OutOfFuel.
Arguments Ok {X} x.
Arguments AssertFail {X} code.
Arguments OutOfFuel {X}.

Definition bind {X Y} (r : res X) (f : X -> res Y) : res Y :=
  match r with Ok x => f x | AssertFail c => AssertFail c | OutOfFuel => OutOfFuel end.

(* s[a:b] for 0 <= a, b *)
Definition slice (s : text) (a b : nat) : text := firstn (b - a) (skipn a s).

Definition nonempty (t : text) : bool := match t with [] => false | _ => true end.

(* text.find(c, idx) *)
Fixpoint find_from (c : N) (t : text) (pos : nat) : option nat :=
  match t with
  | [] => None
  | x :: t' => if N.eqb x c then Some pos else find_from c t' (S pos)
  end.
Definition find_nl (t : text) (idx : nat) : option nat := find_from 10%N (skipn idx t) idx.

Definition NL : text := [10%N].

(* str.split('\n') : at least one piece *)
Fixpoint split_nl (t : text) : list text :=
  match t with
  | [] => [[]]
  | c :: t' =>
    match split_nl t' with
    | [] => [[c]]
    | l :: ls => if N.eqb c 10 then [] :: l :: ls else (c :: l) :: ls
    end
  end.

(* str.rstrip() *)
Definition is_py_space (c : N) : bool := existsb (N.eqb c) py_space.
Fixpoint dropwhile {X} (p : X -> bool) (l : list X) : list X :=
  match l with
  | [] => []
  | x :: l' => if p x then dropwhile p l' else l
  end.
Definition rstrip (t : text) : text := rev (dropwhile is_py_space (rev t)).

Section Colorize.
  Variable finditer : text -> list span.
  Variable examples : text -> list example.
  Variable prompt2 : text -> option nat.
  Variable define_match : text -> option (nat * nat * nat).
  Variable is_except : text -> bool.

  (* the STRING branch of subfunc:
       idx = 0
       while True:
           nxt = text.find('\n', idx)
           line = text[idx:] if nxt == -1 else text[idx:nxt]
           m = PROMPT2_RE.match(line)
           if m: yield span(line[:m.end()], 'py-more'); line = line[m.end():]
           if line: yield span(line, 'py-string')
           if nxt == -1: break
           yield '\n'
           idx = nxt + 1 *)
  Fixpoint str_loop (fuel : nat) (t : text) (idx : nat) : res (list seg) :=
    match fuel with
    | O => OutOfFuel
    | S fuel' =>
      let nxt := find_nl t idx in
      let line := match nxt with None => skipn idx t | Some n => slice t idx n end in
      let '(more, line') :=
        match prompt2 line with
        | Some e => ([(PyMore, firstn e line)], skipn e line)
        | None => ([], line)
        end in
      let body := if nonempty line' then [(PyString, line')] else [] in
      match nxt with
      | None => Ok (more ++ body)
      | Some n => bind (str_loop fuel' t (S n)) (fun rest => Ok (more ++ body ++ [(Plain, NL)] ++ rest))
      end
    end.

  (* subfunc(match): `match.group(K)` is the text of the whole match when alternative K matched and None
     otherwise, so `if match.group(K)` is "K matched and the text is not empty". *)
  Definition subfunc (k : kind) (t : text) : res (list seg) :=
    if nonempty t then
      match k with
      | KPrompt1 => Ok [(PyPrompt, t)]
      | KPrompt2 => Ok [(PyMore, t)]
      | KKeyword => Ok [(PyKeyword, t)]
      | KBuiltin => Ok [(PyBuiltin, t)]
      | KComment => Ok [(PyComment, t)]
      | KString => str_loop (S (length t)) t 0
      | KDefine =>
        match define_match t with
        | None => AssertFail 2
        | Some (a, b, c) =>
          Ok [(PyKeyword, slice t 0 a); (Plain, slice t a (a + b)); (PyDefname, slice t (a + b) (a + b + c))]
        end
      | KEos => Ok []
      end
    else
      match k with
      | KEos => Ok []
      | _ => AssertFail 3
      end.

  (* colorize_codeblock_body:
       idx = 0
       for match in DOCTEST_RE.finditer(s):
           start = match.start()
           if idx < start: yield s[idx:start]
           yield from subfunc(match)
           idx = match.end()
       assert idx == len(s) *)
  Fixpoint cb_loop (s : text) (ms : list span) (idx : nat) : res (list seg) :=
    match ms with
    | [] => if Nat.eqb idx (length s) then Ok [] else AssertFail 1
    | m :: ms' =>
      let pre := if Nat.ltb idx (sp_start m) then [(Plain, slice s idx (sp_start m))] else [] in
      bind (subfunc (sp_kind m) (slice s (sp_start m) (sp_end m))) (fun sub =>
      bind (cb_loop s ms' (sp_end m)) (fun rest => Ok (pre ++ sub ++ rest)))
    end.

  Definition colorize_codeblock_body (s : text) : res (list seg) := cb_loop s (finditer s) 0.

  (* if want:
         style = 'py-except' if EXCEPT_RE.match(want) else 'py-output'
         for line in want.rstrip().split('\n'): yield span(line, style); yield '\n' *)
  Definition want_segs (want : text) : list seg :=
    if nonempty want then
      let st := if is_except want then PyExcept else PyOutput in
      flat_map (fun line => [(st, line); (Plain, NL)]) (split_nl (rstrip want))
    else [].

  (* colorize_doctest_body:
       idx = 0
       for match in DOCTEST_EXAMPLE_RE.finditer(s):
           pysrc, want = match.group('source', 'want')
           yield s[idx:match.start()]
           yield from colorize_codeblock_body(pysrc)
           if want: ...
           idx = match.end()
       yield s[idx:] *)
  Fixpoint dt_loop (s : text) (exs : list example) (idx : nat) : res (list seg) :=
    match exs with
    | [] => Ok [(Plain, skipn idx s)]
    | e :: exs' =>
      let pysrc := slice s (ex_start e) (ex_src_end e) in
      let want := slice s (ex_src_end e) (ex_end e) in
      bind (colorize_codeblock_body pysrc) (fun src =>
      bind (dt_loop s exs' (ex_end e)) (fun rest =>
        Ok ([(Plain, slice s idx (ex_start e))] ++ src ++ want_segs want ++ rest)))
    end.

  Definition colorize_doctest_body (s : text) : res (list seg) := dt_loop s (examples s) 0.
End Colorize.

(* ---- concrete readings of the two small regexes (patterns pinned by gen_c09.py) ------------------- *)

Fixpoint takewhile_len {X} (p : X -> bool) (l : list X) : nat :=
  match l with
  | [] => 0
  | x :: l' => if p x then S (takewhile_len p l') else 0
  end.

Definition is_sp_tab (c : N) : bool := N.eqb c 32 || N.eqb c 9.

(* PROMPT2_RE = (^[ \t]*\.\.\.(?:[ \t]|$)) with MULTILINE|DOTALL, used with .match(line) *)
Definition prompt2_re (line : text) : option nat :=
  let ws := takewhile_len is_sp_tab line in
  match skipn ws line with
  | 46%N :: 46%N :: 46%N :: r =>
    match r with
    | [] => Some (ws + 3)
    | c :: _ => if is_sp_tab c then Some (ws + 4) else if N.eqb c 10 then Some (ws + 3) else None
    end
  | _ => None
  end.

(* DEFINE_FUNC_RE = (?P<def>\w+)(?P<space>\s+)(?P<name>\w+) used with .match(text).
   \w and \s are disjoint, so greedy matching without backtracking decides the match. *)
Definition define_re (is_word is_space : N -> bool) (t : text) : option (nat * nat * nat) :=
  let a := takewhile_len is_word t in
  let b := takewhile_len is_space (skipn a t) in
  let c := takewhile_len is_word (skipn (a + b) t) in
  match a, b, c with
  | S _, S _, S _ => Some (a, b, c)
  | _, _, _ => None
  end.

(* ---- wire ------------------------------------------------------------------------------------------
   input  := ( fn s words spaces tables exs excepts )
       fn      : 0 colorize_codeblock_body | 1 colorize_doctest_body
       words   : code points c of the input with re.match(r'\w', c)      spaces : likewise for \s
       tables  : list of ( text ( (start end kind) ... ) )   -- DOCTEST_RE.finditer on that text
       exs     : list of ( start src_end end )                -- DOCTEST_EXAMPLE_RE.finditer(s)
       excepts : list of want texts for which EXCEPT_RE.match(want)
   kind    : 0 STRING 1 COMMENT 2 DEFINE 3 KEYWORD 4 BUILTIN 5 PROMPT1 6 PROMPT2 7 EOS
   output := ( status code ( (style text) ... ) )   status 0 Ok | 1 AssertFail code | 2 out of fuel
   style   : 0 str 1 py-prompt 2 py-more 3 py-keyword 4 py-builtin 5 py-comment 6 py-string 7 py-defname
             8 py-output 9 py-except *)
Definition kind_of_Z (z : Z) : kind :=
  match z with
  | 0%Z => KString | 1%Z => KComment | 2%Z => KDefine | 3%Z => KKeyword | 4%Z => KBuiltin
  | 5%Z => KPrompt1 | 6%Z => KPrompt2 | _ => KEos
  end.

Definition style_code (s : style) : Z :=
  match s with
  | Plain => 0 | PyPrompt => 1 | PyMore => 2 | PyKeyword => 3 | PyBuiltin => 4 | PyComment => 5
  | PyString => 6 | PyDefname => 7 | PyOutput => 8 | PyExcept => 9
  end%Z.

Definition span_of_sexp (x : sexp) : span :=
  {| sp_start := to_nat (nth_s 0 x); sp_end := to_nat (nth_s 1 x); sp_kind := kind_of_Z (to_Z (nth_s 2 x)) |}.

Definition example_of_sexp (x : sexp) : example :=
  {| ex_start := to_nat (nth_s 0 x); ex_src_end := to_nat (nth_s 1 x); ex_end := to_nat (nth_s 2 x) |}.

Fixpoint lookup_text {X} (t : text) (l : list (text * X)) : option X :=
  match l with
  | [] => None
  | (k, v) :: l' => if text_eqb k t then Some v else lookup_text t l'
  end.

Definition mem_N (l : list N) (c : N) : bool := existsb (N.eqb c) l.

Definition seg_sexp (g : seg) : sexp := L [A (style_code (fst g)); of_text (snd g)].

Definition run (x : sexp) : sexp :=
  let fn := to_Z (nth_s 0 x) in
  let s := to_text (nth_s 1 x) in
  let words := to_text (nth_s 2 x) in
  let spaces := to_text (nth_s 3 x) in
  let tables := map (fun e => (to_text (nth_s 0 e), map span_of_sexp (to_list (nth_s 1 e)))) (to_list (nth_s 4 x)) in
  let exs := map example_of_sexp (to_list (nth_s 5 x)) in
  let excepts := map to_text (to_list (nth_s 6 x)) in
  let finditer := fun t => match lookup_text t tables with Some ms => ms | None => [] end in
  let is_except := fun w => existsb (text_eqb w) excepts in
  let define_match := define_re (mem_N words) (mem_N spaces) in
  let r :=
    match fn with
    | 0%Z => colorize_codeblock_body finditer prompt2_re define_match s
    | _ => colorize_doctest_body finditer (fun _ => exs) prompt2_re define_match is_except s
    end in
  match r with
  | Ok segs => L [A 0; A 0; L (map seg_sexp segs)]
  | AssertFail c => L [A 1; of_N c; L []]
  | OutOfFuel => L [A 2; A 0; L []]
  end.
