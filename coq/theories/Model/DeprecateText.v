(* Model/DeprecateText.v -- pydoctor.extensions.deprecate: validate_identifier, the text built by
   deprecatedToUsefulText and the reStructuredText handed to the parser by getDeprecated.
   Definitions only.  Templates and the replacement clean-up come from Gen/TablesC10.v. *)
From Coq Require Import ZArith NArith List Bool.
From PydoctorVerif Require Import Base.Sexp Gen.TablesC10 Model.Stan Model.DocutilsEsc.
Import ListNotations.
Local Open Scope N_scope.

Definition in_ranges (c : N) (rs : list (N * N)) : bool :=
  existsb (fun r => (fst r <=? c) && (c <=? snd r)) rs.

(* str.isidentifier *)
Definition isidentifier (t : text) : bool :=
  match t with
  | [] => false
  | c :: r => in_ranges c xid_start && forallb (fun d => in_ranges d xid_continue) r
  end.

(* str.split(sep) for a one-character separator *)
Fixpoint split_on (sep : N) (t : text) : list text :=
  match t with
  | [] => [[]]
  | c :: r =>
    if c =? sep then [] :: split_on sep r
    else match split_on sep r with
         | h :: tl => (c :: h) :: tl
         | [] => [[c]]
         end
  end.

(* all(p.isidentifier() for p in _text.split('.')) *)
Definition validate_identifier (t : text) : bool := forallb isidentifier (split_on 46 t).

(* str.format on a parsed template: pieces (literal, field) *)
Definition fmt (tpl : list (text * N)) (env : N -> text) : text :=
  flat_map (fun p => fst p ++ (if snd p =? 9 then [] else env (snd p))) tpl.

(* the clean-up of a non-identifier replacement: .replace(a, b) calls and sep.join(x.split()), in the order of the code *)
Definition apply_op (r : text) (op : N * N * text) : text :=
  let '(kind, a, b) := op in
  if kind =? 0 then replace1 a b r else join b (py_split r).

Definition clean_with (ops : list (N * N * text)) (r : text) : text :=
  if validate_identifier r then r
  else depr_wrap_pre ++ fold_left apply_op ops r ++ depr_wrap_post.

Definition clean_replacement (r : text) : text := clean_with depr_ops r.

(* deprecatedToUsefulText, from the point where package, version and replacement are known.
   None = ValueError (invalid package name). *)
Definition deprecation_text_with (ops : list (N * N * text)) (name package version : text) (replacement : option text)
  : option text :=
  if negb (validate_identifier package) then None
  else
    match replacement with
    | Some r =>
      let r' := clean_with ops r in
      Some (fmt depr_with (fun f => if f =? 0 then name else if f =? 1 then package
                                     else if f =? 2 then version else if f =? 3 then r' else []))
    | None =>
      Some (fmt depr_without (fun f => if f =? 0 then name else if f =? 1 then package
                                        else if f =? 2 then version else []))
    end.

Definition deprecation_text := deprecation_text_with depr_ops.

(* the clean-up before the repair (only '\n' replaced): kept for the _old_refuted witnesses *)
Definition old_ops : list (N * N * text) := [(0, 10, [32])].
Definition deprecation_text_old := deprecation_text_with old_ops.

(* getDeprecated: doc=f".. deprecated:: {version}\n   {text}" *)
Definition deprecation_doc (version text_ : text) : text :=
  fmt depr_doc (fun f => if f =? 2 then version else if f =? 4 then text_ else []).

(* how many times docutils' string2lines (convert_whitespace, then str.splitlines) breaks the text:
   CR LF counts once *)
Definition is_break (c : N) : bool := memN c line_breaks && negb (memN c rst_ws).
Fixpoint count_breaks (s : text) : nat :=
  match s with
  | [] => O
  | c :: r =>
    if is_break c
    then S (match r with
            | d :: r' => if (c =? 13) && (d =? 10) then count_breaks r' else count_breaks r
            | [] => O
            end)
    else count_breaks r
  end.
