(* Model/Registry.v -- the object tree and the name registry of pydoctor/model.py:
     System.addObject / handleDuplicate / _remove / _addUnprocessedModule / _handleDuplicateModule,
     Documentable.__init__ / fullName / reparent / _handle_reparenting_pre / _handle_reparenting_post / url,
     Function.setup (kind), ASTBuilder._push / addAttribute (construct + addObject), defaultPostProcess (subclasses).
   Definitions only (the proofs are in Proofs/RegistryProofs.v).

   Conventions (DESIGN.md section 4):
   * objects are ids (N) into a store id -> obj; the store is total, ids >= next are unallocated.
   * a NAME is one path component.  It is structured:  (base, [i1; ...; ik])  stands for the Python string
     base ++ " " ++ str(i1) ++ ... ++ " " ++ str(ik)   -- handleDuplicate appends " " ++ str(i).  The rendering is
     injective for bases without blank and dot; the correspondence check renders names that way on the Python side.
   * a qualified name is a PATH (list name); System.allobjects is an insertion-ordered association list keyed
     by paths; Documentable.contents is an insertion-ordered association list keyed by names.
   * Python recursion (fullName walks up `parent`, _remove / readd / _handle_reparenting_* walk down `contents`)
     is fuelled by the ghost component `depthb` (an upper bound of the nesting depth kept by the operations);
     running out of fuel is the model of Python's RecursionError and is an explicit failure (None) which the
     theorems exclude.
   * every operation returns `option state`; None = the Python code raises (KeyError, AssertionError, ValueError,
     RecursionError).
   * `osup` is a ghost flag: "this object is an older definition that handleDuplicate has renamed" (the exception
     the property text makes); the harness observes it by wrapping System.handleDuplicate.
   * Module.state (C01's domain) is not modelled: in the modelled API use no module is ever processed, so
     `assert mod.state is UNPROCESSED` cannot fail.  System.unprocessed_modules is modelled (its `remove(first)`
     raises for a module that was replaced earlier).  _is_c_module is always False. *)
From Coq Require Import ZArith NArith List Bool.
From PydoctorVerif Require Import Base.Sexp Model.Mro.
Import ListNotations.
Local Open Scope N_scope.

Definition id := N.
Definition name := (N * list N)%type.
Definition path := list name.

Inductive ocls := CModule | CPackage | CClass | CFunction | CAttribute.

(* DocumentableKind values *)
Definition K_PACKAGE : N := 1000.
Definition K_MODULE : N := 900.
Definition K_CLASS : N := 800.
Definition K_CLASS_METHOD : N := 700.
Definition K_STATIC_METHOD : N := 600.
Definition K_METHOD : N := 500.
Definition K_FUNCTION : N := 400.

Record obj := mkObj {
  oname : name;                       (* Documentable.name *)
  oparent : option id;                (* Documentable.parent *)
  ocl : ocls;                         (* the Python class of the object *)
  okind : N;                          (* Documentable.kind (0 = None) *)
  ocont : list (name * id);           (* Documentable.contents *)
  oalias : list (name * path);        (* _localNameToFullName_map entries written by reparent *)
  obases : list (option id);          (* Class.baseobjects *)
  osubs : list id;                    (* Class.subclasses *)
  osup : bool                         (* ghost: renamed by handleDuplicate *)
}.

Definition registry := list (path * id).

Record state := mkState {
  store : id -> obj;
  next : id;                          (* ids < next are allocated *)
  allobj : registry;                  (* System.allobjects *)
  roots : list id;                    (* System.rootobjects *)
  depthb : nat;                       (* ghost: recursion fuel *)
  unproc : list id                    (* System.unprocessed_modules *)
}.

(* ---- equality tests ---- *)
Fixpoint list_eqb {X} (e : X -> X -> bool) (a b : list X) : bool :=
  match a, b with
  | [], [] => true
  | x :: a', y :: b' => e x y && list_eqb e a' b'
  | _, _ => false
  end.
Definition name_eqb (a b : name) : bool := N.eqb (fst a) (fst b) && list_eqb N.eqb (snd a) (snd b).
Definition path_eqb (a b : path) : bool := list_eqb name_eqb a b.
Definition ocls_eqb (a b : ocls) : bool :=
  match a, b with
  | CModule, CModule | CPackage, CPackage | CClass, CClass | CFunction, CFunction | CAttribute, CAttribute => true
  | _, _ => false
  end.
Definition is_module (c : ocls) : bool := match c with CModule | CPackage => true | _ => false end.
(* isinstance(x, CanContainImportsDocumentable) *)
Definition can_contain_imports (c : ocls) : bool := match c with CModule | CPackage | CClass => true | _ => false end.

(* ---- insertion-ordered dicts ---- *)
Section Assoc.
  Context {K V : Type}.
  Variable eqb : K -> K -> bool.
  Fixpoint aget (k : K) (l : list (K * V)) : option V :=
    match l with
    | [] => None
    | (k', v) :: t => if eqb k' k then Some v else aget k t
    end.
  (* d[k] = v : replaces in place, else appends *)
  Fixpoint aset (k : K) (v : V) (l : list (K * V)) : list (K * V) :=
    match l with
    | [] => [(k, v)]
    | (k', v') :: t => if eqb k' k then (k, v) :: t else (k', v') :: aset k v t
    end.
  (* removes every binding of k (a dict has at most one) *)
  Fixpoint adel (k : K) (l : list (K * V)) : list (K * V) :=
    match l with
    | [] => []
    | (k', v') :: t => if eqb k' k then adel k t else (k', v') :: adel k t
    end.
  (* del d[k] : KeyError when absent *)
  Definition adel_strict (k : K) (l : list (K * V)) : option (list (K * V)) :=
    match aget k l with None => None | Some _ => Some (adel k l) end.
End Assoc.

Definition rget := @aget path id path_eqb.
Definition rset := @aset path id path_eqb.
Definition rdel := @adel path id path_eqb.
Definition cget := @aget name id name_eqb.
Definition cset := @aset name id name_eqb.
Definition cdel := @adel name id name_eqb.

(* ---- store updates ---- *)
Definition upd (st : id -> obj) (k : id) (v : obj) : id -> obj := fun x => if N.eqb x k then v else st x.

Definition with_name (o : obj) (n : name) : obj :=
  mkObj n (oparent o) (ocl o) (okind o) (ocont o) (oalias o) (obases o) (osubs o) (osup o).
Definition with_parent (o : obj) (p : option id) : obj :=
  mkObj (oname o) p (ocl o) (okind o) (ocont o) (oalias o) (obases o) (osubs o) (osup o).
Definition with_cont (o : obj) (c : list (name * id)) : obj :=
  mkObj (oname o) (oparent o) (ocl o) (okind o) c (oalias o) (obases o) (osubs o) (osup o).
Definition with_alias (o : obj) (a : list (name * path)) : obj :=
  mkObj (oname o) (oparent o) (ocl o) (okind o) (ocont o) a (obases o) (osubs o) (osup o).
Definition with_bases (o : obj) (b : list (option id)) : obj :=
  mkObj (oname o) (oparent o) (ocl o) (okind o) (ocont o) (oalias o) b (osubs o) (osup o).
Definition with_subs (o : obj) (b : list id) : obj :=
  mkObj (oname o) (oparent o) (ocl o) (okind o) (ocont o) (oalias o) (obases o) b (osup o).
Definition with_sup (o : obj) (b : bool) : obj :=
  mkObj (oname o) (oparent o) (ocl o) (okind o) (ocont o) (oalias o) (obases o) (osubs o) b.

Definition set_store (s : state) (st : id -> obj) : state := mkState st (next s) (allobj s) (roots s) (depthb s) (unproc s).
Definition set_allobj (s : state) (m : registry) : state := mkState (store s) (next s) m (roots s) (depthb s) (unproc s).
Definition set_unproc (s : state) (u : list id) : state := mkState (store s) (next s) (allobj s) (roots s) (depthb s) u.

Definition dummy : obj := mkObj (0, []) None CAttribute 0 [] [] [] [] false.
Definition init : state := mkState (fun _ => dummy) 0 [] [] 1 [].

(* ---- Documentable.fullName : walks up `parent` ---- *)
Fixpoint fullpath_f (fuel : nat) (st : id -> obj) (o : id) : option path :=
  match fuel with
  | O => None
  | S f =>
    match oparent (st o) with
    | None => Some [oname (st o)]
    | Some q => match fullpath_f f st q with
                | None => None
                | Some p => Some (p ++ [oname (st o)])
                end
    end
  end.
Definition fullpath (s : state) (o : id) : option path := fullpath_f (depthb s) (store s) o.

(* the root reached by walking up *)
Fixpoint root_f (fuel : nat) (st : id -> obj) (o : id) : option id :=
  match fuel with
  | O => None
  | S f => match oparent (st o) with None => Some o | Some q => root_f f st q end
  end.
Definition root_of (s : state) (o : id) : option id := root_f (depthb s) (store s) o.

(* ---- the walks down `contents` (pre-order), as the list of visited objects ----
   _remove(o):                    del allobjects[o.fullName()];  for c in list(o.contents.values()): _remove(c)
   readd(o):                      allobjects[o.fullName()] = o;  for c in o.contents.values(): readd(c)
   _handle_reparenting_pre/post:  the same two shapes.
   Names, parents and contents do not change during one walk, so a walk is: visit the pre-order list. *)
Fixpoint oconcat {X Y} (f : X -> option (list Y)) (l : list X) : option (list Y) :=
  match l with
  | [] => Some []
  | x :: t => match f x, oconcat f t with
              | Some a, Some b => Some (a ++ b)
              | _, _ => None
              end
  end.
Fixpoint subtree_f (fuel : nat) (st : id -> obj) (o : id) : option (list id) :=
  match fuel with
  | O => None
  | S f => match oconcat (subtree_f f st) (map snd (ocont (st o))) with
           | Some l => Some (o :: l)
           | None => None
           end
  end.
Definition subtree (s : state) (o : id) : option (list id) := subtree_f (S (depthb s)) (store s) o.

(* del allobjects[x.fullName()] for x in T, in order *)
Fixpoint del_walk (s : state) (T : list id) (m : registry) : option registry :=
  match T with
  | [] => Some m
  | x :: t => match fullpath s x with
              | None => None
              | Some k => match adel_strict path_eqb k m with
                          | None => None
                          | Some m' => del_walk s t m'
                          end
              end
  end.
(* allobjects[x.fullName()] = x for x in T, in order *)
Fixpoint set_walk (s : state) (T : list id) (m : registry) : option registry :=
  match T with
  | [] => Some m
  | x :: t => match fullpath s x with
              | None => None
              | Some k => set_walk s t (rset k x m)
              end
  end.
Definition remove_tree (s : state) (o : id) : option registry :=
  match subtree s o with None => None | Some T => del_walk s T (allobj s) end.
Definition readd_tree (s : state) (o : id) : option registry :=
  match subtree s o with None => None | Some T => set_walk s T (allobj s) end.

(* ---- Documentable.__init__ (+ Function.setup for the kind) ---- *)
Definition kind_of (c : ocls) (parent_cls : option ocls) (k : N) : N :=
  match c with
  | CModule => K_MODULE
  | CPackage => K_PACKAGE
  | CClass => K_CLASS
  | CFunction => match parent_cls with Some CClass => K_METHOD | _ => K_FUNCTION end
  | CAttribute => k                     (* addAttribute: attr.kind = kind *)
  end.
Definition alloc (s : state) (c : ocls) (n : name) (parent : option id) (k : N) : state * id :=
  let pc := match parent with None => None | Some q => Some (ocl (store s q)) end in
  let o := mkObj n parent c (kind_of c pc k) [] [] [] [] false in
  (mkState (upd (store s) (next s) o) (N.succ (next s)) (allobj s) (roots s) (S (depthb s)) (unproc s), next s).

(* ---- System.handleDuplicate ---- *)
Fixpoint find_free (fuel : nat) (used : N -> bool) (i : N) : option N :=
  match fuel with
  | O => None
  | S f => if used i then find_free f used (N.succ i) else Some i
  end.
Definition dup_name (n : name) (i : N) : name := (fst n, snd n ++ [i]).
Definition dup_key (fn : path) (i : N) : path :=
  removelast fn ++ [dup_name (last fn (0, [])) i].
Definition key_in (k : path) (m : registry) : bool := match rget k m with None => false | Some _ => true end.

Definition handle_duplicate (s : state) (ob : id) (fn : path) : option state :=
  (* i = 0; while (fullName + ' ' + str(i)) in self.allobjects: i += 1 *)
  match find_free (S (length (allobj s))) (fun i => key_in (dup_key fn i) (allobj s)) 0 with
  | None => None
  | Some i =>
    (* prev = self.allobjects[fullName] *)
    match rget fn (allobj s) with
    | None => None
    | Some prev =>
      (* self._remove(prev) *)
      match remove_tree s prev with
      | None => None
      | Some m1 =>
        (* prev.name = obj.name + ' ' + str(i) *)
        let st2 := upd (store s) prev
                       (with_sup (with_name (store s prev) (dup_name (oname (store s ob)) i)) true) in
        let s2 := mkState st2 (next s) m1 (roots s) (depthb s) (unproc s) in
        (* readd(prev) *)
        match readd_tree s2 prev with
        | None => None
        | Some m2 =>
          (* self.allobjects[fullName] = obj *)
          Some (set_allobj s2 (rset fn ob m2))
        end
      end
    end
  end.

(* ---- System.addObject (obj is already constructed) ---- *)
Definition add_object (s : state) (ob : id) : option state :=
  let o := store s ob in
  let r1 :=
    match oparent o with
    | Some q =>                                               (* obj.parent.contents[obj.name] = obj *)
      Some (set_store s (upd (store s) q (with_cont (store s q) (cset (oname o) ob (ocont (store s q))))))
    | None =>
      if is_module (ocl o)
      then Some (mkState (store s) (next s) (allobj s) (roots s ++ [ob]) (depthb s) (unproc s))   (* rootobjects.append *)
      else None                                                                        (* ValueError *)
    end in
  match r1 with
  | None => None
  | Some s1 =>
    match fullpath s1 ob with
    | None => None
    | Some fn =>
      (* first = self.allobjects.setdefault(obj.fullName(), obj) *)
      match rget fn (allobj s1) with
      | None => Some (set_allobj s1 (allobj s1 ++ [(fn, ob)]))
      | Some first => if N.eqb first ob then Some s1 else handle_duplicate s1 ob fn
      end
    end
  end.

(* ---- System._addUnprocessedModule / _handleDuplicateModule (mod is already constructed) ---- *)
Fixpoint remove1 (x : id) (l : list id) : list id :=           (* list.remove(x): the first occurrence *)
  match l with [] => [] | y :: t => if N.eqb y x then t else y :: remove1 x t end.

(* replaced = [first]; while replaced: mod = replaced.pop(); ...; replaced.extend(o for o in mod.contents.values()
   if isinstance(o, Module)) : the modules reachable from `first` through modules (the order of the visits does not
   matter for what follows; a cyclic `contents` would make the Python loop run forever: out of fuel) *)
Fixpoint modtree_f (fuel : nat) (st : id -> obj) (o : id) : option (list id) :=
  match fuel with
  | O => None
  | S f => match oconcat (modtree_f f st)
                         (map snd (filter (fun nc => is_module (ocl (st (snd nc)))) (ocont (st o)))) with
           | Some l => Some (o :: l)
           | None => None
           end
  end.

Definition add_unprocessed_module (s : state) (md : id) : option state :=
  match fullpath s md with
  | None => None
  | Some fn =>
    match rget fn (allobj s) with
    | None =>
      (* self.unprocessed_modules.append(mod); self.addObject(mod) *)
      add_object (set_unproc s (unproc s ++ [md])) md
    | Some first =>
      if negb (is_module (ocl (store s first))) then None            (* assert isinstance(first, Module) *)
      else
        (* _handleDuplicateModule(first, dup): C-modules win (never here); packages win; else the last wins *)
        if ocls_eqb (ocl (store s first)) CPackage && negb (ocls_eqb (ocl (store s md)) CPackage)
        then Some s
        else
          match remove_tree s first with                            (* self._remove(first) *)
          | None => None
          | Some m1 =>
            (* the modules discovered below a replaced package go away with it:
               for each of them `if mod in self.unprocessed_modules: self.unprocessed_modules.remove(mod)` *)
            match modtree_f (S (depthb s)) (store s) first with
            | None => None
            | Some mods =>
              let s0 := set_unproc (set_allobj s m1) (fold_left (fun u m => remove1 m u) mods (unproc s)) in
              (* if first.parent is not None and first.parent.contents.get(first.name) is first:
                     del first.parent.contents[first.name] *)
              let s1 :=
                match oparent (store s first) with
                | None => s0
                | Some p =>
                  match cget (oname (store s first)) (ocont (store s p)) with
                  | Some x => if N.eqb x first
                              then set_store s0 (upd (store s) p (with_cont (store s p)
                                                     (cdel (oname (store s first)) (ocont (store s p)))))
                              else s0
                  | None => s0
                  end
                end in
              (* if first in self.rootobjects: self.rootobjects.remove(first) *)
              let s2 := mkState (store s1) (next s1) (allobj s1) (remove1 first (roots s1)) (depthb s1) (unproc s1) in
              (* self._addUnprocessedModule(dup): the name must be free now *)
              match fullpath s2 md with
              | None => None
              | Some fn' =>
                match rget fn' m1 with
                | None => add_object (set_unproc s2 (unproc s2 ++ [md])) md
                | Some _ => None                                    (* cannot happen: the key was just deleted *)
                end
              end
            end
          end
    end
  end.

(* the same function before the repairs 3d2c96f + f6d4b31 (kept for the _old_refuted witnesses): the replaced module
   stays in rootobjects, only `first` leaves unprocessed_modules (ValueError when it is not there) *)
Definition add_unprocessed_module_old (s : state) (md : id) : option state :=
  match fullpath s md with
  | None => None
  | Some fn =>
    match rget fn (allobj s) with
    | None =>
      (* self.unprocessed_modules.append(mod); self.addObject(mod) *)
      add_object (set_unproc s (unproc s ++ [md])) md
    | Some first =>
      if negb (is_module (ocl (store s first))) then None            (* assert isinstance(first, Module) *)
      else
        (* _handleDuplicateModule(first, dup): C-modules win (never here); packages win; else the last wins *)
        if ocls_eqb (ocl (store s first)) CPackage && negb (ocls_eqb (ocl (store s md)) CPackage)
        then Some s
        else
          match remove_tree s first with                            (* self._remove(first) *)
          | None => None
          | Some m1 =>
            (* self.unprocessed_modules.remove(first): ValueError when absent *)
            if negb (existsb (N.eqb first) (unproc s)) then None
            else
              let s0 := set_unproc (set_allobj s m1) (remove1 first (unproc s)) in
              (* if first.parent is not None and first.parent.contents.get(first.name) is first:
                     del first.parent.contents[first.name] *)
              let s1 :=
                match oparent (store s first) with
                | None => s0
                | Some p =>
                  match cget (oname (store s first)) (ocont (store s p)) with
                  | Some x => if N.eqb x first
                              then set_store s0 (upd (store s) p (with_cont (store s p)
                                                     (cdel (oname (store s first)) (ocont (store s p)))))
                              else s0
                  | None => s0
                  end
                end in
              (* self._addUnprocessedModule(dup): the name must be free now *)
              match fullpath s1 md with
              | None => None
              | Some fn' =>
                match rget fn' m1 with
                | None => add_object (set_unproc s1 (unproc s1 ++ [md])) md
                | Some _ => None                                    (* would remove `first` twice: ValueError *)
                end
              end
          end
    end
  end.

(* ---- Documentable.reparent ---- *)
(* the statements after `self.parent = self.parentMod = new_parent; self.name = new_name`, as a function of the store
   st2 these two assignments produce *)
Definition reparent_tail (s : state) (o newparent : id) (newname : name) (oldp : id) (oldname : name) (m1 : registry)
           (st2 : id -> obj) : option state :=
  let s2 := mkState st2 (next s) m1 (roots s) (S (depthb s + depthb s)) (unproc s) in
  (* self._handle_reparenting_post() *)
  match readd_tree s2 o with
  | None => None
  | Some m2 =>
    (* del old_parent.contents[old_name] *)
    match adel_strict name_eqb oldname (ocont (st2 oldp)) with
    | None => None
    | Some c3 =>
      let st3 := upd st2 oldp (with_cont (st2 oldp) c3) in
      (* old_parent._localNameToFullName_map[old_name] = self.fullName() *)
      match fullpath_f (depthb s2) st3 o with
      | None => None
      | Some fno =>
        let st4 := upd st3 oldp (with_alias (st3 oldp) (aset name_eqb oldname fno (oalias (st3 oldp)))) in
        (* new_parent.contents[new_name] = self *)
        let st5 := upd st4 newparent (with_cont (st4 newparent) (cset newname o (ocont (st4 newparent)))) in
        let s5 := mkState st5 (next s) m2 (roots s) (depthb s2) (unproc s) in
        (* self._handle_reparenting_post() *)
        match readd_tree s5 o with
        | None => None
        | Some m3 => Some (set_allobj s5 m3)
        end
      end
    end
  end.

Definition reparent (s : state) (o newparent : id) (newname : name) : option state :=
  (* self._handle_reparenting_pre() *)
  match remove_tree s o with
  | None => None
  | Some m1 =>
    (* old_parent = self.parent; assert isinstance(old_parent, CanContainImportsDocumentable) *)
    match oparent (store s o) with
    | None => None
    | Some oldp =>
      if negb (can_contain_imports (ocl (store s oldp))) then None
      else
        (* old_name = self.name; self.parent = self.parentMod = new_parent; self.name = new_name *)
        reparent_tail s o newparent newname oldp (oname (store s o)) m1
                      (upd (store s) o (with_name (with_parent (store s o) (Some newparent)) newname))
    end
  end.

(* ---- defaultPostProcess: subclasses ----
   for cls in system.objectsOfType(Class):  for b in cls.baseobjects:  if b is not None: b.subclasses.append(cls) *)
Definition add_subclass (st : id -> obj) (c : id) (b : option id) : id -> obj :=
  match b with
  | None => st
  | Some b' => upd st b' (with_subs (st b') (osubs (st b') ++ [c]))
  end.
Definition post_class (st : id -> obj) (c : id) : id -> obj :=
  if ocls_eqb (ocl (st c)) CClass then fold_left (fun st' b => add_subclass st' c b) (obases (st c)) st else st.
Definition post_process (s : state) : state :=
  set_store s (fold_left post_class (map snd (allobj s)) (store s)).

(* ---- the hierarchy that model.compute_mro hands to mro.mro (Model/Mro.v) ----
   getbases(c) = list(localbases(c)): for b, name in zip(baseobjects, bases): b if it is a Class else the name.
   cid x is the Mro model's name of object x, ext c k the name of the k-th base of c when it is not resolved. *)
Fixpoint localbases (cid : id -> cls) (ext : id -> nat -> cls) (c : id) (k : nat) (bs : list (option id)) : list cls :=
  match bs with
  | [] => []
  | Some b :: t => cid b :: localbases cid ext c (S k) t
  | None :: t => ext c k :: localbases cid ext c (S k) t
  end.
Fixpoint ids_below (n : nat) : list id :=
  match n with O => [] | S m => ids_below m ++ [N.of_nat m] end.
(* one entry per class object *)
Definition hier_of (cid : id -> cls) (ext : id -> nat -> cls) (s : state) : hier :=
  map (fun c => (cid c, localbases cid ext c 0 (obases (store s c))))
      (filter (fun c => ocls_eqb (ocl (store s c)) CClass) (ids_below (N.to_nat (next s)))).

(* ---- operations ---- *)
Inductive op :=
| AddModule (pkg : bool) (n : name) (parent : option id)     (* Module/Package(system, n, parent); _addUnprocessedModule *)
| AddChild (c : ocls) (n : name) (parent : id) (k : N)        (* _push / addAttribute: construct; addObject *)
| Reparent (o newparent : id) (newname : name)
| SetBases (c : id) (bs : list (option id))
| PostProcess.

Definition step (s : state) (o : op) : option state :=
  match o with
  | AddModule pkg n parent =>
    let (s1, md) := alloc s (if pkg then CPackage else CModule) n parent 0 in
    add_unprocessed_module s1 md
  | AddChild c n parent k =>
    if is_module c then None
    else let (s1, ob) := alloc s c n (Some parent) k in add_object s1 ob
  | Reparent o np nn => reparent s o np nn
  | SetBases c bs => Some (set_store s (upd (store s) c (with_bases (store s c) bs)))
  | PostProcess => Some (post_process s)
  end.

(* ---- Documentable.url : the file a page object is written to ----
   'index.html' if list(system.root_names) == [page_obj.fullName()] else quote(fullName) + '.html'.
   File names are modelled as paths; the name `index` is the reserved symbol sym_index. *)
Definition sym_index : N := 100.
Definition sym_moduleIndex : N := 101.
Definition sym_classIndex : N := 102.
Definition sym_nameIndex : N := 103.
Definition sym_undoccedSummary : N := 104.
Definition sym_all_documents : N := 105.
Definition file_index : path := [(sym_index, [])].

Fixpoint pmem (p : path) (l : list path) : bool :=
  match l with [] => false | x :: t => path_eqb x p || pmem p t end.
Fixpoint pdedup (l : list path) : list path :=
  match l with [] => [] | x :: t => if pmem x t then pdedup t else x :: pdedup t end.
Fixpoint somes {X} (l : list (option X)) : list X :=
  match l with [] => [] | Some x :: t => x :: somes t | None :: t => somes t end.
(* system.root_names as a duplicate-free list *)
Definition root_names (s : state) : list path := pdedup (somes (map (fullpath s) (roots s))).
Definition own_page (c : ocls) : bool := match c with CModule | CPackage | CClass => true | _ => false end.
Definition page_file (s : state) (o : id) : option path :=
  match fullpath s o with
  | None => None
  | Some p => match root_names s with
              | [r] => if path_eqb r p then Some file_index else Some p
              | _ => Some p
              end
  end.
(* the files of the summary pages (templatewriter.summary.summaryPages + search.AllDocuments) *)
Definition summary_files (s : state) : list path :=
  [[(sym_moduleIndex, [])]; [(sym_classIndex, [])]; [(sym_nameIndex, [])]; [(sym_undoccedSummary, [])];
   [(sym_all_documents, [])]] ++
  (if Nat.ltb 1 (length (root_names s)) then [file_index] else []).

(* ---- the guards under which the invariant is preserved (executable; Proofs/RegistryProofs.v shows that they
        imply the Prop guards of the theorems) ---- *)
Definition opt_id_eqb (a : option id) (b : id) : bool := match a with None => false | Some x => N.eqb x b end.
Definition registered (s : state) (o : id) : bool := existsb (fun e => N.eqb (snd e) o) (allobj s).
Definition mem_id (x : id) (l : list id) : bool := existsb (N.eqb x) l.
(* a is o or one of its ancestors *)
Fixpoint anc_f (fuel : nat) (st : id -> obj) (a o : id) : bool :=
  N.eqb a o ||
  match fuel with
  | O => false
  | S f => match oparent (st o) with None => false | Some q => anc_f f st a q end
  end.
Definition anc_b (s : state) (a o : id) : bool := anc_f (depthb s) (store s) a o.
(* the walk down `contents` from a reaches every registered object below a (no superseded duplicate below a) *)
Definition covered_b (s : state) (a : id) : bool :=
  match subtree s a with
  | None => false
  | Some T => forallb (fun e => if anc_b s a (snd e) then mem_id (snd e) T else true) (allobj s)
  end.
Definition reserved_root (n : name) : bool :=
  match snd n with
  | [] => N.eqb (fst n) sym_index || N.eqb (fst n) sym_moduleIndex || N.eqb (fst n) sym_classIndex ||
          N.eqb (fst n) sym_nameIndex || N.eqb (fst n) sym_undoccedSummary || N.eqb (fst n) sym_all_documents
  | _ => false
  end.
Definition child_key (s : state) (parent : option id) (n : name) : option path :=
  match parent with
  | None => Some [n]
  | Some q => match fullpath s q with None => None | Some p => Some (p ++ [n]) end
  end.

Definition guard_b (s : state) (o : op) : bool :=
  match o with
  | AddModule pkg n parent =>
    match parent with
    | None => negb (reserved_root n)
    | Some q => registered s q && ocls_eqb (ocl (store s q)) CPackage
    end &&
    match child_key s parent n with
    | None => false
    | Some fn =>
      match rget fn (allobj s) with
      | None => true                                                      (* a new name *)
      | Some first =>
        (* the package wins: nothing changes; or the last wins: nothing superseded may lie below the old module *)
        (ocls_eqb (ocl (store s first)) CPackage && negb pkg) ||
        (is_module (ocl (store s first)) && covered_b s first)
      end
    end
  | AddChild c n q k =>
    negb (is_module c) && registered s q && can_contain_imports (ocl (store s q)) &&
    match child_key s (Some q) n with
    | None => false
    | Some fn => match rget fn (allobj s) with
                 | None => true
                 | Some prev => covered_b s prev                          (* duplicate: nothing superseded below prev *)
                 end
    end
  | Reparent o np nn =>
    registered s o && registered s np && is_module (ocl (store s np)) &&
    match oparent (store s o) with
    | None => false
    | Some oldp => can_contain_imports (ocl (store s oldp)) &&
                   match cget (oname (store s o)) (ocont (store s oldp)) with
                   | Some x => N.eqb x o
                   | None => false
                   end
    end &&
    negb (anc_b s o np) &&
    match child_key s (Some np) nn with
    | None => false
    | Some k => negb (key_in k (allobj s))                               (* the target name is free *)
    end &&
    covered_b s o &&
    (if is_module (ocl (store s o)) then ocls_eqb (ocl (store s np)) CPackage else true)
  | SetBases c bs => true
  | PostProcess => true
  end.

Definition step_old (s : state) (o : op) : option state :=
  match o with
  | AddModule pkg n parent =>
    let (s1, md) := alloc s (if pkg then CPackage else CModule) n parent 0 in
    add_unprocessed_module_old s1 md
  | _ => step s o
  end.

(* run stops at the first failing operation; returns the last good state, the index of the failure and whether
   every executed operation satisfied its guard *)
Fixpoint run_ops (s : state) (ops : list op) (k : N) (g : bool) : state * option N * bool :=
  match ops with
  | [] => (s, None, g)
  | o :: t => match step s o with
              | None => (s, Some k, g && guard_b s o)
              | Some s' => run_ops s' t (N.succ k) (g && guard_b s o)
              end
  end.

(* ---- executable version of the invariant (used by the correspondence check to cross-validate the Python
        oracle against the Coq definition of Inv on every generated history) ---- *)
Fixpoint nodup_paths (l : list path) : bool :=
  match l with [] => true | x :: t => negb (pmem x t) && nodup_paths t end.
Definition method_like (k : N) : bool := N.eqb k K_METHOD || N.eqb k K_CLASS_METHOD || N.eqb k K_STATIC_METHOD.
Definition opt_path_eqb (a : option path) (b : path) : bool :=
  match a with None => false | Some p => path_eqb p b end.

Fixpoint nmem (n : name) (l : list name) : bool :=
  match l with [] => false | x :: t => name_eqb x n || nmem n t end.
Fixpoint nodup_names (l : list name) : bool :=
  match l with [] => true | x :: t => negb (nmem x t) && nodup_names t end.

Fixpoint nodup_ids (l : list id) : bool :=
  match l with [] => true | x :: t => negb (mem_id x t) && nodup_ids t end.

Definition check_entry (s : state) (e : path * id) : bool :=
  let (p, o) := e in
  let ob := store s o in
  opt_path_eqb (fullpath s o) p &&
  N.ltb o (next s) &&
  match oparent ob with
  | None => mem_id o (roots s)
  | Some q => registered s q &&
              (opt_id_eqb (cget (oname ob) (ocont (store s q))) o || osup ob) &&
              (if is_module (ocl ob) then ocls_eqb (ocl (store s q)) CPackage else true) &&
              (if ocls_eqb (ocl ob) CFunction && ocls_eqb (ocl (store s q)) CClass then method_like (okind ob)
               else true)
  end &&
  forallb (fun nc => registered s (snd nc) && opt_id_eqb (oparent (store s (snd nc))) o &&
                     name_eqb (oname (store s (snd nc))) (fst nc)) (ocont ob) &&
  (if can_contain_imports (ocl ob) then true else match ocont ob with [] => true | _ => false end) &&
  nodup_names (map fst (ocont ob)).

Definition inv_check (s : state) : bool :=
  nodup_paths (map fst (allobj s)) &&
  forallb (check_entry s) (allobj s) &&
  forallb (fun r => registered s r && match oparent (store s r) with None => true | Some _ => false end) (roots s) &&
  nodup_ids (roots s).

(* ---- wire ----
   input  := ( op ... )
     op   := ( 0 pkg name parent? ) | ( 1 cls name parent kind ) | ( 2 o newparent newname ) | ( 3 c ( base? ... ) ) | ( 4 )
     name := ( base ( i ... ) )       x? := () | ( x )       cls: 0 Module 1 Package 2 Class 3 Function 4 Attribute
   output := ( failed? allobjects objects roots pages inv guarded unprocessed mros )
     mros       := for id = 0 .. next-1: ( 0 c ... ) the linearisation (class x is 2x+2, the k-th unresolved base of
                   class c is 2(1024c+k)+1) | ( 1 ) ValueError | ( 2 ) out of fuel | () not a class
     allobjects := ( ( path id ) ... ) in dict order
     objects    := for id = 0 .. next-1: ( name parent? cls kind ( ( name id ) ... ) ( ( name path ) ... ) ( base? ... ) ( sub ... ) sup )
     pages      := for every allobjects entry: ( id file? )   (file of the page object the entry is documented on)
     inv        := inv_check of the final state ; guarded := every executed operation satisfied guard_b *)
Definition name_of_sexp (x : sexp) : name := (to_N (nth_s 0 x), map to_N (to_list (nth_s 1 x))).
Definition sexp_of_name (n : name) : sexp := L [of_N (fst n); L (map of_N (snd n))].
Definition sexp_of_path (p : path) : sexp := L (map sexp_of_name p).
Definition ocls_of_Z (z : Z) : ocls :=
  match z with 0%Z => CModule | 1%Z => CPackage | 2%Z => CClass | 3%Z => CFunction | _ => CAttribute end.
Definition Z_of_ocls (c : ocls) : Z :=
  match c with CModule => 0 | CPackage => 1 | CClass => 2 | CFunction => 3 | CAttribute => 4 end.

Definition op_of_sexp (x : sexp) : op :=
  match to_Z (nth_s 0 x) with
  | 0%Z => AddModule (to_bool (nth_s 1 x)) (name_of_sexp (nth_s 2 x)) (to_option to_N (nth_s 3 x))
  | 1%Z => AddChild (ocls_of_Z (to_Z (nth_s 1 x))) (name_of_sexp (nth_s 2 x)) (to_N (nth_s 3 x)) (to_N (nth_s 4 x))
  | 2%Z => Reparent (to_N (nth_s 1 x)) (to_N (nth_s 2 x)) (name_of_sexp (nth_s 3 x))
  | 3%Z => SetBases (to_N (nth_s 1 x)) (map (to_option to_N) (to_list (nth_s 2 x)))
  | _ => PostProcess
  end.

Definition sexp_of_obj (o : obj) : sexp :=
  L [sexp_of_name (oname o); of_option of_N (oparent o); A (Z_of_ocls (ocl o)); of_N (okind o);
     L (map (fun nc => L [sexp_of_name (fst nc); of_N (snd nc)]) (ocont o));
     L (map (fun na => L [sexp_of_name (fst na); sexp_of_path (snd na)]) (oalias o));
     L (map (of_option of_N) (obases o));
     L (map of_N (osubs o));
     of_bool (osup o)].

Definition page_of (s : state) (o : id) : option path :=
  if own_page (ocl (store s o)) then page_file s o
  else match oparent (store s o) with None => None | Some q => page_file s q end.

Definition wire_cid (x : id) : cls := 2 * x + 2.
Definition wire_ext (c : id) (k : nat) : cls := 2 * (1024 * c + N.of_nat k) + 1.
Definition dump (s : state) (failed : option N) (g : bool) : sexp :=
  L [of_option of_N failed;
     L (map (fun e => L [sexp_of_path (fst e); of_N (snd e)]) (allobj s));
     L (map (fun i => sexp_of_obj (store s i)) (ids_below (N.to_nat (next s))));
     L (map of_N (roots s));
     L (map (fun e => L [of_N (snd e); of_option sexp_of_path (page_of s (snd e))]) (allobj s));
     of_bool (inv_check s); of_bool g; L (map of_N (unproc s));
     L (map (fun i => if ocls_eqb (ocl (store s i)) CClass
                      then match mro (mro_fuel (hier_of wire_cid wire_ext s)) (hier_of wire_cid wire_ext s) (wire_cid i) with
                           | MOk l => L (A 0 :: map of_N l)
                           | MValueError => L [A 1]
                           | MOutOfFuel => L [A 2]
                           end
                      else L []) (ids_below (N.to_nat (next s))))].

Definition run (x : sexp) : sexp :=
  let ops := map op_of_sexp (to_list x) in
  match run_ops init ops 0 true with
  | (s, failed, g) => dump s failed g
  end.
