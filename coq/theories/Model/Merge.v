(* Model/Merge.v -- configargparse 1.7's contract, as pydoctor relies on it (third-party code: a stated
   oracle, DESIGN.md 5.C20; exercised end to end by the correspondence check).  Definitions only.

   ArgumentParser.parse_known_args, for a command line made of option tokens only
   (`--opt=value` or a bare flag; exact option strings, no abbreviations, no positionals, no `--`):

     for each config file, highest priority first (reversed(config_streams)):
        for key, value in parser.parse(stream).items():
            action = known_config_keys.get(key)
            discard = already_on_command_line(args, action.option_strings)     -- args as they are NOW
            if not discard: config_args += convert_item_to_command_line_arg(action, key, value)
        args = config_args + args                                              -- before the first optional
     argparse.ArgumentParser.parse_known_args(args)

   convert_item_to_command_line_arg:
     flag classes (store_true / store_false / count): value must be a str;
        lower() in true/yes/on/1  -> [option_strings[-1]]
        lower() in false/no/off/0 -> []
        count: [option_strings[0]] * int(value)
        else: parser.error  (exit 2)
     list value: append action -> one "opt=elem" per element; other actions -> parser.error
     str value:  "opt=value"          with opt = option_strings[-1]
   argparse: tokens are applied left to right: store = last wins (type=int and choices checked),
   append accumulates on a copy of the default, count increments, store_true/false set the constant,
   help/version print and exit 0, an explicit value on a flag is an error (exit 2). *)
From Coq Require Import ZArith NArith List Bool.
From PydoctorVerif Require Import Base.Sexp Model.OptTypes Model.IniValue Model.TomlValue.
Import ListNotations.
Local Open Scope N_scope.

Record tok : Type := { t_name : text; t_val : option text }.

Inductive nsval : Type :=
| NNone
| NStr (t : text)
| NInt (z : Z)
| NBool (b : bool)
| NList (l : list text)
| NSentinel (n : N).

Definition namespace := list (text * nsval).

Inductive mres : Type :=
| MOk (ns : namespace)
| MExit (code : N)          (* SystemExit: 0 help/version, 2 parser.error *)
| MRaise                    (* an uncaught Python exception (int() of a count value, the isinstance assert) *)
| MUnsup.

(* ---- helpers *)
Definition ascii_lower (c : N) : N := if (65 <=? c) && (c <=? 90) then c + 32 else c.
Definition lower (t : text) : text := map ascii_lower t.
Definition is_ascii (t : text) : bool := forallb (fun c => c <? 128) t.

Definition w_true : list text := [[116;114;117;101]; [121;101;115]; [111;110]; [49]].
Definition w_false : list text := [[102;97;108;115;101]; [110;111]; [111;102;102]; [48]].

Fixpoint digits_val (s : text) (acc : N) : option N :=
  match s with
  | [] => Some acc
  | c :: r => if (48 <=? c) && (c <=? 57) then digits_val r (10 * acc + (c - 48)) else None
  end.

(* int(str) for  [+-]?[0-9]+ ; None = ValueError; texts with '_' , blanks or non-ASCII are not decided *)
Inductive int_res : Type := IntOk (z : Z) | IntValueError | IntUnsup.
Definition weird_for_int (c : N) : bool :=
  (c =? 95) || (128 <=? c) || is_py_space c.
Definition py_int (s : text) : int_res :=
  if existsb weird_for_int s then IntUnsup
  else
    let (neg, ds) := match s with
                     | c :: r => if c =? 45 then (true, r) else if c =? 43 then (false, r) else (false, s)
                     | [] => (false, s)
                     end in
    match ds with
    | [] => IntValueError
    | _ => match digits_val ds 0 with
           | Some n => IntOk (if neg then Z.opp (Z.of_N n) else Z.of_N n)
           | None => IntValueError
           end
    end.

Definition find_by_string (table : list opt) (s : text) : option opt :=
  find (fun o => mem_text s (o_strings o)) table.

(* known_config_keys.get(key): a dict comprehension, so the LAST action that owns the key wins *)
Definition find_by_key (table : list opt) (k : text) : option opt :=
  find (fun o => mem_text k (o_keys o)) (rev table).

Definition last_string (o : opt) : text := last (o_strings o) [].
Definition first_string (o : opt) : text := hd [] (o_strings o).

Definition is_flag_kind (k : akind) : bool :=
  match k with KStoreTrue | KStoreFalse | KCount => true | _ => false end.

(* already_on_command_line(args, action.option_strings, '-') *)
Definition on_command_line (o : opt) (args : list tok) : bool :=
  existsb (fun t => mem_text (t_name t) (o_strings o)) args.

Inductive conv : Type :=
| CvOk (l : list tok)
| CvExit2
| CvRaise
| CvUnsup.

Definition flag_tok (name : text) : tok := {| t_name := name; t_val := None |}.
Definition val_tok (name v : text) : tok := {| t_name := name; t_val := Some v |}.

Definition convert_item (o : opt) (v : cval) : conv :=
  if is_flag_kind (o_kind o) then
    match v with
    | VList _ => CvRaise                                    (* assert isinstance(value, str) *)
    | VStr s =>
        if negb (is_ascii s) then CvUnsup                    (* str.lower() beyond ASCII is not modelled *)
        else if mem_text (lower s) w_true then CvOk [flag_tok (last_string o)]
        else if mem_text (lower s) w_false then CvOk []
        else
          match o_kind o with
          | KCount =>
              match py_int s with
              | IntOk z => CvOk (repeat (flag_tok (first_string o)) (Z.to_nat z))
              | IntValueError => CvRaise
              | IntUnsup => CvUnsup
              end
          | _ => CvExit2
          end
    end
  else
    match v with
    | VList l =>
        match o_kind o with
        | KAppend => CvOk (map (val_tok (last_string o)) l)
        | _ => CvExit2
        end
    | VStr s => CvOk [val_tok (last_string o) s]
    end.

(* one config file: the tokens it contributes, given the args accumulated so far *)
Fixpoint file_tokens (table : list opt) (items : list (text * cval)) (args : list tok) : conv :=
  match items with
  | [] => CvOk []
  | (k, v) :: r =>
      match find_by_key table k with
      | None =>
          (* unknown key, ignore_unknown_config_file_keys=False: becomes --key=value (or is dropped when
             that spelling is on the command line); only reachable when ValidatorParser is bypassed *)
          let name := 45 :: 45 :: k in
          let here :=
              if existsb (fun t => text_eqb (t_name t) name) args then CvOk []
              else match v with
                   | VStr s => CvOk [val_tok name s]
                   | VList l => CvOk (map (val_tok name) l)
                   end in
          match here, file_tokens table r args with
          | CvOk a, CvOk b => CvOk (a ++ b)
          | CvOk _, e => e
          | e, _ => e
          end
      | Some o =>
          if on_command_line o args then file_tokens table r args
          else
            match convert_item o v with
            | CvOk a => match file_tokens table r args with
                        | CvOk b => CvOk (a ++ b)
                        | e => e
                        end
            | e => e
            end
      end
  end.

Fixpoint merge_files (table : list opt) (files : list (list (text * cval))) (args : list tok) : conv :=
  match files with
  | [] => CvOk args
  | f :: fs =>
      match file_tokens table f args with
      | CvOk cfg => merge_files table fs (cfg ++ args)
      | e => e
      end
  end.

(* ---- argparse *)
Definition default_ns (table : list opt) : namespace :=
  flat_map (fun o =>
    match o_default o with
    | DSuppress => []
    | DNone => [(o_dest o, NNone)]
    | DStr t => [(o_dest o, NStr t)]
    | DInt z => [(o_dest o, NInt z)]
    | DBool b => [(o_dest o, NBool b)]
    | DEmptyList => [(o_dest o, NList [])]
    | DSentinel n => [(o_dest o, NSentinel n)]
    end) table.

Definition ns_get (ns : namespace) (d : text) : nsval :=
  match lookup d ns with Some v => v | None => NNone end.

Inductive step : Type := StOk (ns : namespace) | StExit (code : N) | StUnsup.

Definition apply_tok (o : opt) (t : tok) (ns : namespace) : step :=
  match o_kind o, t_val t with
  | KStore, Some v =>
      match o_type o with
      | TyInt => match py_int v with
                 | IntOk z => StOk (dict_set (o_dest o) (NInt z) ns)
                 | IntValueError => StExit 2
                 | IntUnsup => StUnsup
                 end
      | TyStr =>
          match o_choices o with
          | [] => StOk (dict_set (o_dest o) (NStr v) ns)
          | ch => if mem_text v ch then StOk (dict_set (o_dest o) (NStr v) ns) else StExit 2
          end
      end
  | KAppend, Some v =>
      let old := match ns_get ns (o_dest o) with NList l => l | _ => [] end in
      StOk (dict_set (o_dest o) (NList (old ++ [v])) ns)
  | KStore, None => StUnsup                       (* "--opt value" spelling: not in the model's token language *)
  | KAppend, None => StUnsup
  | KStoreTrue, None => StOk (dict_set (o_dest o) (NBool true) ns)
  | KStoreFalse, None => StOk (dict_set (o_dest o) (NBool false) ns)
  | KCount, None =>
      let old := match ns_get ns (o_dest o) with NInt z => z | _ => 0%Z end in
      StOk (dict_set (o_dest o) (NInt (old + 1)%Z) ns)
  | KHelp, None => StExit 0
  | KVersion, None => StExit 0
  | _, Some _ => StExit 2                         (* ignored explicit argument *)
  end.

(* unknown option strings are collected (parse_known_args) and reported by parse_args at the end *)
Fixpoint argparse (table : list opt) (args : list tok) (ns : namespace) (extras : bool) : mres :=
  match args with
  | [] => if extras then MExit 2 else MOk ns     (* unrecognized arguments *)
  | t :: r =>
      match find_by_string table (t_name t) with
      | None => argparse table r ns true
      | Some o =>
          match apply_tok o t ns with
          | StOk ns' => argparse table r ns' extras
          | StExit c => MExit c
          | StUnsup => MUnsup
          end
      end
  end.

Definition parse_known_args (table : list opt) (files : list (list (text * cval))) (cli : list tok) : mres :=
  match merge_files table files cli with
  | CvOk args => argparse table args (default_ns table) false
  | CvExit2 => MExit 2
  | CvRaise => MRaise
  | CvUnsup => MUnsup
  end.
