(* Model/SitePinned.v -- the listing skeleton AS OBSERVED on the unchanged tree (hand-written; Gen/Listings.v is the
   regenerated one), used by the `_refuted` witnesses so that they stay valid when /repo is repaired; and small
   witness registries.  Definitions only. *)
From Coq Require Import NArith List Bool.
From PydoctorVerif Require Import Base.Sexp Model.SiteTable Model.Site.
Import ListNotations.

Definition lst (d : domain) (v s : bool) : listing := {| l_domain := d; l_visible := v; l_nospace := s |}.

Definition table_pinned : table := {|
  t_children := lst DContents true false; t_methods := lst DContents true false;
  t_pkg_children := lst DContents true false; t_pkg_init := lst DContents true false;
  t_pkg_methods := lst DContents true false; t_table_rows := lst DGiven true false;
  t_unmasked := lst DContents true false; t_sidebar_inherited := lst DInherited true false;
  t_sidebar_direct := lst DContents true false; t_modsummary_sub := lst DContents true false;
  t_modindex_roots := lst DRootobjects true false;      (* ModuleIndexPage.stuff: `if o.isVisible` since commit 989b1ee *)
  t_index_roots := lst DRootobjects true false;         (* IndexPage.roots: `if not o.isVisible: continue` since 989b1ee *)
  t_rootclasses := lst DAllobjects true true; t_subclasses_from := lst DSubclasses true true;
  t_nameindex := lst DAllobjects true false; t_undocced := lst DAllobjects true false;
  t_alldocs := lst DAllobjects true false; t_corpus := lst DAllobjects true false;
  t_inventory := lst DContents true false; t_writer := lst DContents true false;
  t_assemble := lst DGiven true false; t_overriding := lst DSubclasses true false;
  t_taglink_drops_hidden := true;                       (* since commit fd84d91 *)
  t_css_private := true; t_sidebar_private := true; t_modsummary_private := true; t_search_privacy := true;
  t_row_uses_css := true; t_child_uses_css := true |}.

(* linker.taglink before commit fd84d91: it only logged "don't link to ..." *)
Definition table_before_fd84d91 : table := {|
  t_children := t_children table_pinned; t_methods := t_methods table_pinned;
  t_pkg_children := t_pkg_children table_pinned; t_pkg_init := t_pkg_init table_pinned;
  t_pkg_methods := t_pkg_methods table_pinned; t_table_rows := t_table_rows table_pinned;
  t_unmasked := t_unmasked table_pinned; t_sidebar_inherited := t_sidebar_inherited table_pinned;
  t_sidebar_direct := t_sidebar_direct table_pinned; t_modsummary_sub := t_modsummary_sub table_pinned;
  t_modindex_roots := t_modindex_roots table_pinned; t_index_roots := t_index_roots table_pinned;
  t_rootclasses := t_rootclasses table_pinned; t_subclasses_from := t_subclasses_from table_pinned;
  t_nameindex := t_nameindex table_pinned; t_undocced := t_undocced table_pinned;
  t_alldocs := t_alldocs table_pinned; t_corpus := t_corpus table_pinned;
  t_inventory := t_inventory table_pinned; t_writer := t_writer table_pinned;
  t_assemble := t_assemble table_pinned; t_overriding := t_overriding table_pinned;
  t_taglink_drops_hidden := false;
  t_css_private := true; t_sidebar_private := true; t_modsummary_private := true; t_search_privacy := true;
  t_row_uses_css := true; t_child_uses_css := true |}.

(* summary.ModuleIndexPage.stuff / IndexPage.roots before commit 989b1ee: system.rootobjects without an isVisible test *)
Definition table_before_989b1ee : table := {|
  t_children := t_children table_pinned; t_methods := t_methods table_pinned;
  t_pkg_children := t_pkg_children table_pinned; t_pkg_init := t_pkg_init table_pinned;
  t_pkg_methods := t_pkg_methods table_pinned; t_table_rows := t_table_rows table_pinned;
  t_unmasked := t_unmasked table_pinned; t_sidebar_inherited := t_sidebar_inherited table_pinned;
  t_sidebar_direct := t_sidebar_direct table_pinned; t_modsummary_sub := t_modsummary_sub table_pinned;
  t_modindex_roots := lst DRootobjects false false; t_index_roots := lst DRootobjects false false;
  t_rootclasses := t_rootclasses table_pinned; t_subclasses_from := t_subclasses_from table_pinned;
  t_nameindex := t_nameindex table_pinned; t_undocced := t_undocced table_pinned;
  t_alldocs := t_alldocs table_pinned; t_corpus := t_corpus table_pinned;
  t_inventory := t_inventory table_pinned; t_writer := t_writer table_pinned;
  t_assemble := t_assemble table_pinned; t_overriding := t_overriding table_pinned;
  t_taglink_drops_hidden := true;
  t_css_private := true; t_sidebar_private := true; t_modsummary_private := true; t_search_privacy := true;
  t_row_uses_css := true; t_child_uses_css := true |}.

Definition mkobj (name : text) (parent : option nat) (contents : list nat) (k : okind) (p : privacy)
           (mro subs : list nat) (bases : list (option nat)) (m : option nat) : obj :=
  {| o_name := name; o_parent := parent; o_contents := contents; o_kind := k; o_priv := p; o_doc := true;
     o_mro := mro; o_subclasses := subs; o_bases := bases; o_docsource := None; o_xrefs := []; o_sum_xrefs := [];
     o_linker_page := None; o_module := m |}.

(* an object whose rendered docstring comes from `src` and cross-references `xr` *)
Definition with_doc (o : obj) (src : nat) (xr : list nat) : obj :=
  {| o_name := o_name o; o_parent := o_parent o; o_contents := o_contents o; o_kind := o_kind o; o_priv := o_priv o;
     o_doc := o_doc o; o_mro := o_mro o; o_subclasses := o_subclasses o; o_bases := o_bases o;
     o_docsource := Some src; o_xrefs := xr; o_sum_xrefs := xr; o_linker_page := o_linker_page o; o_module := o_module o |}.

(* m.py:  def f(): ...  def f(): ...   -- the first `f` lives on in allobjects as "m.f 0" *)
Definition w_dup : registry := {|
  r_objs := [ mkobj [109%N] None [1] KModule PUBLIC [] [] [] (Some 0);
              mkobj [102%N] (Some 0) [] KFunction PUBLIC [] [] [] (Some 0);
              mkobj [102%N; 32%N; 48%N] (Some 0) [] KFunction PUBLIC [] [] [] (Some 0) ];
  r_roots := [0]; r_all := [0; 2; 1]; r_root_names := [[109%N]] |}.

(* m.py:  class H: ...   class V(H): ...      with --privacy HIDDEN:m.H *)
Definition w_hidden_base : registry := {|
  r_objs := [ mkobj [109%N] None [1; 2] KModule PUBLIC [] [] [] (Some 0);
              mkobj [72%N] (Some 0) [] KClass HIDDEN [1] [2] [] (Some 0);
              mkobj [86%N] (Some 0) [] KClass PUBLIC [2; 1] [] [Some 1] (Some 0) ];
  r_roots := [0]; r_all := [0; 1; 2]; r_root_names := [[109%N]] |}.

(* a.py, b.py   with --privacy HIDDEN:b *)
Definition w_hidden_root : registry := {|
  r_objs := [ mkobj [97%N] None [] KModule PUBLIC [] [] [] (Some 0);
              mkobj [98%N] None [] KModule HIDDEN [] [] [] (Some 1) ];
  r_roots := [0; 1]; r_all := [0; 1]; r_root_names := [[97%N]; [98%N]] |}.

(* m.py:  class e-acute: ... *)
Definition w_non_ascii : registry := {|
  r_objs := [ mkobj [109%N] None [1] KModule PUBLIC [] [] [] (Some 0);
              mkobj [233%N] (Some 0) [] KClass PUBLIC [1] [] [] (Some 0) ];
  r_roots := [0]; r_all := [0; 1]; r_root_names := [[109%N]] |}.

(* pkg with a private method, a hidden function and a nested class: used by the non-vacuity examples *)
Definition w_example : registry := {|
  r_objs := [ mkobj [112%N] None [1; 4] KPackage PUBLIC [] [] [] (Some 0);                 (* 0 p   *)
              mkobj [67%N] (Some 0) [2; 3] KClass PUBLIC [1] [] [] (Some 0);               (* 1 p.C *)
              mkobj [95%N; 109%N] (Some 1) [] KFunction PRIVATE [] [] [] (Some 0);         (* 2 p.C._m *)
              mkobj [104%N] (Some 1) [] KFunction HIDDEN [] [] [] (Some 0);                (* 3 p.C.h *)
              mkobj [115%N] (Some 0) [5] KModule PRIVATE [] [] [] (Some 4);                (* 4 p.s *)
              with_doc (mkobj [102%N] (Some 4) [] KFunction PUBLIC [] [] [] (Some 4)) 5 [1; 3; 2] ]; (* 5 p.s.f  L{C}, L{C.h}, L{C._m} *)
  r_roots := [0]; r_all := [0; 1; 2; 3; 4; 5]; r_root_names := [[112%N]] |}.

(* m.py:  class Base: def target(self) ; def meth(self): """L{target}"""     class Sub(Base): def meth(self): pass *)
Definition w_inherit : registry := {|
  r_objs := [ mkobj [109%N] None [1; 4] KModule PUBLIC [] [] [] (Some 0);                                  (* 0 m *)
              mkobj [66%N] (Some 0) [2; 3] KClass PUBLIC [1] [4] [] (Some 0);                              (* 1 m.B *)
              mkobj [116%N] (Some 1) [] KFunction PUBLIC [] [] [] (Some 0);                                (* 2 m.B.t *)
              with_doc (mkobj [120%N] (Some 1) [] KFunction PUBLIC [] [] [] (Some 0)) 3 [2];               (* 3 m.B.x  L{t} *)
              mkobj [83%N] (Some 0) [5] KClass PUBLIC [4; 1] [] [Some 1] (Some 0);                         (* 4 m.S *)
              with_doc (mkobj [120%N] (Some 4) [] KFunction PUBLIC [] [] [] (Some 0)) 3 [2] ];             (* 5 m.S.x  inherits *)
  r_roots := [0]; r_all := [0; 1; 2; 3; 4; 5]; r_root_names := [[109%N]] |}.

(* m.py: class B: ...  class C(B): ...  class B: ...   -- C's base is the FIRST B, which lives on as "m.B 0" *)
Definition w_dup_base : registry := {|
  r_objs := [ mkobj [109%N] None [1; 2] KModule PUBLIC [] [] [] (Some 0);                              (* 0 m *)
              mkobj [67%N] (Some 0) [] KClass PUBLIC [1; 3] [] [Some 3] (Some 0);                      (* 1 m.C *)
              mkobj [66%N] (Some 0) [] KClass PUBLIC [2] [] [] (Some 0);                               (* 2 m.B *)
              mkobj [66%N; 32%N; 48%N] (Some 0) [] KClass PUBLIC [3] [1] [] (Some 0) ];                (* 3 m.B 0 *)
  r_roots := [0]; r_all := [0; 3; 1; 2]; r_root_names := [[109%N]] |}.

(* p/__init__.py, p/__main__.py   with --privacy HIDDEN:p.__main__ : System.privacyClass says HIDDEN *)
Definition w_main : registry := {|
  r_objs := [ mkobj [112%N] None [1] KPackage PUBLIC [] [] [] (Some 0);
              mkobj t_main (Some 0) [2] KModule HIDDEN [] [] [] (Some 1);
              mkobj [102%N] (Some 1) [] KFunction PUBLIC [] [] [] (Some 1) ];
  r_roots := [0]; r_all := [0; 1; 2]; r_root_names := [[112%N]] |}.
