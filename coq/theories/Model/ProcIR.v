(* Model/ProcIR.v -- a small deep-embedded statement language, large enough for the bodies of
   pydoctor/model.py : System.processModule / getProcessedModule / process, and its interpreter over the
   state of Model/Proc.v.  Gen/ProcCode.v (written by harness/gen/gen_c01_code.py on every run, fail-closed)
   holds the bodies translated statement by statement from the CURRENT source; Proofs/ProcIRProofs.v proves
   that interpreting them is Model/Proc.v (the machine C01_process_total is about).  Definitions only.

   Primitive (not translated; their modelled effect is the stated assumption):
     builder.parseString / parseFile      yields an AST object, or None after reporting the module (parse_ok = false)
     builder.processModuleAST(ast, mod)   performs the getProcessedModule(target) calls listed in `imports`, in order
     self._introspectThing(...)           no effect on the modelled state (C extension modules import nothing)
     self.msg / self.progress / self.defaultBuilder(self) / self.postProcess()   no effect on the modelled state
     self.allobjects.get(modname)         None | a Module | some other object *)
From Coq Require Import ZArith NArith List Bool.
From PydoctorVerif Require Import Base.Sexp Model.Proc.
Import ListNotations.

(* what the real Module object carries beyond Model/Proc.v's modinfo *)
Record modinfo' := {
  is_c : bool;            (* mod._is_c_module *)
  has_path : bool;        (* mod.source_path is not None *)
  has_string : bool;      (* mod._py_string is not None *)
  parse_ok' : bool;
  imports' : list N
}.
Definition project' := list (N * modinfo').

(* a C extension module is never parsed and imports nothing: for Model/Proc.v it is a parseable module without imports *)
Definition erase_info (i : modinfo') : modinfo :=
  if is_c i then {| parse_ok := true; imports := [] |}
  else {| parse_ok := parse_ok' i; imports := imports' i |}.
Definition erase (p : project') : project := map (fun ki => (fst ki, erase_info (snd ki))) p.

Fixpoint lookup' (p : project') (m : N) : option modinfo' :=
  match p with
  | [] => None
  | (k, i) :: p' => if N.eqb k m then Some i else lookup' p' m
  end.

(* the two calls a parameterless `lambda:` may wrap *)
Inductive prim := TIntrospect | TProcessAST.
Inductive value := VBool (b : bool) | VNone | VObj | VName (n : N) | VMod | VOther | VThunk (t : prim).
Definition var := N.

Inductive expr :=
| EConst (v : value)
| EVar (x : var)
| EIsC | ESourcePath | EPyString            (* mod._is_c_module, mod.source_path, mod._py_string *)
| EStateIs (s : pstate)                     (* mod.state is ProcessingState.S *)
| EStateIn (l : list pstate)                (* mod.state in (A, B) *)
| EInUnproc                                 (* mod in self.unprocessed_modules *)
| EIsNone (e : expr) | EIsNotNone (e : expr)
| ENot (e : expr) | EAnd (a b : expr) | EOr (a b : expr)
| EEqModName (e : expr)                     (* e == mod.fullName() *)
| EIsModule (e : expr).                     (* isinstance(e, Module) *)

Inductive stmt :=
| SSkip
| SSeq (a b : stmt)
| SAssign (x : var) (e : expr)
| SAssignLookup (x : var)                   (* x = self.allobjects.get(modname) *)
| SAssignBuilder (x : var)                  (* x = self.defaultBuilder(self) *)
| SAssignParse (x : var)                    (* x = builder.parseString(...) | builder.parseFile(...) *)
| SAssignPop (x : var)                      (* x = self.processing_modules.pop() *)
| SAssert (e : expr)
| SIf (e : expr) (a b : stmt)
| SSetState (ps : pstate)                   (* mod.state = ProcessingState.PS *)
| SRemoveUnproc                             (* self.unprocessed_modules.remove(mod) *)
| SPush                                     (* self.processing_modules.append(mod.fullName()) *)
| SIntrospect                               (* self._introspectThing(mod._py_mod, mod, mod) *)
| SProcessAST                               (* builder.processModuleAST(ast, mod) *)
| SCallPM                                   (* self.processModule(mod) *)
| SCallVar (x : var)                        (* x()  where x holds `lambda: <introspect | processModuleAST>` *)
| SReturn.

Definition env := var -> value.
Definition env0 : env := fun _ => VNone.
Definition setv (e : env) (x : var) (v : value) : env := fun y => if N.eqb x y then v else e y.

Definition truthy (v : value) : bool :=
  match v with VBool b => b | VNone => false | _ => true end.
Definition is_none (v : value) : bool := match v with VNone => true | _ => false end.

Fixpoint mem_state (x : pstate) (l : list pstate) : bool :=
  match l with [] => false | y :: l' => pstate_eqb x y || mem_state x l' end.

Inductive xres :=
| XGo (s : state) (e : env)        (* fell through *)
| XRet (s : state)                 (* return *)
| XBad (o : outcome).              (* assertion failed / IndexError on pop / callee failed / out of fuel *)

Section Exec.
  Variable m : N.                              (* the module the body is about: `mod`, or the one named `modname` *)
  Variable info : option modinfo'.             (* its record, None when `modname` names no module of the project *)
  Variable other : bool.                       (* `modname` names an object that is not a module *)
  Variable call_pm : state -> outcome.         (* self.processModule(mod) *)
  Variable process_ast : state -> outcome.     (* builder.processModuleAST(ast, mod) *)

  Definition fld (f : modinfo' -> bool) : bool := match info with Some i => f i | None => false end.

  Fixpoint eval (s : state) (en : env) (e : expr) : value :=
    match e with
    | EConst v => v
    | EVar x => en x
    | EIsC => VBool (fld is_c)
    | ESourcePath => if fld has_path then VObj else VNone
    | EPyString => if fld has_string then VObj else VNone
    | EStateIs ps => VBool (pstate_eqb (st s m) ps)
    | EStateIn l => VBool (mem_state (st s m) l)
    | EInUnproc => VBool (mem m (unproc s))
    | EIsNone a => VBool (is_none (eval s en a))
    | EIsNotNone a => VBool (negb (is_none (eval s en a)))
    | ENot a => VBool (negb (truthy (eval s en a)))
    | EAnd a b => let va := eval s en a in if truthy va then eval s en b else va
    | EOr a b => let va := eval s en a in if truthy va then va else eval s en b
    | EEqModName a => VBool (match eval s en a with VName n => N.eqb n m | _ => false end)
    | EIsModule a => VBool (match eval s en a with VMod => true | _ => false end)
    end.

  Definition lift (o : outcome) (en : env) : xres :=
    match o with Ok s' => XGo s' en | bad => XBad bad end.

  Fixpoint exec (c : stmt) (s : state) (en : env) : xres :=
    match c with
    | SSkip => XGo s en
    | SSeq a b =>
        match exec a s en with
        | XGo s1 e1 => exec b s1 e1
        | r => r
        end
    | SAssign x e => XGo s (setv en x (eval s en e))
    | SAssignLookup x =>
        XGo s (setv en x (match info with Some _ => VMod | None => if other then VOther else VNone end))
    | SAssignBuilder x => XGo s (setv en x VObj)
    | SAssignParse x =>
        if fld parse_ok' then XGo s (setv en x VObj)
        else XGo {| st := st s; unproc := unproc s; stack := stack s;
                    reports := m :: reports s; trace := PReport m :: trace s |} (setv en x VNone)
    | SAssignPop x =>
        match stack s with
        | h :: rest => XGo {| st := st s; unproc := unproc s; stack := rest;
                              reports := reports s; trace := PLeave m :: trace s |} (setv en x (VName h))
        | [] => XBad (AssertFail 3)
        end
    | SAssert e => if truthy (eval s en e) then XGo s en else XBad (AssertFail 0)
    | SIf e a b => if truthy (eval s en e) then exec a s en else exec b s en
    | SSetState ps => XGo {| st := upd (st s) m ps; unproc := unproc s; stack := stack s;
                             reports := reports s; trace := trace s |} en
    | SRemoveUnproc =>
        if mem m (unproc s)
        then XGo {| st := st s; unproc := remove1 m (unproc s); stack := stack s;
                    reports := reports s; trace := trace s |} en
        else XBad (AssertFail 2)                    (* list.remove raises ValueError *)
    | SPush => XGo {| st := st s; unproc := unproc s; stack := m :: stack s;
                      reports := reports s; trace := PEnter m :: trace s |} en
    | SIntrospect => XGo s en
    | SProcessAST => lift (process_ast s) en
    | SCallPM => lift (call_pm s) en
    | SCallVar x =>
        match en x with
        | VThunk TIntrospect => XGo s en
        | VThunk TProcessAST => lift (process_ast s) en
        | _ => XBad (AssertFail 0)                  (* TypeError: object is not callable *)
        end
    | SReturn => XRet s
    end.

  Definition finish (r : xres) : outcome :=
    match r with XGo s _ => Ok s | XRet s => Ok s | XBad o => o end.
End Exec.

Record code := {
  c_process_module : stmt;        (* System.processModule(self, mod) *)
  c_get_processed_module : stmt;  (* System.getProcessedModule(self, modname) *)
  c_process_body : stmt           (* body of `while self.unprocessed_modules:` in System.process, after
                                     `mod = next(iter(self.unprocessed_modules))` *)
}.

Section Interp.
  Variable C : code.
  Variable p : project'.
  Variable other : N -> bool.

  Definition no_call (_ : state) : outcome := AssertFail 0.

  Fixpoint pm_ir (fuel : nat) (s : state) (m : N) : outcome :=
    match fuel with
    | O => OutOfFuel
    | S f =>
      match lookup' p m with
      | None => AssertFail 2
      | Some info =>
        let gpm := fun (s : state) (t : N) =>
          finish (exec t (lookup' p t) (other t) (fun s' => pm_ir f s' t) no_call
                       (c_get_processed_module C) s env0) in
        let walk :=
          (fix walk (ts : list N) (s : state) : outcome :=
             match ts with
             | [] => Ok s
             | t :: ts' => match gpm s t with Ok s' => walk ts' s' | bad => bad end
             end) in
        finish (exec m (Some info) false no_call (walk (imports' info)) (c_process_module C) s env0)
      end
    end.

  (* System.process: while self.unprocessed_modules: mod = next(iter(self.unprocessed_modules)); <body> *)
  Fixpoint process_ir (rounds fuel : nat) (s : state) : outcome :=
    match unproc s with
    | [] => Ok s
    | m :: _ =>
      match rounds with
      | O => OutOfFuel
      | S r =>
        match finish (exec m (lookup' p m) false (fun s' => pm_ir fuel s' m) no_call (c_process_body C) s env0) with
        | Ok s' => process_ir r fuel s'
        | bad => bad
        end
      end
    end.

  Definition run_project_ir (order : list N) : outcome :=
    process_ir (S (length order)) (S (length order)) (init_state order).
End Interp.

(* outcomes agree: same final state, or both out of fuel, or both a failed assertion / Python error *)
Definition same_outcome (a b : outcome) : Prop :=
  match a, b with
  | Ok s1, Ok s2 => s1 = s2
  | OutOfFuel, OutOfFuel => True
  | AssertFail _, AssertFail _ => True
  | _, _ => False
  end.
