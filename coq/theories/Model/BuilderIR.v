(* Model/BuilderIR.v -- a small deep-embedded expression/statement language, large enough for the bodies of
     pydoctor/astutils.py   : infer_type, _annotation_for_value, _annotation_for_elements
     pydoctor/model.py      : is_exception
     pydoctor/astbuilder.py : ModuleVistor._handleOldSchoolMethodDecoration
   and its interpreter.  Gen/BuilderCode.v (written by harness/gen/gen_c03_code.py on every run, fail-closed) holds those
   bodies translated statement by statement from the CURRENT source; Proofs/BuilderIRProofs.v proves that interpreting
   them is the hand-written model (Model/Infer.v, Model/Builder.v).  Definitions only.

   Primitive (not translated; their modelled meaning is the stated assumption):
     ast.literal_eval(expr)          yields the literal value of a literal expression, raises ValueError/TypeError otherwise
     type(v).__name__, isinstance(v, (dict, list, set, tuple)), iteration of a container / dict (keys) / dict.values()
                                     on the values literal_eval returns (Model/MiniPy.v `value`; Infer.type_name)
     ast.Name(id=..), ast.Tuple(elts=[..]), ast.Constant(value=...), ast.Subscript(value=.., slice=..): constructors of the
                                     annotation tree `past`; ast.Index(value=x) is x (Python >= 3.9);
                                     ast.fix_missing_locations / ast.copy_location only set positions: identity on `past`
     set(), s.add(x), len(s) on a set of str: a duplicate-free list.  Taking "the" element out of a set -- s.pop(),
                                     next(iter(s)), `x, = s`, list(s) / tuple(s) -- is given a meaning only for a ONE-element
                                     set (the order of a larger set is unspecified: the interpreter answers RError there, so
                                     code that depends on it does not prove)
     cls.mro(True, False)            a list whose entries are Class objects or str (unresolved base names): `mroent`
     x in <tuple of str>             membership by ==; a Class object equals no str
     self.builder.current.contents.get(target)   the documentable registered under that name in the class being walked: a
                                     Function (its kind is the one piece of state the code mutates), another object, or None
     expr.func, expr.args, x.id, isinstance(x, ast.Call/ast.Name) on the assigned expression: the tree `pexpr`
     calls between the translated functions (_annotation_for_value <-> _annotation_for_elements) are parameters of the
     interpreter, instantiated in the theorems with the model functions: each callee has its own obligation.

   Constructs with a stated meaning beyond the obvious ones:
     EIfExp c a b                    `a if c else b`: only the chosen branch is evaluated
     ELt a b / ELe a b               < and <= on int (> and >= are emitted with the operands swapped)
     EToList e                       list(e) / tuple(e) of a list, or of a one-element set
     SCall x body                    x = helper(...): a call of a same-module function / same-class method that is not one of
                                     the primitives above is INLINED by the translator: the callee's parameters and locals
                                     are numbered apart from the caller's, the parameters are assigned from the (pure)
                                     argument expressions just before, and `body` is the callee's body.  SCall runs it; the
                                     value it returns (None when it falls off the end) is bound to x; the callee's locals
                                     are dropped; an assertion failure / error propagates; the kind of the Function object
                                     (the one piece of mutable state) is threaded through. *)
From Coq Require Import ZArith NArith List Bool.
From PydoctorVerif Require Import Base.Sexp Model.MiniPy Model.Infer Model.Builder.
Import ListNotations.

(* the annotation trees the code builds *)
Inductive past := PName (id : text) | PTuple (l : list past) | PEllipsis | PSubscript (v sl : past).
(* the assigned expression, as far as the code looks at it *)
Inductive pexpr := XCall (func : pexpr) (args : list pexpr) | XName (id : text) | XOther.
Inductive mroent := MClass | MStr (s : text).
Inductive tclass := TDict | TList | TSet | TTupleC | TAstName | TAstCall | TFunction.

Inductive ival : Type :=
| VNone | VBool (b : bool) | VInt (z : Z) | VStr (s : text) | VEllipsis
| VLit (v : value)                 (* an object ast.literal_eval returned *)
| VSeq (l : list value)            (* dict.values() of such an object *)
| VPast (a : past)
| VSet (l : list text)
| VExpr (e : pexpr)
| VList (l : list ival)
| VDict (l : list (text * ival))
| VKind (k : fkind)                (* model.DocumentableKind.FUNCTION / METHOD / CLASS_METHOD / STATIC_METHOD *)
| VFunRef                          (* the model.Function found in contents *)
| VOtherObj                        (* another Documentable *)
| VMro (e : mroent).

Definition var := nat.

Inductive iexpr : Type :=
| EConst (v : ival)
| EVar (x : var)
| EArg (i : nat)                                  (* the i-th parameter (self excluded) *)
| EIsNone (e : iexpr) | EIsNotNone (e : iexpr)
| ENot (e : iexpr) | EAnd (a b : iexpr) | EOr (a b : iexpr)
| EEq (a b : iexpr) | ENe (a b : iexpr)
| EInList (e : iexpr) (l : list iexpr)            (* e in [a, b, ..] / (a, b, ..) *)
| EInStrs (e : iexpr) (l : list text)             (* e in <module-level tuple of str, evaluated by the translator> *)
| ETypeName (e : iexpr)                           (* type(e).__name__ *)
| EIsInstance (e : iexpr) (cs : list tclass)
| ECallValue (e : iexpr)                          (* _annotation_for_value(e) *)
| ECallElems (e : iexpr)                          (* _annotation_for_elements(e) *)
| ELiteralEvalOk (e : iexpr)                      (* see STryLit *)
| EDictValues (e : iexpr)                         (* e.values() *)
| EMkName (e : iexpr) | EMkTuple (l : list iexpr) | EMkSubscript (v s : iexpr) | EMkEllipsis
| EAttrId (e : iexpr) | EAttrFunc (e : iexpr) | EAttrArgs (e : iexpr) | EAttrKind (e : iexpr)
| ELen (e : iexpr) | EIndex (e : iexpr) (i : Z) | EUnpack1 (e : iexpr)      (* x, = e *)
| ESetEmpty | ESetAdd (s x : iexpr) | ESetPop (s : iexpr)                   (* s.pop() / next(iter(s)) *)
| EToList (e : iexpr)                             (* list(e) / tuple(e) *)
| EIfExp (c a b : iexpr)                          (* a if c else b *)
| ELt (a b : iexpr) | ELe (a b : iexpr)
| EMro (e : iexpr)                                (* e.mro(True, False) *)
| EContentsGet (e : iexpr)                        (* self.builder.current.contents.get(e) *)
| EDictLit (l : list (text * iexpr)) | EDictGet (d k : iexpr)
| EAny (x : var) (it cond : iexpr).               (* any(cond for x in it) *)

Inductive istmt : Type :=
| SSkip
| SSeq (a b : istmt)
| SAssign (x : var) (e : iexpr)
| SIf (e : iexpr) (a b : istmt)
| SFor (x : var) (e : iexpr) (body : istmt)
| SReturn (e : iexpr)
| SAssert (e : iexpr)
| SSetKind (e v : iexpr)                          (* <e>.kind = v *)
| STryLit (x : var) (e : iexpr) (handler orelse : istmt)
      (* try: x = ast.literal_eval(e)  except (ValueError, TypeError): handler  else: orelse *)
| SCall (x : var) (body : istmt).                 (* x = <inlined helper>(...), see the header *)

Definition env := var -> option ival.
Definition env0 : env := fun _ => None.
Definition setv (en : env) (x : var) (v : ival) : env := fun y => if Nat.eqb x y then Some v else en y.

Definition truthy (v : ival) : bool :=
  match v with
  | VNone => false | VBool b => b | VInt z => negb (Z.eqb z 0)
  | VStr s => match s with [] => false | _ => true end
  | VSet l => match l with [] => false | _ => true end
  | VList l => match l with [] => false | _ => true end
  | VDict l => match l with [] => false | _ => true end
  | VSeq l => match l with [] => false | _ => true end
  | _ => true
  end.

Definition fkind_eqb (a b : fkind) : bool :=
  match a, b with
  | KFunction, KFunction | KMethod, KMethod | KClassMethod, KClassMethod | KStaticMethod, KStaticMethod => true
  | _, _ => false
  end.

(* == on the values these bodies compare *)
Definition veq (a b : ival) : bool :=
  match a, b with
  | VNone, VNone => true
  | VBool x, VBool y => Bool.eqb x y
  | VInt x, VInt y => Z.eqb x y
  | VStr x, VStr y => text_eqb x y
  | VKind x, VKind y => fkind_eqb x y
  | VMro (MStr x), VStr y => text_eqb x y
  | VStr y, VMro (MStr x) => text_eqb x y
  | _, _ => false
  end.

Definition class_of_value (v : value) : option tclass :=
  match v with LList _ => Some TList | LTuple _ => Some TTupleC | LSet _ => Some TSet | LDict _ _ => Some TDict | _ => None end.

Definition tclass_eqb (a b : tclass) : bool :=
  match a, b with
  | TDict, TDict | TList, TList | TSet, TSet | TTupleC, TTupleC | TAstName, TAstName | TAstCall, TAstCall
  | TFunction, TFunction => true
  | _, _ => false
  end.

Definition isinstance1 (v : ival) (c : tclass) : bool :=
  match v, c with
  | VLit l, _ => match class_of_value l with Some k => tclass_eqb k c | None => false end
  | VPast (PName _), TAstName => true
  | VExpr (XCall _ _), TAstCall => true
  | VExpr (XName _), TAstName => true
  | VFunRef, TFunction => true
  | _, _ => false
  end.

(* Python's None is one object: the literal value None is VNone *)
Definition ival_of_value (v : value) : ival := match v with LNone => VNone | _ => VLit v end.
Definition lit_of (v : ival) : option value := match v with VLit l => Some l | VNone => Some LNone | _ => None end.

Definition len_z {X} (l : list X) : Z := Z.of_nat (length l).
Arguments len_z : simpl never.

(* the elements `for x in <e>` yields *)
Definition seq_elems (v : ival) : option (list ival) :=
  match v with
  | VLit (LList l) | VLit (LTuple l) | VLit (LSet l) | VLit (LDict l _) | VSeq l => Some (map ival_of_value l)
  | VList l => Some l
  | VSet l => Some (map VStr l)
  | _ => None
  end.
Definition seq_values (v : ival) : option (list value) :=
  match v with
  | VLit (LList l) | VLit (LTuple l) | VLit (LSet l) | VLit (LDict l _) | VSeq l => Some l
  | _ => None
  end.

Definition set_add (l : list text) (x : text) : list text := if mem x l then l else l ++ [x].
Definition of_opt_past (o : option past) : ival := match o with Some a => VPast a | None => VNone end.

Fixpoint pasts_of (vs : list ival) : option (list past) :=
  match vs with
  | [] => Some []
  | VPast a :: r => match pasts_of r with Some ps => Some (a :: ps) | None => None end
  | _ :: _ => None
  end.

Fixpoint dict_get (l : list (text * ival)) (k : text) : ival :=
  match l with [] => VNone | (m, v) :: r => if text_eqb k m then v else dict_get r k end.

(* what running a statement yields; RError = a Python exception other than AssertionError, or a value of the wrong type *)
Inductive res :=
| RNormal (en : env) (hk : fkind)
| RReturn (v : ival) (hk : fkind)
| RAssertFail
| RError.

Section Interp.
  Variable args : list ival.
  Variable call_value : value -> option past.        (* _annotation_for_value *)
  Variable call_elems : list value -> option past.   (* _annotation_for_elements *)
  Variable literal_eval : pexpr -> option value.     (* ast.literal_eval: None = raises ValueError/TypeError *)
  Variable contents_get : text -> ival.              (* self.builder.current.contents.get *)
  Variable mro_of : list mroent.                     (* cls.mro(True, False) *)

  Section Eval.
    Variable hk : fkind.     (* the kind of the Function object VFunRef refers to *)

    Fixpoint eval (en : env) (e : iexpr) {struct e} : option ival :=
      let evals := fix evals (l : list iexpr) : option (list ival) :=
                     match l with
                     | [] => Some []
                     | x :: r => match eval en x, evals r with Some v, Some vs => Some (v :: vs) | _, _ => None end
                     end in
      match e with
      | EConst v => Some v
      | EVar x => en x
      | EArg i => nth_error args i
      | EIsNone a => match eval en a with Some VNone => Some (VBool true) | Some _ => Some (VBool false) | None => None end
      | EIsNotNone a => match eval en a with Some VNone => Some (VBool false) | Some _ => Some (VBool true) | None => None end
      | ENot a => match eval en a with Some v => Some (VBool (negb (truthy v))) | None => None end
      | EAnd a b => match eval en a with Some v => if truthy v then eval en b else Some v | None => None end
      | EOr a b => match eval en a with Some v => if truthy v then Some v else eval en b | None => None end
      | EEq a b => match eval en a, eval en b with Some x, Some y => Some (VBool (veq x y)) | _, _ => None end
      | ENe a b => match eval en a, eval en b with Some x, Some y => Some (VBool (negb (veq x y))) | _, _ => None end
      | EInList a l =>
          match eval en a, evals l with
          | Some x, Some vs => Some (VBool (existsb (fun y => veq x y) vs))
          | _, _ => None
          end
      | EInStrs a l =>
          match eval en a with
          | Some x => Some (VBool (existsb (fun s => veq x (VStr s)) l))
          | None => None
          end
      | ETypeName a => match eval en a with Some x => match lit_of x with Some v => Some (VStr (type_name v)) | None => None end | None => None end
      | EIsInstance a cs => match eval en a with Some v => Some (VBool (existsb (isinstance1 v) cs)) | None => None end
      | ECallValue a => match eval en a with Some x => match lit_of x with Some v => Some (of_opt_past (call_value v)) | None => None end | None => None end
      | ECallElems a =>
          match eval en a with
          | Some v => match seq_values v with Some l => Some (of_opt_past (call_elems l)) | None => None end
          | None => None
          end
      | ELiteralEvalOk _ => None
      | EDictValues a => match eval en a with Some (VLit (LDict _ vs)) => Some (VSeq vs) | _ => None end
      | EMkName a => match eval en a with Some (VStr s) => Some (VPast (PName s)) | _ => None end
      | EMkTuple l =>
          match evals l with
          | Some vs => match pasts_of vs with Some ps => Some (VPast (PTuple ps)) | None => None end
          | None => None
          end
      | EMkSubscript a b =>
          match eval en a, eval en b with Some (VPast x), Some (VPast y) => Some (VPast (PSubscript x y)) | _, _ => None end
      | EMkEllipsis => Some (VPast PEllipsis)
      | EAttrId a =>
          match eval en a with
          | Some (VPast (PName s)) => Some (VStr s)
          | Some (VExpr (XName s)) => Some (VStr s)
          | _ => None
          end
      | EAttrFunc a => match eval en a with Some (VExpr (XCall f _)) => Some (VExpr f) | _ => None end
      | EAttrArgs a => match eval en a with Some (VExpr (XCall _ l)) => Some (VList (map VExpr l)) | _ => None end
      | EAttrKind a => match eval en a with Some VFunRef => Some (VKind hk) | _ => None end
      | ELen a =>
          match eval en a with
          | Some (VSet l) => Some (VInt (len_z l))
          | Some (VList l) => Some (VInt (len_z l))
          | _ => None
          end
      | EIndex a i =>
          match eval en a with
          | Some (VList l) => if Z.ltb i 0 then None else nth_error l (Z.to_nat i)
          | _ => None
          end
      | EUnpack1 a => match eval en a with Some (VList [v]) => Some v | Some (VSet [t]) => Some (VStr t) | _ => None end
      | ESetEmpty => Some (VSet [])
      | ESetAdd s x => match eval en s, eval en x with Some (VSet l), Some (VStr t) => Some (VSet (set_add l t)) | _, _ => None end
      | ESetPop s => match eval en s with Some (VSet [t]) => Some (VStr t) | _ => None end
      | EToList a =>
          match eval en a with
          | Some (VList l) => Some (VList l)
          | Some (VSet []) => Some (VList [])
          | Some (VSet [t]) => Some (VList [VStr t])
          | _ => None
          end
      | EIfExp c a b => match eval en c with Some v => if truthy v then eval en a else eval en b | None => None end
      | ELt a b => match eval en a, eval en b with Some (VInt x), Some (VInt y) => Some (VBool (Z.ltb x y)) | _, _ => None end
      | ELe a b => match eval en a, eval en b with Some (VInt x), Some (VInt y) => Some (VBool (Z.leb x y)) | _, _ => None end
      | EMro _ => Some (VList (map VMro mro_of))
      | EContentsGet a => match eval en a with Some (VStr t) => Some (contents_get t) | _ => None end
      | EDictLit l =>
          match (fix go (l : list (text * iexpr)) : option (list (text * ival)) :=
                   match l with
                   | [] => Some []
                   | (k, x) :: r => match eval en x, go r with Some v, Some vs => Some ((k, v) :: vs) | _, _ => None end
                   end) l with
          | Some d => Some (VDict d)
          | None => None
          end
      | EDictGet d k => match eval en d, eval en k with Some (VDict l), Some (VStr t) => Some (dict_get l t) | _, _ => None end
      | EAny x it cond =>
          match eval en it with
          | Some v =>
              match seq_elems v with
              | Some l =>
                  (fix go (l : list ival) : option ival :=
                     match l with
                     | [] => Some (VBool false)
                     | y :: r => match eval (setv en x y) cond with
                                 | Some c => if truthy c then Some (VBool true) else go r
                                 | None => None
                                 end
                     end) l
              | None => None
              end
          | None => None
          end
      end.
  End Eval.

  (* for x in <list>: ... ; the list is evaluated once *)
  Fixpoint for_loop (body : env -> fkind -> res) (x : var) (l : list ival) (en : env) (hk : fkind) : res :=
    match l with
    | [] => RNormal en hk
    | v :: l' =>
        match body (setv en x v) hk with
        | RNormal en' hk' => for_loop body x l' en' hk'
        | r => r
        end
    end.

  Fixpoint exec (s : istmt) (en : env) (hk : fkind) {struct s} : res :=
    match s with
    | SSkip => RNormal en hk
    | SSeq a b => match exec a en hk with RNormal en' hk' => exec b en' hk' | r => r end
    | SAssign x e => match eval hk en e with Some v => RNormal (setv en x v) hk | None => RError end
    | SIf e a b =>
        match eval hk en e with
        | Some c => if truthy c then exec a en hk else exec b en hk
        | None => RError
        end
    | SFor x e body =>
        match eval hk en e with
        | Some v => match seq_elems v with Some l => for_loop (exec body) x l en hk | None => RError end
        | None => RError
        end
    | SReturn e => match eval hk en e with Some v => RReturn v hk | None => RError end
    | SAssert e => match eval hk en e with Some c => if truthy c then RNormal en hk else RAssertFail | None => RError end
    | SSetKind e v =>
        match eval hk en e, eval hk en v with
        | Some VFunRef, Some (VKind k) => RNormal en k
        | _, _ => RError
        end
    | STryLit x e handler orelse =>
        match eval hk en e with
        | Some (VExpr p) =>
            match literal_eval p with
            | Some v => exec orelse (setv en x (ival_of_value v)) hk
            | None => exec handler en hk
            end
        | _ => RError
        end
    | SCall x body =>
        match exec body en hk with
        | RNormal _ hk' => RNormal (setv en x VNone) hk'
        | RReturn v hk' => RNormal (setv en x v) hk'
        | r => r
        end
    end.

  (* a function body: falling off the end returns None *)
  Definition run_body (s : istmt) (hk : fkind) : res :=
    match exec s env0 hk with
    | RNormal _ k => RReturn VNone k
    | r => r
    end.
End Interp.

(* ---- the annotation trees of the model, as the trees the code builds ------------------------------------------------- *)
Definition past_of_annot (a : annot) : past :=
  match a with
  | AName n => PName n
  | ASub1 c e => PSubscript (PName c) (PName e)
  | ATupleOf e => PSubscript (PName t_tuple) (PTuple [PName e; PEllipsis])
  | ADict k v => PSubscript (PName t_dict) (PTuple [PName k; PName v])
  end.

Definition model_value (v : value) : option past := option_map past_of_annot (annotation_for_value v).
Definition model_elems (l : list value) : option past :=
  option_map PName (annotation_for_elements (map annotation_for_value l)).
(* infer_type on an expression: literal_eval, then the value's annotation *)
Definition model_infer (literal_eval : pexpr -> option value) (p : pexpr) : option past :=
  match literal_eval p with Some v => model_value v | None => None end.

