(* Model/LinesIRRun.v -- wire entry point for the interpretation of the TRANSLATED code (Gen/LinesCode.v): a third leg
   of the correspondence (real pydoctor / hand-written model / interpreted translation).  Definitions only.
   input := ( op args... )   same argument lists and result formats as Model/Lines.v `run` ops 3, 13 and 5:
     0 verbosity section ds ln off is_module description descr thresh      Documentable.report
     1 ( (line rawsource) ... )                                            get_lineno, node first then its ancestors
     2 verbosity section obj preexisting-names ( (descr stored-opt) ... )  reportErrors                              *)
From Coq Require Import ZArith NArith List Bool.
From PydoctorVerif Require Import Base.Sexp Spec.CleanDoc Model.Msg Model.Lines Model.LinesIR Gen.LinesCode.
Import ListNotations.
Local Open Scope Z_scope.

Definition apply_effect (v : Z) (sp : sys_state * parse_errors) (f : effect) : sys_state * parse_errors :=
  match f with
  | FxMsg c => (msg v (fst sp) c, snd sp)
  | FxAdd s n => (fst sp, pe_add s n (snd sp))
  end.

Definition stuck_marker : sexp := L [A (-998)].

Definition run (s : sexp) : sexp :=
  match to_Z (nth_s 0 s) with
  | 0 =>
    let o := {| o_description := to_text (nth_s 7 s); o_fullname := []; o_docstring_lineno := to_Z (nth_s 3 s);
                o_linenumber := to_Z (nth_s 4 s); o_is_module := to_bool (nth_s 6 s) |} in
    match effects_of (report_ir code_report o (to_text (nth_s 8 s)) (to_text (nth_s 2 s)) (to_Z (nth_s 5 s)) (to_Z (nth_s 9 s))) with
    | Some fx => L (state_sexp (fst (fold_left (apply_effect (to_Z (nth_s 1 s))) fx (init_state, []))))
    | None => stuck_marker
    end
  | 1 =>
    match map (fun p => {| n_line := to_Z (nth_s 0 p); n_raw := to_text (nth_s 1 p) |}) (to_list (nth_s 1 s)) with
    | node :: ancs =>
      match returned (get_lineno_ir code_get_lineno node ancs) with
      | Some (VInt z) => A z
      | _ => stuck_marker
      end
    | [] => bad_input
    end
  | 2 =>
    let section := to_text (nth_s 2 s) in
    let pe0 : parse_errors :=
      match to_list (nth_s 4 s) with [] => [] | names => [(section, map to_text names)] end in
    let errs := map (fun e => {| pe_descr := to_text (nth_s 0 e); pe_stored := to_optZ (nth_s 1 e) |})
                    (to_list (nth_s 5 s)) in
    match effects_of (report_errors_ir code_report_errors (obj_of_sexp (nth_s 3 s)) errs section pe0) with
    | Some fx =>
      let '(st, pe) := fold_left (apply_effect (to_Z (nth_s 1 s))) fx (init_state, pe0) in
      L (state_sexp st ++ [of_list of_text (pe_lookup section pe)])
    | None => stuck_marker
    end
  | _ => bad_input
  end.
