(* Model/ReDeriv.v -- the fragment of Python's `re` that pydoctor/_configparser.py uses for
   _QUOTED_STR_REGEX and _TRIPLE_QUOTED_STR_REGEX: literals, negated literals, character sets,
   `.`, alternation, grouping, `?`, `*`, `+`, and the anchors ^ (at the start) and $ (at the very end).
   The two patterns themselves are NOT written here: harness/gen/gen_c20.py translates the live
   compiled patterns (re._parser.parse) into `re` terms in Gen/TablesC20.v on every run.

   For a pattern without back-references, look-around or possessive operators the boolean result of
   `pattern.match(text)` with a trailing `$` is membership of `text` in the regular language of
   `R (\n)?` -- the translator turns the final `$` into that optional LF. Membership is decided with
   Brzozowski derivatives (total, structural). Definitions only. *)
From Coq Require Import NArith List Bool.
From PydoctorVerif Require Import Base.Sexp.
Import ListNotations.
Local Open Scope N_scope.

Inductive citem : Type :=
| ILit (c : N)
| IRange (lo hi : N).

Inductive cset : Type :=
| CAny                       (* `.` under re.DOTALL *)
| CAnyNoNl                   (* `.` without DOTALL: every character but LF *)
| CLit (c : N)
| CNotLit (c : N)
| CIn (neg : bool) (items : list citem).

Definition item_has (i : citem) (c : N) : bool :=
  match i with
  | ILit x => c =? x
  | IRange lo hi => (lo <=? c) && (c <=? hi)
  end.

Definition cset_has (cs : cset) (c : N) : bool :=
  match cs with
  | CAny => true
  | CAnyNoNl => negb (c =? 10)
  | CLit x => c =? x
  | CNotLit x => negb (c =? x)
  | CIn neg items => xorb neg (existsb (fun i => item_has i c) items)
  end.

Inductive re : Type :=
| Empty                      (* matches nothing *)
| Eps                        (* matches the empty text *)
| Chr (cs : cset)
| Seq (a b : re)
| Alt (a b : re)
| Star (a : re).

Definition Opt (r : re) : re := Alt Eps r.
Definition Plus (r : re) : re := Seq r (Star r).
Definition seq_of (l : list re) : re := fold_right Seq Eps l.
Definition alt_of (l : list re) : re := fold_right Alt Empty l.

Fixpoint nullable (r : re) : bool :=
  match r with
  | Empty => false
  | Eps => true
  | Chr _ => false
  | Seq a b => nullable a && nullable b
  | Alt a b => nullable a || nullable b
  | Star _ => true
  end.

(* smart constructors: keep derivatives small; they do not change the language *)
Definition mk_seq (a b : re) : re :=
  match a, b with
  | Empty, _ => Empty
  | _, Empty => Empty
  | Eps, _ => b
  | _, _ => Seq a b
  end.

Definition mk_alt (a b : re) : re :=
  match a, b with
  | Empty, _ => b
  | _, Empty => a
  | _, _ => Alt a b
  end.

Fixpoint deriv (c : N) (r : re) : re :=
  match r with
  | Empty => Empty
  | Eps => Empty
  | Chr cs => if cset_has cs c then Eps else Empty
  | Seq a b =>
      if nullable a then mk_alt (mk_seq (deriv c a) b) (deriv c b)
      else mk_seq (deriv c a) b
  | Alt a b => mk_alt (deriv c a) (deriv c b)
  | Star a => mk_seq (deriv c a) (Star a)
  end.

Fixpoint re_match (r : re) (s : text) : bool :=
  match s with
  | [] => nullable r
  | c :: s' => re_match (deriv c r) s'
  end.
