(* Model/Quote.v -- pydoctor/_configparser.py : is_quoted, unquote_str.  Definitions only.

   is_quoted(text, triple) = bool(_QUOTED_STR_REGEX.match(text)) or (triple and bool(_TRIPLE_QUOTED_STR_REGEX.match(text)))
   The two patterns are the terms quoted_re / triple_re that harness/gen/gen_c20.py translates from the
   live compiled patterns (Gen/TablesC20.v); Model/ReDeriv.v decides membership.

   simple_rec is the hand-written recogniser  q ( \\. | [^q\\] )* q  (with `.` not matching LF and `$`
   also matching before one final LF) of DESIGN.md 5.C20; Proofs/QuoteProofs.v proves that it decides
   exactly the generated _QUOTED_STR_REGEX (C20_quoted_regex_is_recogniser), so the theorems about
   quoting are stated over the regex that is in the source now.

   unquote_str: literal_eval(text) when is_quoted, any exception -> ValueError; else the text itself. *)
From Coq Require Import ZArith NArith List Bool.
From PydoctorVerif Require Import Base.Sexp Model.ReDeriv Model.OptTypes Gen.TablesC20 Spec.PyStrLit.
Import ListNotations.
Local Open Scope N_scope.

(* after the opening quote *)
Fixpoint scan_simple (q : N) (s : text) : bool :=
  match s with
  | [] => false
  | c :: r =>
      if c =? q then
        match r with
        | [] => true
        | [x] => x =? 10
        | _ => false
        end
      else if c =? 92 then
        match r with
        | [] => false
        | d :: r' => if d =? 10 then false else scan_simple q r'
        end
      else scan_simple q r
  end.

Definition simple_rec (q : N) (s : text) : bool :=
  match s with
  | [] => false
  | c :: r => (c =? q) && scan_simple q r
  end.

Definition is_quoted (s : text) (triple : bool) : bool :=
  re_match quoted_re s || (triple && re_match triple_re s).

Inductive unq : Type :=
| UOk (t : text)
| UValueError
| UUnsup.                 (* literal_eval not decided by Spec.PyStrLit: \N{...} *)

Definition unquote_str (s : text) (triple : bool) : unq :=
  if is_quoted s triple then
    match py_str_literal_eval s with
    | ROk t => UOk t
    | RErr => UValueError
    | RUnsup => UUnsup
    end
  else UOk s.
