(* Model/IniIR.v -- a small deep-embedded expression / statement language, large enough for the bodies of
   pydoctor/_configparser.py : is_quoted, unquote_str and the per-value part of IniConfigParser.parse, and its
   interpreter.  Gen/IniCode.v (written by harness/gen/gen_c20_code.py on every run, fail-closed) holds those
   bodies translated statement by statement from the CURRENT source; Proofs/IniIRProofs.v proves that interpreting
   them is the hand-written Model/Quote.v / Model/IniValue.v, for all inputs.  Definitions only.

   What is primitive (not translated), each a stated assumption about Python / the library:
     bool(R.match(s))            membership of s in the language of the regenerated pattern R (Model/ReDeriv.v)
     ast.literal_eval(s)         literal_eval_sem below: Spec.PyListLit for list displays, Spec.PyStrLit for string
                                 literals; raises on what those specs call an error; "not decided" otherwise
     s.startswith(c) s.endswith(c) c in s  s.strip/lstrip/rstrip(c)  s.split(c)   for a one-character constant c
     [i for i in l if i]  [str(i) for i in l]  isinstance(x, list|str)  not / and / or / bool / conditional expression
     exception messages (f-strings, str(e), concatenations) are not translated: EMessage, an unspecified text
     `raise X(...) from e` raises an exception of class X; `except` matches by class (catches)
     functools.lru_cache on is_quoted is transparent (the function is pure)
   Before translating, the translator normalises the Python AST (meaning kept; see its docstring): helper functions of
   the same module / class that are called as a whole right-hand side, returned value or comprehension iterable are
   inlined (parameters substituted or bound to fresh locals, `return` in tail positions -> assignment), try/except/else
   becomes a try plus a fresh flag, and R.match(x) whose truth value alone is used is bool(R.match(x)).
   The two loops of IniConfigParser.parse (sections of the file that are in self.sections, in file order; the
   (key, value) items of each) are recognised as shapes by the translator and interpreted by ini_parse_ir. *)
From Coq Require Import ZArith NArith List Bool.
From PydoctorVerif Require Import Base.Sexp Model.ReDeriv Model.OptTypes Gen.TablesC20 Spec.PyStrLit Spec.PyListLit
     Model.IniValue Model.TomlValue.
Import ListNotations.
Local Open Scope N_scope.

Inductive exc := XValueError | XConfigError | XAssertion | XLiteralEval.
(* classes an `except` clause names *)
Inductive eclass := KException | KValueError | KConfigError | KAssertion.

(* Some b: decided; None: literal_eval raises ValueError, SyntaxError, ... -- whether `except ValueError` catches it
   is not decided by this language (the interpretation is then OStuck) *)
Definition catches (k : eclass) (x : exc) : option bool :=
  match k, x with
  | KException, _ => Some true
  | KValueError, XValueError => Some true
  | KValueError, XLiteralEval => None
  | KConfigError, XConfigError => Some true
  | KAssertion, XAssertion => Some true
  | _, _ => Some false
  end.

Inductive value :=
| VStr (t : text)
| VList (l : list text)            (* a list; for what literal_eval returns: the str() of its items *)
| VBool (b : bool)
| VNone
| VExc (x : exc).

Definition var := N.
Inductive regex_id := RQuoted | RTriple.
Inductive fn_id := FIsQuoted | FUnquoteStr.
Inductive pytype := TyList | TyString.
Inductive side := SLeft | SRight | SBoth.

Inductive expr :=
| EVar (x : var)
| EConstStr (t : text)
| EConstBool (b : bool)
| ENone
| ESplitFlag                                  (* self.split_ml_text_to_list *)
| ENot (e : expr)
| EAnd (a b : expr)
| EOr (a b : expr)
| EBool (e : expr)
| EIfExp (c a b : expr)                       (* a if c else b *)
| EStartsWith (e : expr) (c : N)
| EEndsWith (e : expr) (c : N)
| EContains (c : N) (e : expr)                (* 'c' in e *)
| EStrip (s : side) (e : expr) (c : N)        (* e.lstrip / rstrip / strip ('c') *)
| ESplit (e : expr) (c : N)                   (* e.split('c') *)
| EFilterTruthy (e : expr)                    (* [i for i in e if i] *)
| EStrItems (e : expr)                        (* [str(i) for i in e] *)
| EIsInstance (e : expr) (t : pytype)
| EReMatch (r : regex_id) (e : expr)          (* bool(R.match(e)) *)
| ELiteralEval (e : expr)
| ECall (f : fn_id) (a b : expr)              (* both translated functions take (text, triple) *)
| EMessage.                                   (* text of an exception message: not translated *)

Inductive stmt :=
| SSkip
| SSeq (a b : stmt)
| SAssign (x : var) (e : expr)
| SStore (e : expr)                           (* result[<key of the current item>] = e *)
| SIf (c : expr) (th el : stmt)
| SContinue
| SReturn (e : expr)
| SRaise (x : exc)                            (* raise X(<message>) [from e] *)
| STry (body : stmt) (hs : handlers)
| SAssert (e : expr)
with handlers :=
| HNil
| HCons (ks : list eclass) (bind : option var) (body : stmt) (rest : handlers).

(* ---- primitives *)
Fixpoint rstrip_char (c : N) (s : text) : text :=
  match s with
  | [] => []
  | x :: r => match rstrip_char c r with
              | [] => if x =? c then [] else [x]
              | r' => x :: r'
              end
  end.
Fixpoint lstrip_char (c : N) (s : text) : text :=
  match s with
  | [] => []
  | x :: r => if x =? c then lstrip_char c r else s
  end.
Definition strip_side (sd : side) (c : N) (s : text) : text :=
  match sd with
  | SLeft => lstrip_char c s
  | SRight => rstrip_char c s
  | SBoth => lstrip_char c (rstrip_char c s)
  end.

Definition regex_of (r : regex_id) : re := match r with RQuoted => quoted_re | RTriple => triple_re end.

Inductive eres := EV (v : value) | ERaise (x : exc) | EUnsup | EStuck.

(* ast.literal_eval on a text *)
Definition literal_eval_sem (s : text) : eres :=
  match py_list_literal_eval s, py_str_literal_eval s with
  | LsOk l, _ => EV (VList l)
  | _, ROk t => EV (VStr t)
  | LsErr, _ => ERaise XLiteralEval
  | _, RErr => ERaise XLiteralEval
  | _, _ => EUnsup
  end.

Definition truthy (v : value) : bool :=
  match v with
  | VStr t => nonempty t
  | VList l => match l with [] => false | _ => true end
  | VBool b => b
  | VNone => false
  | VExc _ => true
  end.

Definition env := var -> value.
Definition env0 : env := fun _ => VNone.
Definition set (e : env) (x : var) (v : value) : env := fun y => if N.eqb x y then v else e y.

Section Exec.
  Variable call_sem : fn_id -> value -> value -> eres.
  Variable split : bool.

  Definition on_str (r : eres) (f : text -> eres) : eres :=
    match r with EV (VStr s) => f s | EV _ => EStuck | x => x end.
  Definition on_list (r : eres) (f : list text -> eres) : eres :=
    match r with EV (VList l) => f l | EV _ => EStuck | x => x end.
  Definition on_val (r : eres) (f : value -> eres) : eres :=
    match r with EV v => f v | x => x end.

  Fixpoint eval (en : env) (e : expr) : eres :=
    match e with
    | EVar x => EV (en x)
    | EConstStr t => EV (VStr t)
    | EConstBool b => EV (VBool b)
    | ENone => EV VNone
    | ESplitFlag => EV (VBool split)
    | ENot a => on_val (eval en a) (fun v => EV (VBool (negb (truthy v))))
    | EAnd a b => on_val (eval en a) (fun v => if truthy v then eval en b else EV v)
    | EOr a b => on_val (eval en a) (fun v => if truthy v then EV v else eval en b)
    | EBool a => on_val (eval en a) (fun v => EV (VBool (truthy v)))
    | EIfExp c a b => on_val (eval en c) (fun v => if truthy v then eval en a else eval en b)
    | EStartsWith a c => on_str (eval en a) (fun s => EV (VBool (starts_with c s)))
    | EEndsWith a c => on_str (eval en a) (fun s => EV (VBool (ends_with c s)))
    | EContains c a => on_str (eval en a) (fun s => EV (VBool (existsb (N.eqb c) s)))
    | EStrip sd a c => on_str (eval en a) (fun s => EV (VStr (strip_side sd c s)))
    | ESplit a c => on_str (eval en a) (fun s => EV (VList (split_on c s)))
    | EFilterTruthy a => on_list (eval en a) (fun l => EV (VList (filter nonempty l)))
    | EStrItems a => on_list (eval en a) (fun l => EV (VList l))
    | EIsInstance a t =>
        on_val (eval en a) (fun v => EV (VBool (match t, v with
                                                 | TyList, VList _ => true
                                                 | TyString, VStr _ => true
                                                 | _, _ => false
                                                 end)))
    | EReMatch r a => on_str (eval en a) (fun s => EV (VBool (re_match (regex_of r) s)))
    | ELiteralEval a => on_str (eval en a) literal_eval_sem
    | ECall f a b => on_val (eval en a) (fun va => on_val (eval en b) (fun vb => call_sem f va vb))
    | EMessage => EV (VStr [])
    end.

  (* ONormal: fell off the end; OContinue: `continue`; OReturn: `return e`; ORaise: exception in flight;
     OUnsup: a primitive was not decided; OStuck: the language gives the program no meaning *)
  Inductive outcome := ONormal | OContinue | OReturn (v : value) | ORaise (x : exc) | OUnsup | OStuck.

  (* the environment, and what was last stored under the key of the current item *)
  Definition state := (env * option value)%type.

  Definition of_eres (r : eres) (k : value -> state * outcome) (st : state) : state * outcome :=
    match r with
    | EV v => k v
    | ERaise x => (st, ORaise x)
    | EUnsup => (st, OUnsup)
    | EStuck => (st, OStuck)
    end.

  (* does a handler's class tuple catch x: Some true / Some false / None = not decided *)
  Fixpoint caught (ks : list eclass) (x : exc) : option bool :=
    match ks with
    | [] => Some false
    | k :: r => match catches k x with
                | Some true => Some true
                | Some false => caught r x
                | None => None
                end
    end.

  Fixpoint exec (s : stmt) (st : state) : state * outcome :=
    match s with
    | SSkip => (st, ONormal)
    | SSeq a b =>
        let (st1, o) := exec a st in
        match o with
        | ONormal => exec b st1
        | _ => (st1, o)
        end
    | SAssign x e => of_eres (eval (fst st) e) (fun v => ((set (fst st) x v, snd st), ONormal)) st
    | SStore e => of_eres (eval (fst st) e) (fun v => ((fst st, Some v), ONormal)) st
    | SIf c th el => of_eres (eval (fst st) c) (fun v => if truthy v then exec th st else exec el st) st
    | SContinue => (st, OContinue)
    | SReturn e => of_eres (eval (fst st) e) (fun v => (st, OReturn v)) st
    | SRaise x => (st, ORaise x)
    | STry body hs =>
        let (st1, o) := exec body st in
        match o with
        | ORaise x => handle hs x st1
        | _ => (st1, o)
        end
    | SAssert e => of_eres (eval (fst st) e) (fun v => (st, if truthy v then ONormal else ORaise XAssertion)) st
    end
  with handle (hs : handlers) (x : exc) (st : state) : state * outcome :=
    match hs with
    | HNil => (st, ORaise x)
    | HCons ks bind body rest =>
        match caught ks x with
        | Some true => exec body (match bind with Some v => (set (fst st) v (VExc x), snd st) | None => st end)
        | Some false => handle rest x st
        | None => (st, OStuck)
        end
    end.
End Exec.

(* a translated function of two parameters *)
Record fdef := { f_p1 : var; f_p2 : var; f_body : stmt }.

Definition run_fn (f : fdef) (call_sem : fn_id -> value -> value -> eres) (a b : value) : eres :=
  match snd (exec call_sem false (f_body f) (set (set env0 (f_p1 f) a) (f_p2 f) b, None)) with
  | OReturn v => EV v
  | ONormal => EV VNone
  | ORaise x => ERaise x
  | OUnsup => EUnsup
  | OContinue => EStuck
  | OStuck => EStuck
  end.

Record code := {
  c_is_quoted : fdef;              (* is_quoted(text, triple) *)
  c_unquote_str : fdef;            (* unquote_str(text, triple) *)
  c_item_body : stmt;              (* body of `for k, value in config[section].items():` in IniConfigParser.parse *)
  c_key : var;
  c_value : var
}.

Section Interp.
  Variable C : code.

  Definition call0 (_ : fn_id) (_ _ : value) : eres := EStuck.
  Definition is_quoted_ir (a b : value) : eres := run_fn (c_is_quoted C) call0 a b.
  Definition call1 (f : fn_id) (a b : value) : eres :=
    match f with FIsQuoted => is_quoted_ir a b | FUnquoteStr => EStuck end.
  Definition unquote_str_ir (a b : value) : eres := run_fn (c_unquote_str C) call1 a b.
  Definition call2 (f : fn_id) (a b : value) : eres :=
    match f with FIsQuoted => is_quoted_ir a b | FUnquoteStr => unquote_str_ir a b end.

  (* one (key, value) item; None = the program got stuck *)
  Definition item_ir (split : bool) (k v : text) : option ini_res :=
    let '((_, stored), o) := exec call2 split (c_item_body C) (set (set env0 (c_key C) (VStr k)) (c_value C) (VStr v), None) in
    match o with
    | ONormal | OContinue =>
        match stored with
        | None => Some ISkip
        | Some (VStr t) => Some (IVal (OptTypes.VStr t))
        | Some (VList l) => Some (IVal (OptTypes.VList l))
        | Some _ => None
        end
    | ORaise _ => Some IConfigError        (* whatever leaves parse() makes the composite parser try the next one *)
    | OUnsup => Some IUnsup
    | OReturn _ => None
    | OStuck => None
    end.

  Fixpoint items_ir (split : bool) (items : list (text * text)) (acc : list (text * cval)) : option pres :=
    match items with
    | [] => Some (POk acc)
    | (k, v) :: r =>
        match item_ir split k v with
        | None => None
        | Some ISkip => items_ir split r acc
        | Some (IVal x) => items_ir split r (dict_set k x acc)
        | Some IConfigError => Some PError
        | Some IUnsup => Some PUnsup
        end
    end.

  Fixpoint sections_ir (sections : list text) (split : bool) (secs : list (text * list (text * text)))
           (acc : list (text * cval)) : option pres :=
    match secs with
    | [] => Some (POk acc)
    | (name, items) :: r =>
        if mem_text name sections then
          match items_ir split items acc with
          | Some (POk acc') => sections_ir sections split r acc'
          | x => x
          end
        else sections_ir sections split r acc
    end.

  Definition ini_parse_ir (sections : list text) (split : bool) (secs : list (text * list (text * text))) : option pres :=
    sections_ir sections split secs [].
End Interp.
