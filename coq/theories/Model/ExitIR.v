(* Model/ExitIR.v -- the statement language for the exit-status decision at the end of pydoctor/driver.py : main
   (everything after `make(system)` up to `return exitcode`), and its interpreter.
   Gen/ExitCode.v (harness/gen/gen_c01_exit.py, fail-closed, rewritten on every run) holds that region translated from the
   CURRENT source; Proofs/ExitIRProofs.v proves that interpreting it is Model.Proc.exit_status.  Definitions only.

   Primitive (stated meaning, not translated):
     system.parse_errors['docstring']          truthy iff docstring_errs > 0
     any(system.parse_errors.values())         true iff docstring_errs + other_errs > 0
     system.violations                         truthy iff violations > 0
     options.warnings_as_errors                the flag
     system.msg(...), the local summary printer and loops that only call it     no effect on the exit status *)
From Coq Require Import ZArith NArith List Bool.
From PydoctorVerif Require Import Model.Proc.
Import ListNotations.

Definition xvar := N.
Inductive xexpr :=
| XInt (z : Z)
| XVar (x : xvar)
| XDocErrs | XAnyErrs | XViolations | XWae
| XNot (a : xexpr) | XAnd (a b : xexpr) | XOr (a b : xexpr).

Inductive xstmt :=
| XSkip
| XSeq (a b : xstmt)
| XAssign (x : xvar) (e : xexpr)
| XIf (e : xexpr) (a b : xstmt).

(* values: ints; a truth value is an int that is zero or not (Python truthiness of int / len / bool) *)
Section Eval.
  Variables (d o v : N) (w : bool).
  Definition xenv := xvar -> Z.
  Definition zb (b : bool) : Z := if b then 1%Z else 0%Z.
  Fixpoint xeval (en : xenv) (e : xexpr) : Z :=
    match e with
    | XInt z => z
    | XVar x => en x
    | XDocErrs => Z.of_N d
    | XAnyErrs => zb (N.ltb 0 (d + o))
    | XViolations => Z.of_N v
    | XWae => zb w
    | XNot a => zb (Z.eqb (xeval en a) 0)
    | XAnd a b => let va := xeval en a in if Z.eqb va 0 then va else xeval en b
    | XOr a b => let va := xeval en a in if Z.eqb va 0 then xeval en b else va
    end.
  Fixpoint xexec (s : xstmt) (en : xenv) : xenv :=
    match s with
    | XSkip => en
    | XSeq a b => xexec b (xexec a en)
    | XAssign x e => let z := xeval en e in fun y => if N.eqb x y then z else en y
    | XIf e a b => if Z.eqb (xeval en e) 0 then xexec b en else xexec a en
    end.
End Eval.

(* the translated region and the local that `main` returns *)
Record exit_code := { xc_body : xstmt; xc_result : xvar }.

Definition run_exit (C : exit_code) (d o v : N) (w : bool) : Z :=
  xexec d o v w (xc_body C) (fun _ => 0%Z) (xc_result C).
