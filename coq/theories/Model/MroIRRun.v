(* Model/MroIRRun.v -- wire entry point for the interpretation of the code translated from pydoctor/mro.py
   (Gen/MroCode.v through Model/MroIR.v): a further leg of the correspondence check.
   input  := ( fn payload )
     fn 0 : payload = ( (c ...) ... )                -> ( status (c ...) )            merge_ir
     fn 1 : payload = hierarchy ( (c (b ...)) ... )  -> ( (c ( status (c ...) )) ... ) mro_ir for every key
   status: 0 ok | 1 ValueError | 2 out of fuel | 5 the interpretation got stuck (never: C05_code_mro_is_model) *)
From Coq Require Import ZArith NArith List Bool.
From PydoctorVerif Require Import Base.Sexp Model.Mro Model.MroIR Gen.MroCode.
Import ListNotations.

Definition opt_mres_sexp (r : option mres) : sexp :=
  match r with Some m => mres_sexp m | None => L [A 5; L []] end.

Definition run (s : sexp) : sexp :=
  let payload := nth_s 1 s in
  match to_Z (nth_s 0 s) with
  | 0%Z => opt_mres_sexp (mres_of (merge_ir mro_code (map (fun l => of_seq (to_clist l)) (to_list payload))))
  | 1%Z => let h := to_hier payload in
           L (map (fun e => L [of_N (fst e); opt_mres_sexp (mro_ir mro_code (getbases h) (mro_fuel h) (fst e))]) h)
  | _ => bad_input
  end.
