(* Model/VisitorIR.v -- a small deep-embedded statement language, large enough for the bodies of
   pydoctor/visitor.py : Visitor.visit / Visitor.depart / Visitor.walk / Visitor.walkabout, and its
   interpreter.  Gen/VisitorCode.v (written by harness/gen/gen_c19_code.py on every run, fail-closed)
   holds the four bodies translated statement by statement from the CURRENT source;
   Proofs/VisitorIRProofs.v proves that interpreting them is the hand-written Model/Visitor.v.
   Definitions only.

   What is primitive (not translated):
     super().visit(ob) / super().depart(ob)   _BaseVisitor dispatch to the main visitor's own handler: one event of
                                              participant 0, and (visit only) the pruning exception `prune n`
     v.visit(ob) / v.depart(ob) for v in self.extensions.A + self.extensions.B
                                              one event per extension, in list order; extensions do not raise
     self.get_children(ob)                    the children of the tree node *)
From Coq Require Import NArith List Bool.
From PydoctorVerif Require Import Model.Visitor.
Import ListNotations.

Inductive exc := XSkipChildren | XSkipSiblings | XSkipNode | XSkipDeparture.
(* classes an `except` clause can name; KTreePruning = Visitor._TreePruningException, the base of the other four *)
Inductive eclass := KSkipChildren | KSkipSiblings | KSkipNode | KSkipDeparture | KTreePruning.

Definition catches (k : eclass) (x : exc) : bool :=
  match k, x with
  | KTreePruning, _ => true
  | KSkipChildren, XSkipChildren | KSkipSiblings, XSkipSiblings
  | KSkipNode, XSkipNode | KSkipDeparture, XSkipDeparture => true
  | _, _ => false
  end.

Definition exc_of_action (a : action) : exc :=
  match a with
  | SkipChildren => XSkipChildren | SkipSiblings => XSkipSiblings
  | SkipNode => XSkipNode | SkipDeparture => XSkipDeparture
  end.

Inductive value := VBool (b : bool) | VNone | VExc (x : exc).
Definition var := N.

(* the conditions that occur: `if x`, `if not x`, `if x is not None` (also used for `extensions_only=not call_depart`) *)
Inductive cond := CVar (x : var) | CNot (x : var) | CIsNotNone (x : var).
(* right-hand sides: a constant, a local, or the boolean value of a condition (`x = not y`) *)
Inductive rhs := RConst (v : value) | RVar (x : var) | RCond (c : cond).

(* the four properties of ExtList *)
Inductive extlist := LBefore | LAfter | LInner | LOutter.

Inductive call :=
| CSuperVisit | CSuperDepart                 (* super().visit(ob) / super().depart(ob) *)
| CSelfVisit | CSelfDepart (extonly : cond).  (* self.visit(ob) / self.depart(ob, extensions_only=<cond>) *)

Inductive stmt :=
| SSkip
| SSeq (a b : stmt)
| SAssign (x : var) (r : rhs)
| SForExts (l1 l2 : extlist) (d : dir)       (* for v in self.extensions.l1 + self.extensions.l2: v.visit(ob) | v.depart(ob) *)
| SCall (c : call)
| SForChildren                               (* for child in self.get_children(ob): self.<this method>(child) *)
| STry (body : stmt) (hs : handlers)         (* try/except without else/finally *)
| SIf (c : cond) (th el : stmt)
| SRaiseVar (x : var)                        (* raise <variable holding a caught exception> *)
| SReturn
with handlers :=
| HNil
| HCons (ks : list eclass) (bind : option var) (body : stmt) (rest : handlers).

Definition env := var -> value.
Definition env0 : env := fun _ => VNone.
Definition set (e : env) (x : var) (v : value) : env := fun y => if N.eqb x y then v else e y.

Definition truthy (v : value) : bool :=
  match v with VBool b => b | VNone => false | VExc _ => true end.
Definition eval_cond (e : env) (c : cond) : bool :=
  match c with
  | CVar x => truthy (e x)
  | CNot x => negb (truthy (e x))
  | CIsNotNone x => match e x with VNone => false | _ => true end
  end.
Definition eval_rhs (e : env) (r : rhs) : value :=
  match r with RConst v => v | RVar x => e x | RCond c => VBool (eval_cond e c) end.

(* ONormal: fell off the end; OReturn: `return`; ORaise: exception in flight; OStuck: the program did something the
   language gives no meaning to (raise of a variable that holds no exception) *)
Inductive outcome := ONormal | OReturn | ORaise (x : exc) | OStuck.

Definition res := (list event * env * outcome)%type.

Section Exec.
  Variable call_sem : call -> env -> list event * option exc.
  Variable ext_sem : extlist -> extlist -> dir -> list event.
  Variable children_sem : list event * option exc.

  Definition of_opt (x : option exc) : outcome :=
    match x with None => ONormal | Some x => ORaise x end.

  Fixpoint exec (s : stmt) (e : env) : res :=
    match s with
    | SSkip => ([], e, ONormal)
    | SSeq a b =>
        let '(tr, e1, o) := exec a e in
        match o with
        | ONormal => let '(tr2, e2, o2) := exec b e1 in (tr ++ tr2, e2, o2)
        | _ => (tr, e1, o)
        end
    | SAssign x r => ([], set e x (eval_rhs e r), ONormal)
    | SForExts a b d => (ext_sem a b d, e, ONormal)
    | SCall c => let '(tr, x) := call_sem c e in (tr, e, of_opt x)
    | SForChildren => let '(tr, x) := children_sem in (tr, e, of_opt x)
    | STry body hs =>
        let '(tr, e1, o) := exec body e in
        match o with
        | ORaise x =>
            match handle hs x e1 with
            | Some (tr2, e2, o2) => (tr ++ tr2, e2, o2)
            | None => (tr, e1, o)
            end
        | _ => (tr, e1, o)
        end
    | SIf c th el => if eval_cond e c then exec th e else exec el e
    | SRaiseVar x => ([], e, match e x with VExc x' => ORaise x' | _ => OStuck end)
    | SReturn => ([], e, OReturn)
    end
  with handle (hs : handlers) (x : exc) (e : env) : option res :=
    match hs with
    | HNil => None
    | HCons ks bind body rest =>
        if existsb (fun k => catches k x) ks
        then Some (exec body (match bind with Some v => set e v (VExc x) | None => e end))
        else handle rest x e
    end.
End Exec.

(* what a method call yields to its caller: the events and the exception that escapes, if any *)
Definition finish (r : res) : list event * option exc :=
  let '(tr, _, o) := r in
  (tr, match o with ORaise x => Some x | _ => None end).
Definition stuck (r : res) : bool :=
  let '(_, _, o) := r in match o with OStuck => true | _ => false end.

(* for child in get_children(ob): f(child)  -- stops at the first exception *)
Definition loop (f : tree -> list event * option exc) : list tree -> list event * option exc :=
  fix go (ks : list tree) : list event * option exc :=
    match ks with
    | [] => ([], None)
    | k :: ks' =>
        let '(tr, x) := f k in
        match x with
        | Some _ => (tr, x)
        | None => let '(tr2, x2) := go ks' in (tr ++ tr2, x2)
        end
    end.

(* The interpretation of a whole Visitor class, given the translated bodies. *)
Record code := {
  c_visit : stmt; c_depart : stmt; c_depart_param : var;      (* Visitor.visit, Visitor.depart(ob, extensions_only) *)
  c_walk : stmt; c_walkabout : stmt;
  c_extlist : extlist -> when_;                                (* which When bucket each ExtList property returns *)
}.

Section Interp.
  Variable C : code.
  Variable exts : list ext.
  Variable prune : N -> option action.

  Definition ext_sem_at (n : N) (a b : extlist) (d : dir) : list event :=
    map (fun p => Ev p d n) (of_when (c_extlist C a) exts ++ of_when (c_extlist C b) exts).

  (* inside visit()/depart(): only the super() calls mean something *)
  Definition call_sem0 (n : N) (c : call) (_ : env) : list event * option exc :=
    match c with
    | CSuperVisit => ([Ev main_id Enter n], option_map exc_of_action (prune n))
    | CSuperDepart => ([Ev main_id Leave n], None)
    | _ => ([], None)
    end.

  Definition visit_ir (n : N) : list event * option exc :=
    finish (exec (call_sem0 n) (ext_sem_at n) ([], None) (c_visit C) env0).
  Definition depart_ir (n : N) (extensions_only : bool) : list event * option exc :=
    finish (exec (call_sem0 n) (ext_sem_at n) ([], None) (c_depart C)
                 (set env0 (c_depart_param C) (VBool extensions_only))).

  (* inside walk()/walkabout(): self.visit / self.depart *)
  Definition call_sem1 (n : N) (c : call) (e : env) : list event * option exc :=
    match c with
    | CSelfVisit => visit_ir n
    | CSelfDepart c' => depart_ir n (eval_cond e c')
    | _ => ([], None)
    end.

  Fixpoint walkabout_ir (t : tree) : list event * option exc :=
    match t with
    | Node n kids => finish (exec (call_sem1 n) (ext_sem_at n) (loop walkabout_ir kids) (c_walkabout C) env0)
    end.

  Fixpoint walk_ir (t : tree) : list event * option exc :=
    match t with
    | Node n kids => finish (exec (call_sem1 n) (ext_sem_at n) (loop walk_ir kids) (c_walk C) env0)
    end.
End Interp.
