(* Model/OptTypes.v -- the shape of one row of the option table that harness/gen/gen_c20.py
   regenerates from the live `pydoctor.options.get_parser()` into Gen/TablesC20.v, and the values
   a config file parser hands to configargparse. Definitions only. *)
From Coq Require Import ZArith NArith List Bool.
From PydoctorVerif Require Import Base.Sexp.
Import ListNotations.
Local Open Scope N_scope.

(* argparse action classes that occur in pydoctor's parser *)
Inductive akind : Type :=
| KStore | KStoreTrue | KStoreFalse | KAppend | KCount | KHelp | KVersion.

(* `type=` of the action *)
Inductive atype : Type := TyStr | TyInt.

(* `default=` of the action *)
Inductive adefault : Type :=
| DNone
| DStr (t : text)
| DInt (z : Z)
| DBool (b : bool)
| DEmptyList
| DSentinel (n : N)        (* an `object()` marker such as Options.MAKE_HTML_DEFAULT; n tells them apart *)
| DSuppress.               (* argparse.SUPPRESS: the dest is not in the namespace *)

Record opt : Type := {
  o_dest : text;
  o_strings : list text;     (* option_strings, in declaration order *)
  o_kind : akind;
  o_type : atype;
  o_choices : list text;     (* [] = no `choices=` *)
  o_default : adefault;
  o_keys : list text;        (* ArgumentParser.get_possible_config_keys(action) *)
  o_is_config_file : bool    (* is_config_file_arg *)
}.

(* what a ConfigFileParser.parse() returns for one key *)
Inductive cval : Type :=
| VStr (t : text)
| VList (l : list text).

Fixpoint text_eqb (a b : text) : bool :=
  match a, b with
  | [], [] => true
  | x :: a', y :: b' => (x =? y) && text_eqb a' b'
  | _, _ => false
  end.

Definition mem_text (t : text) (l : list text) : bool := existsb (text_eqb t) l.
