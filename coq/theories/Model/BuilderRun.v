(* Model/BuilderRun.v -- the executable entry point of the C03 models (extracted by Extract/XBuilder.v).
   input  : (mode payload)
     mode 0 : payload = program   -> Model.Builder.doc_walk (docstrings left raw: the harness applies inspect.cleandoc)
     mode 1 : payload = program   -> ( Spec.PyBind.py_exec , does py_exec_names accept? , does py_exec_strict accept? )
     mode 3 : payload = value     -> the interpreted translated code of _annotation_for_value (Model/BuilderIR.v on Gen/BuilderCode.v)
     mode 2 : payload = value     -> ( annotation_for_value v , type description of v )                       *)
From Coq Require Import ZArith NArith List Bool.
From PydoctorVerif Require Import Base.Sexp Model.MiniPy Model.Infer Model.Builder Model.BuilderIR Gen.BuilderCode Spec.PyBind.
Import ListNotations.

(* annotation trees on the wire: (0 name) | (1 tree..) tuple | (2) ellipsis | (3 value slice) *)
Fixpoint past_sexp (a : past) : sexp :=
  match a with
  | PName n => L [A 0; of_text n]
  | PTuple l => L (A 1 :: map past_sexp l)
  | PEllipsis => L [A 2]
  | PSubscript v s => L [A 3; past_sexp v; past_sexp s]
  end.

Definition run (s : sexp) : sexp :=
  let payload := nth_s 1 s in
  match to_Z (nth_s 0 s) with
  | 0%Z => module_sexp (doc_walk (fun t => t) (prog_of_sexp payload))
  | 1%Z => L [py_result_sexp (py_exec (prog_of_sexp payload));
              of_bool (match py_exec_names (prog_of_sexp payload) with Some _ => true | None => false end);
              of_bool (match py_exec_strict (prog_of_sexp payload) with Some _ => true | None => false end)]
  | 2%Z => let v := value_of_sexp (sexp_depth payload) payload in
           L [of_option annot_sexp (annotation_for_value v); ty_sexp v]
  | 3%Z => (* the body of _annotation_for_value translated from the current source, interpreted (its callee
              _annotation_for_elements is the translated body as well, interpreted with the model as ITS callee) *)
           let v := value_of_sexp (sexp_depth payload) payload in
           let elems := fun l => match run_body [VSeq l] model_value model_elems (fun _ => None) (fun _ => VNone) []
                                                code_annotation_for_elements KMethod with
                                 | RReturn (VPast a) _ => Some a
                                 | _ => None
                                 end in
           match run_body [ival_of_value v] model_value elems (fun _ => None) (fun _ => VNone) [] code_annotation_for_value KMethod with
           | RReturn (VPast a) _ => L [A 1; past_sexp a]
           | RReturn VNone _ => L [A 0]
           | _ => bad_input
           end
  | _ => bad_input
  end.
