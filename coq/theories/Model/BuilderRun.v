(* Model/BuilderRun.v -- the executable entry point of the C03 models (extracted by Extract/XBuilder.v).
   input  : (mode payload)
     mode 0 : payload = program   -> Model.Builder.doc_walk (docstrings left raw: the harness applies inspect.cleandoc)
     mode 1 : payload = program   -> ( Spec.PyBind.py_exec , does py_exec_names accept? , does py_exec_strict accept? )
     mode 2 : payload = value     -> ( annotation_for_value v , type description of v )                       *)
From Coq Require Import ZArith NArith List Bool.
From PydoctorVerif Require Import Base.Sexp Model.MiniPy Model.Infer Model.Builder Spec.PyBind.
Import ListNotations.

Definition run (s : sexp) : sexp :=
  let payload := nth_s 1 s in
  match to_Z (nth_s 0 s) with
  | 0%Z => module_sexp (doc_walk (fun t => t) (prog_of_sexp payload))
  | 1%Z => L [py_result_sexp (py_exec (prog_of_sexp payload));
              of_bool (match py_exec_names (prog_of_sexp payload) with Some _ => true | None => false end);
              of_bool (match py_exec_strict (prog_of_sexp payload) with Some _ => true | None => false end)]
  | 2%Z => let v := value_of_sexp (sexp_depth payload) payload in
           L [of_option annot_sexp (annotation_for_value v); ty_sexp v]
  | _ => bad_input
  end.
