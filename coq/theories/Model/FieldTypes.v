(* Model/FieldTypes.v -- the vocabulary shared by Gen/TablesC09.v (regenerated from the live
   pydoctor.epydoc2stan.FieldHandler) and Model/Fields.v.  Definitions only. *)
From Coq Require Import NArith List.
From PydoctorVerif Require Import Base.Sexp.
Import ListNotations.

(* The distinct functions the `handle_<tag>` attributes of FieldHandler are bound to
   (`handle_returns = handle_return` etc. are aliases of the same function). *)
Inductive handler :=
| HReturn        (* handle_return      *)
| HYield         (* handle_yield       *)
| HReturnType    (* handle_returntype  *)
| HYieldType     (* handle_yieldtype   *)
| HType          (* handle_type        *)
| HParam         (* handle_param       *)
| HKeyword       (* handle_keyword     *)
| HElsewhere     (* handled_elsewhere  *)
| HRaises        (* handle_raises      *)
| HWarns         (* handle_warns       *)
| HSeeAlso       (* handle_seealso     *)
| HNote          (* handle_note        *)
| HAuthor        (* handle_author      *)
| HSince.        (* handle_since       *)

(* The attributes of FieldHandler that FieldHandler.format() reads. *)
Inductive bucket :=
| BParams | BReturn | BYield | BRaises | BWarns | BAuthors | BSeeAlso | BSinces | BNotes | BUnknowns.

(* How format() emits a bucket. *)
Inductive emit_kind :=
| EParams        (* format_desc_list(label, self.parameter_descs)  if any(p.is_documented()) ; sets include_params *)
| EReturn        (* format_desc_list(label, [self.return_desc])    if return_desc and (include_params or documented) *)
| EYield         (* format_desc_list(label, [self.yields_desc])    if yields_desc *)
| EDescList      (* format_desc_list(label, bucket)                unconditional (empty list -> nothing) *)
| EFieldList     (* format_field_list(singular, plural, bucket) *)
| EUnknowns.     (* for kind, l in self.unknowns.items(): format_desc_list(prefix + kind, l) *)

Record plan_entry := { pe_kind : emit_kind; pe_bucket : bucket; pe_label : text; pe_plural : text }.

Definition handler_eqb (a b : handler) : bool :=
  match a, b with
  | HReturn, HReturn | HYield, HYield | HReturnType, HReturnType | HYieldType, HYieldType
  | HType, HType | HParam, HParam | HKeyword, HKeyword | HElsewhere, HElsewhere
  | HRaises, HRaises | HWarns, HWarns | HSeeAlso, HSeeAlso | HNote, HNote
  | HAuthor, HAuthor | HSince, HSince => true
  | _, _ => false
  end.

Definition bucket_eqb (a b : bucket) : bool :=
  match a, b with
  | BParams, BParams | BReturn, BReturn | BYield, BYield | BRaises, BRaises | BWarns, BWarns
  | BAuthors, BAuthors | BSeeAlso, BSeeAlso | BSinces, BSinces | BNotes, BNotes
  | BUnknowns, BUnknowns => true
  | _, _ => false
  end.

Fixpoint text_eqb (a b : text) : bool :=
  match a, b with
  | [], [] => true
  | x :: a', y :: b' => N.eqb x y && text_eqb a' b'
  | _, _ => false
  end.
