(* Model/ReexportIR.v -- a small deep-embedded statement language, large enough for the bodies of
     pydoctor/astbuilder.py : ModuleVistor._getCurrentModuleExports, ModuleVistor._handleReExport
     pydoctor/model.py      : Documentable.reparent, Documentable._handle_reparenting_pre / _post
   and its interpreter over the state of Model/Project.v.  Gen/ReexportCode.v (written by harness/gen/gen_c06_code.py on
   every run, fail-closed) holds these bodies translated statement by statement from the CURRENT source;
   Proofs/ReexportIRProofs.v proves that interpreting them is Model/Project.v's exports_of / handle_reexport / reparent
   (the functions the C06 / C07 theorems are about).  Definitions only.

   Primitive (not translated; their modelled meaning is the stated assumption):
     self.builder.current                 the object whose body is being walked (`cur`)
     isinstance(x, model.Module)          the class tag of x is module or package;  CanContainImportsDocumentable: or class
     x.all, x.parent, x.name              the fields o_all (modules and packages only: AttributeError otherwise), o_parent,
                                          o_name of Model/Project.v
     x.contents.get(k)                    lookup in o_contents
     x.resolveName(k), x.fullName()       Model/Project.v's resolve_name (expandName + allobjects lookup) and full_name
     k in names                           membership in a list of names
     d[k] = v, del d[k]                   the association-list updates of Model/Project.v; `del` of a missing key
                                          (KeyError) is not modelled: it leaves the dictionary as it is
     <obj>.report(...), self.system.msg(...)   no effect on the modelled state (dropped by the translator when their
                                          arguments have no effect and only use bound names)
   Constructs the translator produces by normalisation:
     SBlock x body      the inlined body of a helper (a function of the same module, or a method of the same class, whose
                        body is itself in the language): its parameters and locals are fresh variables of the caller,
                        `return v` inside it ends the block with x := v, falling off its end gives x := None
     SForSubtree e x b  `for x in _walk_with_members(e): b`, accepted only when the text of the module-level generator
                        _walk_with_members is, up to the names of its locals, the explicit-stack pre-order walk
                            pending = [ob]
                            while pending: current = pending.pop(); yield current
                                           pending.extend(reversed(list(current.contents.values())))
                        and b only touches the registry: its stated meaning is the iteration over Model/Project.v's
                        `subtree` (the object, then its members through `contents`, parents first, depth bounded by dfuel)
     a local bound to <obj>.contents, <obj>._localNameToFullName_map or <x>.system.allobjects is not a value of the
                        language: the translator reads `d[k] = v` / `del d[k]` on it as the update of that dictionary and
                        rejects any other use, and any rebinding of the local or of <obj>; every Documentable's .system is
                        the one System
   Ill-typed operations (an attribute of None, `in` on something that is not a collection, ...) evaluate to VErr, and a
   statement that needs such a value fails (XErr): Python would raise. *)
From Coq Require Import ZArith NArith List Bool.
From PydoctorVerif Require Import Base.Sexp Model.Project.
Import ListNotations.
Local Open Scope N_scope.

Inductive cls := CModule | CScope.        (* model.Module ; model.CanContainImportsDocumentable *)

Inductive value :=
| VNone | VBool (b : bool) | VObj (o : oid) | VName (n : N) | VNames (l : list N) | VPath (k : path) | VErr.
Definition var := N.

Inductive expr :=
| EConst (v : value)
| EVar (x : var)
| ECurrent                               (* self.builder.current *)
| EIsInstance (e : expr) (c : cls)       (* isinstance(e, model.Module) / isinstance(e, CanContainImportsDocumentable) *)
| EAll (e : expr)                        (* e.all *)
| EParent (e : expr)                     (* e.parent *)
| ENameOf (e : expr)                     (* e.name *)
| EContentsGet (e k : expr)              (* e.contents.get(k) *)
| EResolveName (e k : expr)              (* e.resolveName(k) *)
| EFullName (e : expr)                   (* e.fullName() *)
| EIn (a b : expr)                       (* a in b *)
| EIsNone (e : expr)                     (* e is None *)
| ENot (e : expr) | EAnd (a b : expr) | EOr (a b : expr)
| ECond (c a b : expr).                  (* a if c else b *)

Inductive stmt :=
| SSkip
| SSeq (a b : stmt)
| SAssign (x : var) (e : expr)
| SIf (e : expr) (a b : stmt)
| SAssert (e : expr)
| SReturn (e : expr)
| SReparent (ob np nm : expr)            (* ob.reparent(np, nm) *)
| SPre (e : expr)                        (* e._handle_reparenting_pre() *)
| SPost (e : expr)                       (* e._handle_reparenting_post() *)
| SSetNP (e : expr) (nm par : option expr)   (* adjacent  e.name = nm  /  e.parent = e.parentMod = par  (plain names on the right) *)
| SDelContents (e k : expr)              (* del e.contents[k] *)
| SSetContents (e k v : expr)            (* e.contents[k] = v *)
| SSetAlias (e k v : expr)               (* e._localNameToFullName_map[k] = v *)
| SDelReg (k : expr)                     (* del self.system.allobjects[k] *)
| SSetReg (k v : expr)                   (* self.system.allobjects[k] = v *)
| SForContents (e : expr) (x : var) (body : stmt)    (* for x in e.contents.values(): body *)
| SForSubtree (e : expr) (x : var) (body : stmt)     (* for x in _walk_with_members(e): body *)
| SBlock (x : option var) (body : stmt).             (* x = <inlined helper>(...) *)

Definition env := var -> value.
Definition env0 : env := fun _ => VErr.          (* an unbound local: the translator rejects reads before a binding *)
Definition setv (e : env) (x : var) (v : value) : env := fun y => if N.eqb x y then v else e y.

Definition is_inst (s : state) (o : oid) (c : cls) : bool :=
  match objs s o with
  | Some ob => match c with
               | CModule => is_module_tag (o_tag ob)
               | CScope => is_module_tag (o_tag ob) || N.eqb (o_tag ob) T_CLASS
               end
  | None => false
  end.

(* Python truth value; None for VErr *)
Definition truth (v : value) : option bool :=
  match v with
  | VNone => Some false
  | VBool b => Some b
  | VObj _ => Some true
  | VName _ => Some true                  (* names are non-empty strings *)
  | VNames l => Some (match l with [] => false | _ => true end)
  | VPath _ => Some true
  | VErr => None
  end.

Inductive xres :=
| XGo (s : state) (e : env)      (* fell through *)
| XRet (s : state) (v : value)   (* return v *)
| XErr.                          (* an exception: failed assert, ill-typed operation, a callee that failed *)

Section Exec.
  Variable cur : oid.                                        (* self.builder.current *)
  Variable call_pre call_post : state -> oid -> option state.
  Variable call_reparent : state -> oid -> oid -> N -> option state.

  Fixpoint eval (s : state) (en : env) (e : expr) : value :=
    match e with
    | EConst v => v
    | EVar x => en x
    | ECurrent => VObj cur
    | EIsInstance a c =>
        match eval s en a with
        | VObj o => VBool (is_inst s o c)
        | VErr => VErr
        | _ => VBool false
        end
    | EAll a =>
        match eval s en a with
        | VObj o => match objs s o with
                    | Some ob => if is_module_tag (o_tag ob)
                                 then match o_all ob with Some l => VNames l | None => VNone end
                                 else VErr                 (* only Module has the attribute `all` *)
                    | None => VErr
                    end
        | _ => VErr
        end
    | EParent a =>
        match eval s en a with
        | VObj o => match objs s o with
                    | Some ob => match o_parent ob with Some q => VObj q | None => VNone end
                    | None => VErr
                    end
        | _ => VErr
        end
    | ENameOf a =>
        match eval s en a with
        | VObj o => match objs s o with Some ob => VName (o_name ob) | None => VErr end
        | _ => VErr
        end
    | EContentsGet a k =>
        match eval s en a, eval s en k with
        | VObj o, VName n => match nget n (contents_of s o) with Some c => VObj c | None => VNone end
        | _, _ => VErr
        end
    | EResolveName a k =>
        match eval s en a, eval s en k with
        | VObj o, VName n => match resolve_name s o [n] with Some c => VObj c | None => VNone end
        | _, _ => VErr
        end
    | EFullName a =>
        match eval s en a with
        | VObj o => VPath (full_name s o)
        | _ => VErr
        end
    | EIn a b =>
        match eval s en a, eval s en b with
        | VName n, VNames l => VBool (memN n l)
        | _, _ => VErr
        end
    | EIsNone a =>
        match eval s en a with
        | VErr => VErr
        | VNone => VBool true
        | _ => VBool false
        end
    | ENot a => match truth (eval s en a) with Some b => VBool (negb b) | None => VErr end
    | EAnd a b => let va := eval s en a in
                  match truth va with Some true => eval s en b | Some false => va | None => VErr end
    | EOr a b => let va := eval s en a in
                 match truth va with Some true => va | Some false => eval s en b | None => VErr end
    | ECond c a b => match truth (eval s en c) with
                     | Some true => eval s en a
                     | Some false => eval s en b
                     | None => VErr
                     end
    end.

  Definition lift (o : option state) (en : env) : xres :=
    match o with Some s' => XGo s' en | None => XErr end.

  Fixpoint exec (c : stmt) (s : state) (en : env) : xres :=
    match c with
    | SSkip => XGo s en
    | SSeq a b =>
        match exec a s en with
        | XGo s1 e1 => exec b s1 e1
        | r => r
        end
    | SAssign x e => match eval s en e with VErr => XErr | v => XGo s (setv en x v) end
    | SIf e a b => match truth (eval s en e) with
                   | Some true => exec a s en
                   | Some false => exec b s en
                   | None => XErr
                   end
    | SAssert e => match truth (eval s en e) with Some true => XGo s en | _ => XErr end
    | SReturn e => match eval s en e with VErr => XErr | v => XRet s v end
    | SReparent ob np nm =>
        match eval s en ob, eval s en np, eval s en nm with
        | VObj o, VObj q, VName n => lift (call_reparent s o q n) en
        | _, _, _ => XErr
        end
    | SPre e => match eval s en e with VObj o => lift (call_pre s o) en | _ => XErr end
    | SPost e => match eval s en e with VObj o => lift (call_post s o) en | _ => XErr end
    | SSetNP e nm par =>
        match eval s en e with
        | VObj o =>
            match nm, par with
            | Some a, Some b =>
                match eval s en a, eval s en b with
                | VName n, VObj q => XGo (upd_obj s o (with_name_parent n (Some q))) en
                | _, _ => XErr
                end
            | Some a, None =>
                match eval s en a with
                | VName n => XGo (upd_obj s o (fun ob => with_name_parent n (o_parent ob) ob)) en
                | _ => XErr
                end
            | None, Some b =>
                match eval s en b with
                | VObj q => XGo (upd_obj s o (fun ob => with_name_parent (o_name ob) (Some q) ob)) en
                | _ => XErr
                end
            | None, None => XGo s en
            end
        | _ => XErr
        end
    | SDelContents e k =>
        match eval s en e, eval s en k with
        | VObj q, VName n => XGo (upd_obj s q (fun pb => with_contents (ndel n (o_contents pb)) pb)) en
        | _, _ => XErr
        end
    | SSetContents e k v =>
        match eval s en e, eval s en k, eval s en v with
        | VObj q, VName n, VObj o => XGo (upd_obj s q (fun pb => with_contents (nset n o (o_contents pb)) pb)) en
        | _, _, _ => XErr
        end
    | SSetAlias e k v =>
        match eval s en e, eval s en k, eval s en v with
        | VObj q, VName n, VPath t => XGo (upd_obj s q (fun pb => with_alias (nset n t (o_alias pb)) pb)) en
        | _, _, _ => XErr
        end
    | SDelReg k =>
        match eval s en k with
        | VPath t => XGo (set_all s (pdel t (allobjs s))) en
        | _ => XErr
        end
    | SSetReg k v =>
        match eval s en k, eval s en v with
        | VPath t, VObj o => XGo (set_all s (pset t o (allobjs s))) en
        | _, _ => XErr
        end
    | SForContents e x body =>
        match eval s en e with
        | VObj o =>
            (fix loop (l : list oid) (s : state) (en : env) : xres :=
               match l with
               | [] => XGo s en
               | c :: l' => match exec body s (setv en x (VObj c)) with
                            | XGo s1 e1 => loop l' s1 e1
                            | r => r
                            end
               end) (map snd (contents_of s o)) s en
        | _ => XErr
        end
    | SForSubtree e x body =>
        match eval s en e with
        | VObj o =>
            (fix loop (l : list oid) (s : state) (en : env) : xres :=
               match l with
               | [] => XGo s en
               | c :: l' => match exec body s (setv en x (VObj c)) with
                            | XGo s1 e1 => loop l' s1 e1
                            | r => r
                            end
               end) (subtree s o) s en
        | _ => XErr
        end
    | SBlock x body =>
        match exec body s en with
        | XGo s1 e1 => XGo s1 (match x with Some y => setv e1 y VNone | None => e1 end)
        | XRet s1 v => XGo s1 (match x with Some y => setv en y v | None => en end)
        | XErr => XErr
        end
    end.
End Exec.

(* a procedure without a return value: the final state *)
Definition finish (r : xres) : option state :=
  match r with XGo s _ => Some s | XRet s VNone => Some s | _ => None end.

Record code := {
  c_exports : stmt;       (* ModuleVistor._getCurrentModuleExports(self) *)
  c_handle : stmt;        (* ModuleVistor._handleReExport(self, curr_mod_exports, origin_name, as_name, origin_module) *)
  c_reparent : stmt;      (* Documentable.reparent(self, new_parent, new_name) *)
  c_pre : stmt;           (* Documentable._handle_reparenting_pre(self) *)
  c_post : stmt           (* Documentable._handle_reparenting_post(self) *)
}.

Definition no_walk (_ : state) (_ : oid) : option state := None.
Definition no_reparent (_ : state) (_ _ : oid) (_ : N) : option state := None.
Definition stop_walk (s : state) (_ : oid) : option state := Some s.

(* parameters are bound to the variables 0, 1, 2, ... in the order of the signature (without the visitor's `self`) *)
Fixpoint bind (vs : list value) (k : N) (en : env) : env :=
  match vs with [] => en | v :: vs' => bind vs' (k + 1) (setv en k v) end.
Definition args (vs : list value) : env := bind vs 0 env0.

Section Interp.
  Variable C : code.

  (* _handle_reparenting_pre / _post on object o: the recursion through `contents`, `fuel` levels deep (Model/Project.v
     bounds the depth of the object tree by dfuel; below that bound the walk does not descend) *)
  Fixpoint pre_ir (fuel : nat) (s : state) (o : oid) : option state :=
    match fuel with
    | O => finish (exec o stop_walk no_walk no_reparent (c_pre C) s (args [VObj o]))
    | S f => finish (exec o (pre_ir f) no_walk no_reparent (c_pre C) s (args [VObj o]))
    end.
  Fixpoint post_ir (fuel : nat) (s : state) (o : oid) : option state :=
    match fuel with
    | O => finish (exec o no_walk stop_walk no_reparent (c_post C) s (args [VObj o]))
    | S f => finish (exec o no_walk (post_ir f) no_reparent (c_post C) s (args [VObj o]))
    end.

  Definition reparent_ir (s : state) (o np : oid) (nn : N) : option state :=
    finish (exec o (fun s' x => pre_ir (dfuel s') s' x) (fun s' x => post_ir (dfuel s') s' x) no_reparent
                 (c_reparent C) s (args [VObj o; VObj np; VName nn])).

  Definition handle_ir (s : state) (cur : oid) (exports : list N) (orgname asname : N) (origin : oid) : option (state * bool) :=
    match exec cur no_walk no_walk reparent_ir (c_handle C) s (args [VNames exports; VName orgname; VName asname; VObj origin]) with
    | XRet s' (VBool b) => Some (s', b)
    | _ => None
    end.

  Definition exports_ir (s : state) (cur : oid) : option (list N) :=
    match exec cur no_walk no_walk no_reparent (c_exports C) s (args []) with
    | XRet _ (VNames l) => Some l
    | _ => None
    end.
End Interp.
